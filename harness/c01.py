"""C01 — the message pump cannot be crashed or tricked by input."""
import threading
import time

from . import gwfam, gw
from .common import dec_str

THEOREMS = ["MySensors.C01.safe_step", "MySensors.C01.pump_total", "MySensors.C01.rejected_noop",
            "MySensors.C01.mqtt_publish_total", "MySensors.C01.safe_run", "MySensors.C01.pump_total_run",
            "MySensors.C01.safe_fresh"]
ASSUMPTIONS = [
    "exceptions are explicit in the model: every Python construct that can raise inside Gateway.logic is a `fail` "
    "in Model/Gateway.lean (dict lookups, enum/handler lookups, Message.copy, struct packing, the wake-up flush); "
    "that no other construct raises is sampled by the correspondence (exception kind per op), not proved",
    "version strings outside the modelled awesomeversion domain are treated as rejected",
    "Transport.send itself (sockets, serial ports) is C16's subject; here the transport is a recording fake, and "
    "MQTTTransport.send's re-decoding is modelled (transportFilter)",
    "controller values are text; firmware images are bytes",
]
PROBE = ("L", "1;255;3;0;6;0\n")


def add_probe(rng, version, hist):
    return hist + [PROBE]


def ota_session(rng, version, hist):
    """weave a scripted OTA session (incl. block requests naming other / unloaded firmware) into half the histories"""
    from .c10 import session_burst
    return session_burst(rng, version, hist) if rng.random() < 0.5 else hist


CFG = {"quick": 300, "thorough": 12000, "lengths": [10, 20, 35], "malformed": 0.4,
       "bias": {"stream": 2, "update": 1.5, "wake": 1.5, "ctl_set": 1.5}, "post": [ota_session, gw.text_echo_burst, gw.separator_value_burst, add_probe]}


def probe_oracle(hist, obs_lines):
    """after whatever came before, a config request still gets its M / I reply"""
    if not hist or tuple(hist[-1]) != PROBE:
        return []           # a stored history that does not end with the probe
    o = gwfam.parse_obs(obs_lines[-1])
    if o is None:
        return [{"key": {"kind": "probe-unparsable"}, "what": obs_lines[-1][:200], "at": len(hist) - 1,
                 "noshrink": True}]
    sent = [] if o["sent"] == "-" else [dec_str(x) for x in o["sent"].split("|")]
    if o["exc"] != "none" or len(sent) != 1 or sent[0] not in ("1;255;3;0;6;M\n", "1;255;3;0;6;I\n"):
        # node 1 may be sleeping: then the reply is withheld, which is fine
        if o["exc"] == "none" and sent == [] and "N1{" in o["st"]:
            return []
        return [{"key": {"kind": "probe-unanswered"}, "what": f"probe got {sent!r} exc={o['exc']}",
                 "at": len(hist) - 1, "noshrink": True}]
    return []


def relevant(hist, obs):
    return sum(1 for o in obs if "cb=-" not in o) >= 2


def live_pump_check(seed, n_lines=300):
    """thorough: a real SyncTasks._poll_queue thread survives a stream of hostile lines"""
    import random
    from mysensors import BaseSyncGateway
    rng = random.Random(seed)
    transport = gw.FakeTransport()
    gateway = BaseSyncGateway(transport, protocol_version="2.2")
    thread = threading.Thread(target=gateway.tasks._poll_queue, daemon=True)
    thread.start()
    sym = gw.Sym()
    try:
        hist = gw.gen_history(rng, "2.2", n_lines, malformed=0.5)
        for op in hist:
            if op[0] == "L":
                gateway.tasks.add_job(gateway.logic, op[1])
            elif op[0] == "S":
                try:
                    gateway.set_child_value(op[1], op[2], op[3], op[4])
                except Exception:  # noqa: BLE001  (controller calls may raise to the caller)
                    pass
        before = len(transport.log)
        gateway.tasks.add_job(gateway.logic, "200;255;3;0;6;0\n")
        deadline = time.time() + 5
        while time.time() < deadline and not any(l.startswith("200;255;3;0;6;") for l in transport.log[before:]):
            time.sleep(0.02)
        ok = thread.is_alive() and any(l.startswith("200;255;3;0;6;") for l in transport.log[before:])
    finally:
        gateway.tasks._stop_event.set()
        thread.join(2)
    del sym
    return ok


BIG = 0xFFFF * 16          # the largest image the 16-bit block counter can count


def big_image(size, version="2.2"):
    """A firmware update with an image at the limit of the block counter (handed to make_update as bytes; the
    Intel HEX route is the same call after load_fw), then what the node sends: a config request, block requests
    for the first and the last block, a set message.  Returns (did the update call return normally, list of
    (line, exception name)) — judged on the real code only (the image is too large for the driver's wire)."""
    from . import persist_util as pu
    from .c09 import pack_words
    gw = pu.make_gateway(version)
    out = []
    for line in ("1;255;0;0;17;2.2\n", "1;0;0;0;3;\n"):
        gw.logic(line)
    try:
        gw.tasks.ota.make_update([1], 1, 1, bytes(size))
        accepted = True
    except Exception:  # noqa: BLE001   (a refused call is fine; C10 has the rule for it)
        accepted = False
    blocks = -(-size // 128) * 8
    for line in (f"1;255;4;0;0;{pack_words(1, 0, 10, 0, 0)}\n", f"1;255;4;0;2;{pack_words(1, 1, 0)}\n",
                 f"1;255;4;0;2;{pack_words(1, 1, min(blocks, 65536) - 1)}\n", "1;0;1;0;2;1\n",
                 f"1;255;4;0;0;{pack_words(1, 1, min(blocks, 65535), 0, 0)}\n"):
        try:
            gw.logic(line)
        except Exception as exc:  # noqa: BLE001
            out.append((line.strip(), type(exc).__name__))
    return accepted, out


def big_image_part(res, tier):
    sizes = [BIG - 128, BIG - 127, BIG - 112, BIG - 16, BIG - 1, BIG, BIG + 1, BIG + 16]
    for size in (sizes if tier == "thorough" else [BIG - 128, BIG - 112, BIG, BIG + 16]):
        accepted, raised = big_image(size)
        res.evaluations += 1
        res.count("largest-images:" + ("accepted" if accepted else "refused"))
        if raised:
            res.oracle_failures.append({
                "key": {"kind": "raises-after-big-image", "exc": raised[0][1]},
                "replay": {"op": "big-image", "size": size},
                "what": f"an update with an image of {size} bytes ({'accepted' if accepted else 'refused'} by the call), "
                        f"then {raised[0][0]!r} from the node: processing raised {raised[0][1]}"})


def mqtt_deliveries_part(res):
    """What the network hands an MQTT gateway is a topic and a payload, not a line.  Topics that are cut short,
    too long, empty, all separators, or somebody else's — under an empty, a one-level and a nested in-prefix —
    are delivered to both MQTT classes through `transport.recv`: it never raises, and only the gateway's own
    five-level topics leave a job for the pump (which topics those are is C17's theorem; here: no crash, and
    no job for a topic with the wrong number of levels)."""
    from .c17 import make_real
    levels = ["1", "255", "3", "0", "11"]
    for prefix in ("", "in", "a/b", "mygateway1-out"):
        topics = []
        for k in range(0, 8):
            body = "/".join((levels * 2)[:k])
            topics += [prefix + ("/" + body if k else ""), prefix + "/" + body + "/", body, "/" + body]
        topics += ["", "/", "//", "/////", prefix, prefix + "/", prefix + "//////", "#", "+/+/+/+/+", prefix + "/+/+/3/+/+",
                   prefix + "/1/255/3/0", prefix + "/1/255/3", prefix + "/1/255", prefix + "/1", prefix + "/x/255/3/0/11",
                   prefix + "/1/255/3/0/11/extra", "other/1/255/3/0/11", prefix + "/\u00e9/\u6f22/3/0/11"]
        for flavour in ("sync", "async"):
            gw, rec = make_real(flavour, prefix, "out")
            for topic in topics:
                for payload, qos in (("sketch", 0), ("", 1), ("x;y", 2), ("1", None)):
                    rec["jobs"].clear()
                    res.evaluations += 1
                    try:
                        gw.tasks.transport.recv(topic, payload, qos)
                    except Exception as exc:  # noqa: BLE001
                        res.oracle_failures.append({
                            "key": {"kind": "mqtt-delivery-raised", "exc": type(exc).__name__},
                            "replay": {"op": "mqtt-delivery", "prefix": prefix, "flavour": flavour, "topic": topic,
                                       "payload": payload, "qos": qos},
                            "what": f"{flavour} MQTT gateway, in_prefix={prefix!r}: the delivery ({topic!r}, {payload!r}, "
                                    f"qos {qos}) raised {type(exc).__name__}: {exc}"})
                        break
                    own = topic.startswith(prefix + "/") and topic[len(prefix) + 1:].count("/") == 4
                    if rec["jobs"] and not own:
                        res.oracle_failures.append({
                            "key": {"kind": "mqtt-delivery-accepted"},
                            "replay": {"op": "mqtt-delivery", "prefix": prefix, "flavour": flavour, "topic": topic,
                                       "payload": payload, "qos": qos},
                            "what": f"{flavour} MQTT gateway, in_prefix={prefix!r}: the delivery on {topic!r} (not the "
                                    f"prefix plus five levels) was handed to the pump as {rec['jobs'][0]!r}"})
                        break
        res.count("mqtt-deliveries:" + (prefix or "(empty prefix)"), len(topics) * 8)


def run(tier, seed, driver):
    res = gwfam.run_family("C01", tier, seed, driver, CFG, relevant, extra_oracle=probe_oracle)
    big_image_part(res, tier)
    mqtt_deliveries_part(res)
    res.rule = ("histories over all versions and the base/TCP/MQTT kinds with 40% malformed next lines (random text, "
                "truncated frames, 7-field frames, out-of-range headers, valid headers with arbitrary payloads, "
                "exotic integer spellings) from states that include smart-sleep and OTA sessions, each followed by a "
                "config-request probe; corpus of the fixed crash replays first; non-trivial = at least two accepted "
                "state-changing messages; distinct by op script")
    if tier == "thorough":
        for i in range(3):
            ok = live_pump_check(seed * 31 + i)
            res.count("live-pump-ok" if ok else "live-pump-dead")
            if not ok:
                res.oracle_failures.append({"key": {"kind": "poll-thread-died"},
                                            "what": "SyncTasks._poll_queue thread died or stopped answering",
                                            "replay": {"live_seed": seed * 31 + i}})
    return res


def replay(payload):
    if (payload.get("replay") or {}).get("op") == "mqtt-delivery":
        from .c17 import make_real
        r = payload["replay"]
        gw, rec = make_real(r["flavour"], r["prefix"], "out")
        try:
            gw.tasks.transport.recv(r["topic"], r["payload"], r["qos"])
        except Exception as exc:  # noqa: BLE001
            print("raised", type(exc).__name__, exc)
            return 1
        own = r["topic"].startswith(r["prefix"] + "/") and r["topic"][len(r["prefix"]) + 1:].count("/") == 4
        print("jobs:", rec["jobs"])
        return 1 if rec["jobs"] and not own else 0
    if (payload.get("replay") or {}).get("op") == "big-image":
        accepted, raised = big_image(payload["replay"]["size"])
        print("update call returned normally:", accepted, " lines that raised:", raised)
        return 1 if raised else 0
    return gwfam.replay_family("C01", payload)
