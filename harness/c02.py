"""C02 — wire codec round trip: correspondence (Message vs Lean Codec model) and oracle."""
import random
import sys

from . import common
from .common import Result, enc_str, dec_str, digest

THEOREMS = [
    "MySensors.C02.decode_encode", "MySensors.C02.encode_none_iff",
    "MySensors.C02.encode_decode_canonical", "MySensors.C02.canon_shape",
    "MySensors.C02.decoded_payload_carryable", "MySensors.C02.canonical_unique",
    "MySensors.C02.copy_spec", "MySensors.C02.modify_fields", "MySensors.C02.copy_id",
    "MySensors.C02.copy_decoded",
]
ASSUMPTIONS = [
    "CPython str.rstrip/split/join/int()/str(int) behave as the Lean Py/* definitions; sampled "
    "here over every Unicode Nd block, all 29 isspace characters, underscores, signs and the "
    "4300-digit limit",
    "Lean Char = Unicode scalar value: lone surrogates are outside the model",
]

SPACE = [c for c in range(0x110000) if chr(c).isspace()]


def _digit_zeros():
    zs = []
    for c in range(0x110000):
        if 0xD800 <= c <= 0xDFFF:
            continue
        try:
            if int(chr(c)) == 0:
                zs.append(c)
        except ValueError:
            pass
    return zs


ZEROS = _digit_zeros()


def dec(n):
    """str(n) without CPython's digit limit (the limit is part of what is being tested,
    so the harness must not lift it process-wide)."""
    if n < 0:
        return "-" + dec(-n)
    chunk = 10 ** 4000
    parts = []
    while n >= chunk:
        n, r = divmod(n, chunk)
        parts.append(str(r).rjust(4000, "0"))
    parts.append(str(n))
    return "".join(reversed(parts))


def spell_int(rng, n, exotic=True):
    """A spelling of n that int() accepts (mostly) or a near miss."""
    s = dec(abs(n))
    if exotic and rng.random() < 0.5:
        z = rng.choice(ZEROS)
        s = "".join(chr(z + int(ch)) if rng.random() < 0.7 else ch for ch in s)
    if exotic and rng.random() < 0.3 and len(s) > 1:
        i = rng.randrange(1, len(s))
        s = s[:i] + "_" + s[i:]
    if exotic and rng.random() < 0.3:
        s = "0" * rng.randrange(1, 4) + s
    sign = "-" if n < 0 else (rng.choice(["", "", "+"]) if exotic else "")
    s = sign + s
    if exotic and rng.random() < 0.4:
        s = "".join(chr(rng.choice(SPACE)) for _ in range(rng.randrange(1, 3))) + s
    if exotic and rng.random() < 0.4:
        s = s + "".join(chr(rng.choice(SPACE)) for _ in range(rng.randrange(1, 3)))
    if exotic and rng.random() < 0.08:
        s = rng.choice(["", "_" + s, s + "_", s.replace("_", "__") if "_" in s else s + "x",
                        "+-1", "- 1", "1 2", "0x10", "1.0", "١٢٣٤٥", "1e3", "²", "1\x002"])
    return s


PAYLOAD_ALPHABET = ["a", "Z", "0", "9", " ", "\t", ";", "\n", "\r", "\x1c", "\x1f", "\x85", "\xa0",
                    " ", "　", "é", "ß", "漢", "\U0001F600", "\x00", ",", ".", "-", "/", "+", "#"]


def rand_payload(rng):
    k = rng.choice([0, 0, 1, 1, 2, 3, 5, 8, 20])
    return "".join(rng.choice(PAYLOAD_ALPHABET) if rng.random() < 0.8
                   else chr(rng.choice([rng.randrange(0x20, 0x7f), rng.randrange(0xa0, 0xd7ff),
                                        rng.randrange(0xe000, 0x10ffff)]))
                   for _ in range(k))


def rand_int(rng):
    r = rng.random()
    if r < 0.5:
        return rng.randrange(0, 256)
    if r < 0.7:
        return rng.randrange(-300, 70000)
    if r < 0.998:
        return rng.choice([-1, 1]) * rng.getrandbits(rng.choice([8, 16, 31, 32, 64, 200]))
    return rng.choice([10 ** 4299, 10 ** 4300 - 1, 10 ** 4300, -(10 ** 4299), -(10 ** 4300)])


class Tagged(int):
    """an integer whose text form is not its decimal value (what bool and user enums are)"""

    def __str__(self):
        return f"<{int(self)}>"

    __repr__ = __str__

    def __format__(self, _spec):
        return str(self)


def dress(value, how):
    """the same integer as an instance of an int subclass: bool, an IntEnum member, an int with its own str()"""
    import enum
    if how == "bool" and value in (0, 1):
        return bool(value)
    if how == "enum":
        return enum.IntEnum("Dressed", {"V": value}).V
    if how == "tagged":
        return Tagged(value)
    if how == "const":
        from mysensors.const_22 import MessageType
        try:
            return MessageType(value)
        except ValueError:
            return value
    return value


def dressed(fields, hows):
    return [dress(f, h) for f, h in zip(fields, hows)]


def gen_line(rng):
    r = rng.random()
    if r < 0.04:
        return rand_payload(rng)
    nf = 5 if r < 0.85 else rng.choice([0, 1, 3, 4, 6, 7])
    fields = [spell_int(rng, rand_int(rng) if rng.random() < 0.9 else rng.randrange(256)) for _ in range(nf)]
    payload = rand_payload(rng)
    if rng.random() < 0.15:
        # a payload that looks like a frame
        payload = "1;2;3" if rng.random() < 0.5 else payload
    line = ";".join(fields + [payload])
    end = rng.choice(["\n", "\n", "\r\n", "", " \n", "\n\n", "\x1c\n", " "])
    return line + end


def real_decode(line):
    from mysensors.message import Message
    try:
        m = Message(line)
    except ValueError:
        return "err"
    except Exception as exc:  # noqa: BLE001  decoding may refuse a line with ValueError, nothing else
        return "raised-" + type(exc).__name__
    return f"ok {m.node_id} {m.child_id} {m.type} {m.ack} {m.sub_type} {enc_str(m.payload)}"


def real_encode(fields, payload):
    from mysensors.message import Message
    m = Message(node_id=fields[0], child_id=fields[1], type=fields[2], ack=fields[3],
                sub_type=fields[4], payload=payload)
    try:
        out = m.encode()
    except Exception as exc:  # noqa: BLE001  encode reports an unusable field by returning None
        return "raised-" + type(exc).__name__
    return "none" if out is None else "ok " + enc_str(out)


KW_NAMES = ["node_id", "child_id", "type", "ack", "sub_type", "payload"]
KW_WIRE = ["node", "child", "type", "ack", "sub", "payload"]


def real_copy(fields, payload, kw):
    from mysensors.message import Message
    m = Message(node_id=fields[0], child_id=fields[1], type=fields[2], ack=fields[3],
                sub_type=fields[4], payload=payload)
    try:
        c = m.copy(**kw)
    except ValueError:
        return "raised"
    except Exception as exc:  # noqa: BLE001
        return "raised-" + type(exc).__name__
    return f"ok {dec(c.node_id)} {dec(c.child_id)} {dec(c.type)} {dec(c.ack)} {dec(c.sub_type)} {enc_str(c.payload)}"


def carryable(p):
    return ";" not in p and "\n" not in p and "\r" not in p and (p == "" or not p[-1].isspace())


def within_limit(n):
    return len(dec(abs(n))) <= 4300


def oracle_roundtrip(fields, payload):
    """Property C02 on the real class.  Returns None or a description of the failure."""
    from mysensors.message import Message
    m = Message(node_id=fields[0], child_id=fields[1], type=fields[2], ack=fields[3],
                sub_type=fields[4], payload=payload)
    try:
        line = m.encode()
    except Exception as exc:  # noqa: BLE001
        return f"encode raised {type(exc).__name__}"
    if line is None:
        return None if not all(within_limit(f) for f in fields) else "encode returned None"
    if not carryable(payload):
        return None
    try:
        d = Message(line)
    except Exception as exc:  # noqa: BLE001
        return f"decode(encode(m)) raised {type(exc).__name__}"
    got = [d.node_id, d.child_id, d.type, d.ack, d.sub_type, d.payload]
    if got != list(fields) + [payload]:
        return "decode(encode(m)) = " + repr([x if isinstance(x, str) else dec(x)[:40] for x in got])
    if not line.endswith("\n") or line[:-1].endswith("\n") or line.count(";") != 5:
        return "encoded line is not canonical"
    return None


def oracle_canonical(line):
    from mysensors.message import Message
    try:
        m = Message(line)
    except ValueError:
        return None
    except Exception as exc:  # noqa: BLE001
        return f"decoding raised {type(exc).__name__}, not ValueError"
    try:
        c = m.encode()
    except Exception as exc:  # noqa: BLE001
        return f"re-encode of an accepted line raised {type(exc).__name__}"
    if c is None:
        return "re-encode of an accepted line returned None"
    want = ";".join([str(m.node_id), str(m.child_id), str(m.type), str(m.ack), str(m.sub_type),
                     m.payload]) + "\n"
    if c != want:
        return "re-encoded line is not the canonical line"
    try:
        m2 = Message(c)
    except Exception:  # noqa: BLE001
        return "canonical line does not decode"
    if (m2.node_id, m2.child_id, m2.type, m2.ack, m2.sub_type, m2.payload) != \
            (m.node_id, m.child_id, m.type, m.ack, m.sub_type, m.payload):
        return "canonical line decodes to a different message"
    if m2.encode() != c:
        return "canonical line is not a fixed point"
    return None


def oracle_copy(fields, payload, kw):
    from mysensors.message import Message
    if not carryable(payload) or not all(within_limit(f) for f in fields):
        return None
    m = Message(node_id=fields[0], child_id=fields[1], type=fields[2], ack=fields[3],
                sub_type=fields[4], payload=payload)
    try:
        c = m.copy(**kw)
    except Exception as exc:  # noqa: BLE001
        return f"copy raised {type(exc).__name__}"
    want = dict(zip(KW_NAMES, list(fields) + [payload]))
    want.update(kw)
    got = {k: getattr(c, k) for k in KW_NAMES}
    if got != want:
        show = lambda d: {k: (v if isinstance(v, str) else dec(v)[:40]) for k, v in d.items()}
        return f"copy fields {show(got)!r} != {show(want)!r}"
    return None


def corpus_lines():
    out = ["1;2;3;0;4;hi\n", "1;2;3;0;4;\n", " +1;٢;1_0;0;-0;hi \r\n", "1;2;3;0;4", ";;;;;", "abc",
           "1;2;3;0;4;a;b\n", "1;2;3;0;4;5;6\n", "1\x1c;2;3;0;4;x\n", "1;2;3;0;4;x\x1c\n",
           "1;2;3;0;" + "1" * 4300 + ";p\n", "1;2;3;0;" + "1" * 4301 + ";p\n",
           "1;2;3;0;" + "0" * 4301 + ";p\n", "", "\n", ";", "1;2;3;0;4;1;2;3;0;4;x\n"]
    for z in ZEROS:
        out.append(f"{chr(z + 1)};{chr(z + 2)}{chr(z + 5)};0;1;{chr(z + 9)};v\n")
    for c in SPACE:
        out.append(f"{chr(c)}1{chr(c)};2;3;0;4;p{chr(c)}\n")
        out.append(f"1;2;3;0;4;{chr(c)}p{chr(c)}q\n")
    return out


def run(tier, seed, driver):
    res = Result()
    rng = random.Random(seed * 7919 + 2)
    n = (6000 if tier == "quick" else 150000) * common.effort(tier)
    lines = corpus_lines() + [gen_line(rng) for _ in range(n)]
    if tier == "thorough":
        # exhaustive single-character payloads over all Unicode scalar values
        lines += [f"1;2;3;0;4;{chr(c)}\n" for c in range(0x110000) if not 0xD800 <= c <= 0xDFFF]
    msgs = []
    for _ in range(n // 2):
        fields = [rand_int(rng) for _ in range(5)]
        msgs.append((fields, rand_payload(rng)))
    for big in [10 ** 4299, 10 ** 4300 - 1, 10 ** 4300, -(10 ** 4299), -(10 ** 4300)]:
        msgs.append(([1, 2, big, 0, 4], "big"))
    msgs += [([1, 2, 3, 0, 4], p) for p in ["", "a", "a b", "x　y", ";", "a;b", "a\n", "a ", "\U0001F600"]]
    # header fields given as instances of int subclasses (ack=True, enum members): the same integers
    hows_of = {}
    for k in range(n // 8):
        fields = [rand_int(rng) if rng.random() < 0.6 else rng.randrange(0, 5) for _ in range(5)]
        if rng.random() < 0.5:
            fields[3] = rng.randrange(2)
        hows = [rng.choice(["bool", "enum", "tagged", "const", "plain"]) for _ in range(5)]
        if k < 4:
            fields, hows = [1, 2, 1, k % 2, 2], ["plain", "plain", ["plain", "const"][k // 2], "bool", "plain"]
        hows_of[len(msgs)] = hows
        msgs.append((dressed(fields, hows), rand_payload(rng) if k >= 4 else "on"))
    plain = lambda fs: [int(f) for f in fs]
    kws = []
    for fields, payload in msgs[: n // 4]:
        kw = {}
        for name in KW_NAMES:
            if rng.random() < 0.35:
                kw[name] = rand_payload(rng) if name == "payload" else rand_int(rng)
        kws.append((fields, payload, kw))
    # all 64 subsets of replaced fields on one message
    for mask in range(64):
        kw = {}
        for i, name in enumerate(KW_NAMES):
            if mask >> i & 1:
                kw[name] = "new" if name == "payload" else 100 + i
        kws.append(([1, 2, 3, 0, 4], "old", kw))
    ops = []
    impl = []
    for l in lines:
        ops.append("DEC " + enc_str(l))
        impl.append(real_decode(l))
    for fields, payload in msgs:
        ops.append("ENC " + " ".join(map(dec, plain(fields))) + " " + enc_str(payload))
        impl.append(real_encode(fields, payload))
    for fields, payload, kw in kws:
        w = " ".join(f"{KW_WIRE[KW_NAMES.index(k)]}=" + (enc_str(v) if k == "payload" else dec(v))
                     for k, v in kw.items())
        ops.append("CPY " + " ".join(map(dec, fields)) + " " + enc_str(payload) + (" " + w if w else ""))
        impl.append(real_copy(fields, payload, kw))
    res.evaluations = len(ops)
    res.rule = ("decode lines: corpus (every Nd block, every isspace char, digit-limit boundaries) + "
                "seeded generator (60% exotic integer spellings, mixed payload alphabet, field counts 0..7); "
                "encode/copy: random ints incl. negative, >255, 4300/4301 digits; all 64 kw subsets. "
                "non-trivial = the real decode/encode/copy succeeded (not an error path); distinct by canonical output")
    sys.setrecursionlimit(10000)
    if driver is not None:
        try:
            model = driver.run(ops)
        except Exception as exc:  # noqa: BLE001
            res.corr_diffs.append({"name": "codec-driver", "case": "driver", "model": str(exc), "impl": ""})
            model = None
        if model is not None:
            for op, a, b in zip(ops, model, impl):
                if a != b:
                    res.corr_diffs.append({"name": "codec", "case": op[:400], "model": a[:300], "impl": b[:300]})
                    if len(res.corr_diffs) > 20:
                        break
            res.traces_validated = len(ops)
    for op, b in zip(ops, impl):
        kind = op.split(" ", 1)[0]
        if b.startswith("ok"):
            res.distinct.add(digest(b))
            res.count(kind + ":ok")
        else:
            res.count(kind + ":" + b.split(" ")[0])
    # oracle on the real code
    for l in lines:
        f = oracle_canonical(l)
        if f:
            res.oracle_failures.append({"key": {"kind": "canonical", "what": f}, "what": f,
                                        "replay": {"op": "decode", "line": l}})
    for k, (fields, payload) in enumerate(msgs):
        f = oracle_roundtrip(fields, payload)
        if f is None and k in hows_of and all(within_limit(x) for x in fields):
            # copy() of a message built from such fields is an equal message
            f = oracle_copy(fields, payload, {})
        if k in hows_of:
            res.count("encode:int-subclass-fields")
        if f:
            if k in hows_of:
                f += f" (header fields given as {hows_of[k]})"
            res.oracle_failures.append({"key": {"kind": "roundtrip", "what": f.split("=")[0].split(" (")[0]}, "what": f,
                                        "replay": {"op": "encode", "fields": [dec(x) for x in plain(fields)],
                                                   "payload": payload, "dress": hows_of.get(k)}})
    for fields, payload, kw in kws:
        f = oracle_copy(fields, payload, kw)
        if f:
            res.oracle_failures.append({"key": {"kind": "copy", "what": f.split(" ")[0]}, "what": f,
                                        "replay": {"op": "copy", "fields": [dec(x) for x in fields],
                                                   "payload": payload, "kw": {k: (v if k == "payload" else dec(v)) for k, v in kw.items()}}})
    res.sample({"decode": lines[2], "impl": real_decode(lines[2])})
    res.sample({"decode": lines[len(corpus_lines()) + 1][:120], "impl": impl[len(corpus_lines()) + 1][:120]})
    res.sample({"encode": [dec(x)[:30] for x in msgs[0][0]], "payload": msgs[0][1], "impl": real_encode(*msgs[0])[:120]})
    res.sample({"copy": kws[-1][2], "impl": real_copy(*kws[-1])})
    return res


def replay(payload):
    r = payload.get("replay", {})
    print(payload)
    if r.get("op") == "decode":
        print("impl:", real_decode(r["line"]), "oracle:", oracle_canonical(r["line"]))
        print("model:", common.Driver().run(["DEC " + enc_str(r["line"])]))
    elif r.get("op") == "encode":
        fields = [int(x) for x in r["fields"]]
        if r.get("dress"):
            fields = dressed(fields, r["dress"])
        verdict = oracle_roundtrip(fields, r["payload"]) or (oracle_copy(fields, r["payload"], {}) if r.get("dress") else None)
        print("impl:", real_encode(fields, r["payload"]), "oracle:", verdict)
        return 1 if verdict else 0
    elif r.get("op") == "copy":
        fields = [int(x) for x in r["fields"]]
        kw = {k: (v if k == "payload" else int(v)) for k, v in r["kw"].items()}
        print("impl:", real_copy(fields, r["payload"], kw), "oracle:", oracle_copy(fields, r["payload"], kw))
    return 0
