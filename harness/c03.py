"""C03 — inbound validation conforms to the per-version serial API.

Correspondence: the real `Message(line).validate(version)` / `ChildSensor.validate` (run in
worker processes, the real call costs ~1 ms) against the Lean `validate` / `childValidate`
(driver commands VAL / CHILD) on
  * the exhaustive header space of the property's quantifier (5 versions x commands -1..5 x
    sub-types -1..max+2 x 6 node-id classes x 6 child-id classes x 4 ack values), each with a
    payload the sub-type's rule accepts and one it rejects (thorough: everything; quick: every
    one-axis deviation from a good header plus a seeded 10 % sample of the full product);
  * every defined (version, command, sub-type) crossed with a boundary-value payload corpus
    chosen by rule class;
  * every presentation type crossed with child-value dictionaries.
Oracle: `spec/serial_api.json` evaluated by `spec_accepts` below (plain Python, no voluptuous)
judges every real outcome; any exception other than vol.Invalid is an internal error.
"""
import json
import multiprocessing
import os
import random
import re
from decimal import Decimal, getcontext
from fractions import Fraction

from . import common
from .common import Result, digest, enc_str

THEOREMS = [
    "MySensors.C03.tables_eq_spec", "MySensors.C03.payload_lookup_eq_spec",
    "MySensors.C03.defined_iff_spec", "MySensors.C03.header_iff", "MySensors.C03.rule_semantics",
    "MySensors.C03.rule_percent", "MySensors.C03.rule_binary", "MySensors.C03.rule_rgb",
    "MySensors.C03.rule_rgbw", "MySensors.C03.rule_gps", "MySensors.C03.rule_int",
    "MySensors.C03.rule_empty", "MySensors.C03.rule_enum", "MySensors.C03.rule_version",
    "MySensors.C03.rule_text_or", "MySensors.C03.rule_percent_float",
    "MySensors.C03.rule_version_numeric", "MySensors.C03.monotone", "MySensors.C03.total_rules",
    "MySensors.C03.validate_iff",
]
ASSUMPTIONS = [
    "voluptuous 0.14 combinators All/Any/In/Coerce/Range/Schema(Object) behave as the Lean rule "
    "interpreter evalV (accept / reject only); sampled here on every table row with the boundary corpus",
    "CPython int()/float() accept exactly what Py/Int.lean and Py/Float.lean accept, and a float "
    "range test equals the exact-rational interval with half-ulp thresholds (sampled at the ties)",
    "awesomeversion 24.6.0 is modelled only on [vV]?d+(.d+)* strings (any Unicode decimal digits, "
    "sections within the int digit limit) and the four container words; other strings the library "
    "understands (hex, SemVer modifiers, CalVer tags) are treated as rejected by the model and "
    "only checked for absence of internal errors",
    "spec/serial_api.json is a reviewed snapshot of the serial API (its independence is that of a "
    "second reading, not of a second source)",
]
TRUSTED = ["tools/gen_spec.py (JSON -> Lean syntax, ~100 lines)"]

VERSIONS = ["1.4", "1.5", "2.0", "2.1", "2.2"]
IDS = [-1, 0, 1, 254, 255, 256]
ACKS = [-1, 0, 1, 2]
SPEC_PATH = os.path.join(common.VERIF, "spec", "serial_api.json")


def load_spec():
    with open(SPEC_PATH, encoding="utf-8") as fh:
        return json.load(fh)


# ----------------------------------------------------------------------------------------
# the oracle: a direct evaluator of the reference (no voluptuous, no awesomeversion)

HEX = set("0123456789abcdefABCDEF")
VERSION_RE = re.compile(r"[vV]?(\d+(?:\.\d+)*)\.?")
CONTAINER_WORDS = {"latest", "dev", "stable", "beta"}
SEMVER_RE = re.compile(r"[vV]?(0|[1-9][0-9]*)\.(0|[1-9][0-9]*)\.(0|[1-9][0-9]*)"
                       r"(?:-((?:[0-9A-Za-z-]+)(?:\.[0-9A-Za-z-]+)*))?(?:\+([0-9A-Za-z-]+(?:\.[0-9A-Za-z-]+)*))?")


def _int(p):
    try:
        return int(p)
    except ValueError:
        return None


def _float(p):
    try:
        return float(p)
    except ValueError:
        return None


def version_verdict(p):
    """True / False, or None when the string is outside the numeric version grammar and
    contains something a version library may legitimately understand (unjudged)."""
    s = p.strip()
    m = VERSION_RE.fullmatch(s)
    if m:
        parts = m.group(1).split(".")
        if any(len(x) > 4300 for x in parts):
            return None
        secs = [int(x) for x in parts]
        while len(secs) < 2:
            secs.append(0)
        return tuple(secs) >= (1, 4)
    if s in CONTAINER_WORDS:
        return None
    if not any(ch.isdigit() for ch in s):
        return False
    # strict semantic versioning: MAJOR.MINOR.PATCH with a pre-release and / or build tag; a pre-release
    # of x.y.z sorts before x.y.z, build metadata does not take part in the ordering
    m = SEMVER_RE.fullmatch(s)
    if m:
        core = tuple(int(x) for x in m.group(1, 2, 3))
        if any(len(x) > 4300 for x in m.group(1, 2, 3)):
            return None
        return core > (1, 4, 0) or (core == (1, 4, 0) and m.group(4) is None)
    # nothing any versioning scheme writes: a character outside letters, digits, '.', '+', '-'; an empty
    # dot-separated section; a leading sign; a dangling '-' or '+'
    if (any(not (ch.isascii() and (ch.isalnum() or ch in ".+-")) for ch in s)
            or s[0] in "+-." or s[-1] in "+-" or ".." in s or s.endswith("..")):
        return False
    return None


def version_modelled(p):
    """is the string inside the domain the Lean version rule models (numeric sections, or no digit at all)?"""
    s = p.strip()
    return bool(VERSION_RE.fullmatch(s)) or (s not in CONTAINER_WORDS and not any(ch.isdigit() for ch in s))


def rule_accepts(rule, p):
    """Does payload p satisfy the rule class?  None = unjudged."""
    if rule == "text" or rule.startswith("text_or:"):
        return True
    if rule == "empty":
        return p == ""
    if rule == "binary":
        return p in ("0", "1")
    if rule.startswith("enum:"):
        return p in rule[5:].split("|")
    if rule in ("percent_int", "node_id_1_254", "node_id_0_254", "int"):
        n = _int(p)
        lo, hi = {"percent_int": (0, 100), "node_id_1_254": (1, 254), "node_id_0_254": (0, 254),
                  "int": (None, None)}[rule]
        return n is not None and (lo is None or lo <= n <= hi)
    if rule in ("percent_float", "unit_float"):
        x = _float(p)
        lo, hi = (0.0, 100.0) if rule == "percent_float" else (-1.0, 1.0)
        return x is not None and x == x and lo <= x <= hi
    if rule == "config":
        n = _int(p)
        return p in ("M", "I") or (n is not None and 0 <= n <= 254)
    if rule == "time":
        return p == "" or _int(p) is not None
    if rule in ("rgb", "rgbw"):
        return len(p) == (6 if rule == "rgb" else 8) and all(ch in HEX for ch in p)
    if rule == "gps":
        parts = p.split(",")
        return len(parts) == 3 and all(_float(x) is not None for x in parts)
    if rule == "version":
        return version_verdict(p)
    raise ValueError(f"unknown rule class {rule}")


def spec_rule(spec, ver, t, s):
    cm = spec["versions"][ver]["commands"].get(str(t))
    if cm is None:
        return None
    row = cm["sub_types"].get(str(s))
    return None if row is None else row["rule"]


def spec_accepts(spec, ver, n, c, t, a, s, p):
    """The property's 'accepted exactly when', from the reference alone.  None = unjudged."""
    h = spec["header"]
    rule = spec_rule(spec, ver, t, s)
    if rule is None:                                   # command or sub-type not defined
        return False
    if not h["node_id"][0] <= n <= h["node_id"][1] or a not in h["ack"]:
        return False
    sysc = h["system_child_id"]
    if t == 3 and s in h["any_child_internal_sub_types"]:
        pass                                           # id request / response: any child id
    elif t in h["system_child_required"]:
        if c != sysc:
            return False
    elif not h["child_id"][0] <= c <= h["child_id"][1] or (c == sysc and t not in h["system_child_commands"]):
        return False
    return rule_accepts(rule, p)


def spec_child_accepts(spec, ver, ptype, values):
    v = spec["versions"][ver]
    vt = v["valid_types"]
    if str(ptype) not in vt or str(ptype) not in v["commands"]["0"]["sub_types"]:
        return None                                    # not a presentation type: unjudged
    allowed = set(vt["23"]) | set(vt[str(ptype)])      # S_CUSTOM = 23
    verdict = True
    for k, p in values:
        if k not in allowed:
            return False
        r = rule_accepts(spec_rule(spec, ver, 1, k), p)
        if r is False:
            return False
        if r is None:
            verdict = None
    return verdict


# ----------------------------------------------------------------------------------------
# payload corpora

def _exact_decimal(q):
    getcontext().prec = 1200
    return format(Decimal(q.numerator) / Decimal(q.denominator), "f")


def float_corpus(lo, hi):
    import math
    out = ["0", "-0", "+0", "0.0", "-0.0", "1e2", "1E2", "1_0", "1_0.0", "1__0", "_1", "1_", "٥٠", "٥٠.٥",
           "nan", "NaN", "-nan", "inf", "-inf", "infinity", "+Infinity", "1e400", "-1e400", "1e-400",
           "-1e-400", "-1e-320", ".5", "5.", ".", "", " 50 ", "\t0.5\n", "0x10", "1e", "e1", "1e+", "50,0",
           "50.5.5", "abc", "1 0", "--1", "+-1", "1e1_0", "1.e1", "0" * 500 + "1", "1e-5000", "1e5000",
           "0." + "0" * 400 + "1", "-0." + "0" * 400 + "1", "９９", "1\x000"]
    for b in (lo, hi):
        f = float(b)
        for g in (math.nextafter(f, -math.inf), f, math.nextafter(f, math.inf)):
            out.append(repr(g))
        for nb in (math.nextafter(f, -math.inf), math.nextafter(f, math.inf)):
            if f == 0.0 and nb < 0:
                tie = Fraction(nb) / 2
            else:
                tie = (Fraction(f) + Fraction(nb)) / 2
            eps = abs(tie) / 10 ** 25 if tie != 0 else Fraction(1, 10 ** 1200)
            for q in (tie - eps, tie, tie + eps):
                out.append(_exact_decimal(q))
        out += [str(int(b) - 1), str(int(b)), str(int(b) + 1), f"{b}.00000000000000001",
                f"{b}.0000000000001", f"{int(b)}.5"]
    return out


def int_corpus(lo, hi):
    out = ["-0", "+0", "00", "0", "1e2", "1_0", "1__0", "_1", "1_", "١٠", "١٠٠", "1.0", " 5 ", "\t5\n", "\x1c5",
           "5\x1f", "\x855", "\xa05", " 5", "", " ", "+", "-", "+-1", "- 1", "1 2", "0x10", "²", "٣_٣", "1\x002",
           "0" * 4300, "0" * 4301, "1" * 4300, "1" * 4301, "0" * 4299 + "5_0", "abc", "nan", "inf", "５"]
    for b in (lo, hi):
        if b is not None:
            out += [str(b - 1), str(b), str(b + 1), f" {b} ", f"+{b}", f"0{b}", f"{b}.0", f"{b}e0"]
    return out


HEX_CORPUS = ["ff  ff", "ab cd ", "ff ff ff", "00 ff\tff", "  ffff", "ff 88 00", "ff\x0bff", "f f f ", "ff00aa", "FF00AA", "Ff00aA", "000000", "ff00a", "ff00aag", "gg00aa", "ff00a ", " f00aa", "ff 0aa",
              "ｆｆ００ａａ", "٠٠٠٠٠٠", "٠٠٠٠٠٠٠٠", "", "f", "ff00aa00", "FF00AA00", "ff00aa0", "ff00aa000", "ff00aa0g",
              "0x00aa", "0x00aa00", "ff-0aa", "ff\n0aa", "ff00aa\n", "ÿÿÿÿÿÿ", "ff00aaff00", "12345", "1234567"]
GPS_CORPUS = ["1,2,3", "1,2", "1,2,3,4", "55.722526,13.017972,18", " 1 , 2 , 3 ", "1,,3", ",,", ",", "",
              "inf,nan,1", "-inf,1e5,-0", "1;2;3", "a,b,c", "1e400,0,0", "١,٢,٣", "1_0,2,3", "1,2,3,", ",1,2,3",
              "1,2,3 ", "1.5,2.5,x", "1 2,3,4", "1,2 ,\t3", "0x1,2,3", "1,2,3\n", "１,２,３", "1e,2,3", ".,2,3"]
VERSION_CORPUS = ["1.3", "1.4", "1.4.0", "01.4", "2", "2.0.0", "v1.5", "1.4.", "abc", "", " 1.4 ", "V2.0",
                  "v.1.4", "latest", "dev", "stable", "beta", "Latest", "1.4.0.0", "1.3.9", "1.3.99", "0.9",
                  "10.0", "1.10", "1.04", "١.٤", "١.٣", "2.0.0-beta", "2.2.0-rc.1", "0x10", "1..4", ".", "1.",
                  ".1", "1,4", "1.4a", "1.4 5", "1", "0", "1.4\n", "\t2.2", "vv1.4", "v", "1.4.-1", "-1.4",
                  "+1.4", "1_0.0", "1.4..", "2.2.0", "2.3.2", "1.5.1", "22.4", "2024.1.1", "1." + "4" * 4300,
                  "1." + "4" * 4301, "2." + "4" * 4301, "0." + "4" * 4301, "3", "1.٤", "v1.3", "None", "2.0b1",
                  # semantic versions with pre-release / build tags around 1.4.0
                  "1.4.0-beta", "1.4.0-alpha.1", "1.4.0-0", "1.4.0-rc.1", "1.4.0+build5", "1.4.0-beta+exp.sha",
                  "1.3.99-rc.1", "1.3.0-beta", "1.4.1-beta", "1.5.0-rc.2", "2.4.0-alpha", "2.0.0-beta.2",
                  "2.3.2-SNAPSHOT", "0.9.9+x", "v2.0.0-beta", "10.0.0-pre",
                  # not versions in any scheme, with a numeric start that is not below 1.4
                  "2,0", "2.0 beta", "2.0/1", "1.4:0", "2.0.0-", "2.0.0+", "2..0", "1.4...", "2.0_1", "2.0.0-beta!",
                  "2.x,1", "1.4.é", "2.0\t1", "2.0.0-β",
                  # unjudged: other schemes and near-versions (robustness and model correspondence only)
                  "2.0-beta", "1.4.x", "2.x", "1.4rc1", "2.0.dev1", "1.4-1", "1.4.0.dev0", "x2.0"]
CONFIG_CORPUS = ["M", "I", "m", "i", "MI", " M", "M ", "", "0", "254", "255", "-1", "+254", "0254", "254.0"]
TIME_CORPUS = ["", "0", "1700000000", "-1", "x", " ", " 5 ", "1.5", "1e9", "١٢٣"]
GENERIC = ["", "0", "1", "x", " ", "10", "100", "101", "-1", "0.5", "ff00aa", "ff00aa00", "1,2,3", "1.4", "2.2.0",
           "M", "Off", "Min", "stable", "hello world", "é漢\U0001F600", "1;2", "a\nb", "nan", "1_0", "١"]


def enum_corpus(words):
    out = list(words) + [w.lower() for w in words] + [w.upper() for w in words] + [w + " " for w in words]
    out += [" " + words[0], words[0] + words[-1], words[0][:-1], "", "0", "1", "|".join(words)]
    return out


def class_corpus(rule):
    if rule in ("text", "empty") or rule.startswith("text_or:"):
        extra = rule[8:].split("|") if rule.startswith("text_or:") else []
        return GENERIC + extra
    if rule == "binary":
        return GENERIC + enum_corpus(["0", "1"]) + ["2", "00", "01", "+1", "1.0", "true", "١"]
    if rule.startswith("enum:"):
        return GENERIC + enum_corpus(rule[5:].split("|"))
    if rule == "percent_int":
        return GENERIC + int_corpus(0, 100)
    if rule == "node_id_1_254":
        return GENERIC + int_corpus(1, 254)
    if rule == "node_id_0_254":
        return GENERIC + int_corpus(0, 254)
    if rule == "int":
        return GENERIC + int_corpus(None, None) + ["-5", "99999999999999999999", "-99999999999999999999"]
    if rule == "percent_float":
        return GENERIC + float_corpus(0, 100) + int_corpus(0, 100)[:20]
    if rule == "unit_float":
        return GENERIC + float_corpus(-1, 1)
    if rule == "config":
        return GENERIC + CONFIG_CORPUS + int_corpus(0, 254)
    if rule == "time":
        return GENERIC + TIME_CORPUS + int_corpus(None, None)[:25]
    if rule in ("rgb", "rgbw"):
        return GENERIC + HEX_CORPUS
    if rule == "gps":
        return GENERIC + GPS_CORPUS
    if rule == "version":
        return GENERIC + VERSION_CORPUS
    raise ValueError(rule)


GOOD = {"text": "x", "empty": "", "binary": "1", "percent_int": "100", "percent_float": "99.5",
        "unit_float": "-0.5", "int": "-7", "node_id_1_254": "254", "node_id_0_254": "0", "config": "M",
        "time": "1700000000", "rgb": "ff00aa", "rgbw": "ff00aa11", "gps": "55.7,13.0,18", "version": "2.2.0"}
BAD = {"text": "", "empty": "x", "binary": "2", "percent_int": "101", "percent_float": "100.5",
       "unit_float": "1.5", "int": "1.5", "node_id_1_254": "0", "node_id_0_254": "255", "config": "255",
       "time": "x", "rgb": "ff00a", "rgbw": "ff00aa1g", "gps": "55.7,13.0", "version": "1.3"}


def good_bad(rule):
    """(accepted payload, rejected payload — or a second accepted one for total classes)"""
    if rule is None:
        return "", "x"           # undefined sub-type: the code falls back to the rule ""
    if rule.startswith("text_or:"):
        return rule[8:].split("|")[0], "anything"
    if rule.startswith("enum:"):
        w = rule[5:].split("|")
        return w[-1], w[0].lower()
    return GOOD[rule], BAD[rule]


def good_child(t, s):
    if t in (3, 4):
        return 255
    return 1


# ----------------------------------------------------------------------------------------
# case generation

def sub_range(spec, ver, t):
    cm = spec["versions"][ver]["commands"].get(str(t))
    mx = max(int(s) for s in cm["sub_types"]) if cm else 0
    return range(-1, mx + 3)


def header_cases(spec, tier, rng):
    """('L', ver, n, c, t, a, s, payload) — the quantifier's header space."""
    boundary, rest = [], []
    for ver in VERSIONS:
        for t in range(-1, 6):
            for s in sub_range(spec, ver, t):
                rule = spec_rule(spec, ver, t, s)
                g, b = good_bad(rule)
                gc = good_child(t, s)
                for n in IDS:
                    for c in IDS:
                        for a in ACKS:
                            deviations = (n != 1) + (c != gc) + (a != 0)
                            for p in (g, b):
                                case = ("L", ver, n, c, t, a, s, p)
                                (boundary if deviations <= 1 else rest).append(case)
    total = len(boundary) + len(rest)
    if tier == "quick":
        rest = rng.sample(rest, len(rest) // 10)
    return boundary + rest, total


def corpus_cases(spec):
    """('K', ver, n, c, t, a, s, payload) — every defined sub-type x its class's corpus, built
    with keyword arguments so that the payload reaches validate() untouched."""
    out = []
    for ver in VERSIONS:
        for t in range(0, 5):
            cm = spec["versions"][ver]["commands"][str(t)]
            for s_txt, row in cm["sub_types"].items():
                s = int(s_txt)
                for p in dict.fromkeys(class_corpus(row["rule"])):
                    out.append(("K", ver, 1, good_child(t, s), t, 0, s, p))
            # one undefined sub-type per command with a small corpus (default rule "")
            for p in GENERIC[:8]:
                out.append(("K", ver, 1, good_child(t, 0), t, 0, max(map(int, cm["sub_types"])) + 1, p))
    return out


def child_cases(spec, tier, rng):
    """('C', ver, ptype, ((valueType, payload), ...))"""
    out = []
    for ver in VERSIONS:
        v = spec["versions"][ver]
        pres = sorted(int(p) for p in v["commands"]["0"]["sub_types"])
        setreq = sorted(int(s) for s in v["commands"]["1"]["sub_types"])
        for ptype in pres + [pres[-1] + 1, -1, 99]:
            allowed = list(dict.fromkeys(v["valid_types"].get("23", []) + v["valid_types"].get(str(ptype), [])))
            out.append(("C", ver, ptype, ()))
            goods = []
            for k in allowed:
                g, b = good_bad(spec_rule(spec, ver, 1, k))
                goods.append((k, g))
                out.append(("C", ver, ptype, ((k, g),)))
                out.append(("C", ver, ptype, ((k, b),)))
            out.append(("C", ver, ptype, tuple(goods)))
            if goods:
                k0, _ = goods[0]
                out.append(("C", ver, ptype, tuple(goods[1:]) + ((k0, good_bad(spec_rule(spec, ver, 1, k0))[1]),)))
            others = [k for k in setreq if k not in allowed]
            picks = others if tier == "thorough" else rng.sample(others, min(4, len(others)))
            for k in picks + [setreq[-1] + 1, -1]:
                g, _ = good_bad(spec_rule(spec, ver, 1, k))
                out.append(("C", ver, ptype, ((k, g),)))
                out.append(("C", ver, ptype, tuple(goods[:1]) + ((k, g),)))
            # every value type the version defines but this child type does not carry, alone, in both tiers (a
            # table entry that leaked in from another version shows up here and nowhere else)
            for k in others:
                if k not in picks:
                    out.append(("C", ver, ptype, ((k, good_bad(spec_rule(spec, ver, 1, k))[0]),)))
            # … and the value types only LATER versions define (what a leak from a later table would add)
            later = sorted({int(x) for v2 in VERSIONS for x in spec["versions"][v2]["commands"]["1"]["sub_types"]} - set(setreq))
            for k in later:
                out.append(("C", ver, ptype, ((k, "1"),)))
            # boundary corpus through the child schema for the non-trivial value types
            for k in allowed:
                rule = spec_rule(spec, ver, 1, k)
                if rule not in ("text", "empty") and tier == "thorough":
                    for p in dict.fromkeys(class_corpus(rule)):
                        out.append(("C", ver, ptype, ((k, p),)))
    return out


# ----------------------------------------------------------------------------------------
# running the real code (worker processes)

def real_outcome(case):
    import voluptuous as vol
    from mysensors.message import Message
    from mysensors.sensor import ChildSensor
    try:
        if case[0] == "L":
            _, ver, n, c, t, a, s, p = case
            Message(f"{n};{c};{t};{a};{s};{p}\n").validate(ver)
        elif case[0] == "K":
            _, ver, n, c, t, a, s, p = case
            Message(node_id=n, child_id=c, type=t, ack=a, sub_type=s, payload=p).validate(ver)
        else:
            _, ver, ptype, values = case
            ChildSensor(0, ptype).validate(ver, dict(values))
        return "ok"
    except vol.Invalid:
        return "invalid"
    except Exception as exc:  # noqa: BLE001 — anything else is an internal error
        return "internal:" + type(exc).__name__


def logic_effect(case):
    """observe_at 2: does `Gateway(protocol_version=v).logic(line)` have any effect?  Returns
    'reply' / 'state' / 'none' / 'raised:<Exc>' for an L-case on a fresh gateway."""
    import mysensors.mysensors as my
    _, ver, n, c, t, a, s, p = case
    try:
        gw = my.SerialGateway("/dev/ttyFAKE", protocol_version=ver)      # no I/O before start()
        seen = []
        gw.event_callback = seen.append
        reply = gw.logic(f"{n};{c};{t};{a};{s};{p}\n")
        if reply is not None:
            return "reply"
        return "state" if (gw.sensors or seen or len(gw.tasks.queue)) else "none"
    except Exception as exc:  # noqa: BLE001
        return "raised:" + type(exc).__name__


def _work(chunk):
    import logging
    logging.disable(logging.CRITICAL)
    return [real_outcome(c) for c in chunk]


def preload_all_versions():
    """a process that has used every protocol version (a 2.2 gateway with a 1.5 node has): validation for one
    version must not depend on which other versions' tables were built before"""
    from mysensors.const import get_const
    for ver in VERSIONS:
        get_const(ver)


def _work_preloaded(chunk):
    import logging
    logging.disable(logging.CRITICAL)
    preload_all_versions()
    return [real_outcome(c) for c in chunk]


def run_real(cases, preloaded=False):
    if preloaded:
        # always in fresh worker processes, so that the parent's imports do not decide the outcome
        ctx = multiprocessing.get_context("fork")
        size = max(200, len(cases) // 32 + 1)
        chunks = [cases[i:i + size] for i in range(0, len(cases), size)]
        with ctx.Pool(max(1, min(16, (os.cpu_count() or 2)))) as pool:
            res = pool.map(_work_preloaded, chunks)
        return [o for ch in res for o in ch]
    procs = max(1, min(16, (os.cpu_count() or 2)))
    size = max(200, len(cases) // (procs * 8) + 1)
    chunks = [cases[i:i + size] for i in range(0, len(cases), size)]
    if procs == 1 or len(cases) < 2000:
        return [o for ch in chunks for o in _work(ch)]
    ctx = multiprocessing.get_context("fork")
    with ctx.Pool(procs) as pool:
        res = pool.map(_work, chunks)
    return [o for ch in res for o in ch]


def model_line(case):
    if case[0] in ("L", "K"):
        _, ver, n, c, t, a, s, p = case
        return f"VAL {ver} {n} {c} {t} {a} {s} {enc_str(p)}"
    _, ver, ptype, values = case
    return f"CHILD {ver} {ptype}" + "".join(f" {k}={enc_str(p)}" for k, p in values)


def oracle_verdict(spec, case):
    if case[0] in ("L", "K"):
        _, ver, n, c, t, a, s, p = case
        return spec_accepts(spec, ver, n, c, t, a, s, p)
    _, ver, ptype, values = case
    return spec_child_accepts(spec, ver, ptype, values)


def case_json(case):
    return [list(x) if isinstance(x, tuple) else x for x in case]


def judge(spec, case, real):
    """None, or an oracle failure dict."""
    want = oracle_verdict(spec, case)
    if real.startswith("internal"):
        if case[0] == "C" and want is None and real == "internal:KeyError":
            return None                      # not a presentation type: KeyError is the documented outcome
        kind = "internal-error"
    elif want is None or (real == "ok") == want:
        return None
    else:
        kind = "accepts-invalid" if real == "ok" else "rejects-valid"
    if case[0] == "C":
        key = {"kind": kind, "where": "child-schema"}
    else:
        rule = spec_rule(spec, case[1], case[4], case[6])
        key = {"kind": kind, "where": "message", "rule": rule or "undefined"}
    return {"key": key, "what": f"{kind}: real={real} reference={want} on {case!r}"[:400],
            "replay": {"case": case_json(case)}}


# ----------------------------------------------------------------------------------------

def run(tier, seed, driver):
    res = Result()
    rng = random.Random(seed * 7919 + 3)
    spec = load_spec()
    hdr, hdr_total = header_cases(spec, tier, rng)
    corp = corpus_cases(spec)
    child = child_cases(spec, tier, rng)
    cases = hdr + corp + child
    real = run_real(cases)
    res.evaluations = len(cases)
    res.exhaustive = tier == "thorough"
    res.rule = ("header space: 5 versions x commands -1..5 x sub-types -1..max+2 x node/child in "
                "{-1,0,1,254,255,256} x ack in {-1,0,1,2}, each with one accepted and one rejected payload "
                f"({'all ' + str(hdr_total) if tier == 'thorough' else 'every <=1-axis deviation + seeded 10% of ' + str(hdr_total)}); "
                "every defined (version, command, sub-type) x the boundary corpus of its rule class; "
                "every presentation type x child-value dictionaries.  non-trivial = accepted by the real code; "
                "distinct by (version, header, payload)")
    res.extra["header_space_total"] = hdr_total
    res.extra["header_cases_run"] = len(hdr)
    res.extra["corpus_cases"] = len(corp)
    res.extra["child_cases"] = len(child)
    if driver is not None:
        try:
            model = driver.run([model_line(c) for c in cases])
        except Exception as exc:  # noqa: BLE001
            res.corr_diffs.append({"name": "validate-driver", "case": "driver", "model": str(exc), "impl": ""})
            model = None
        if model is not None:
            for c, m, r in zip(cases, model, real):
                r_model = "internal" if r.startswith("internal") else r
                if m != r_model:
                    # outside the modelled version domain the model says "rejected"; the real
                    # library may know the string — only robustness is compared there
                    if c[0] != "C" and not r.startswith("internal") and (
                            oracle_verdict(spec, c) is None
                            or (spec_rule(spec, c[1], c[4], c[6]) == "version" and not version_modelled(c[7]))):
                        res.count("unmodelled-version-string")
                        continue
                    res.corr_diffs.append({"name": "validate" if c[0] != "C" else "child-validate",
                                           "case": case_json(c), "model": m, "impl": r})
                    if len(res.corr_diffs) > 20:
                        break
            res.traces_validated = len(cases)
    for c, r in zip(cases, real):
        kind = {"L": "header", "K": "corpus", "C": "child"}[c[0]]
        res.count(f"{kind}:{r.split(':')[0]}")
        if c[0] == "K":
            res.count(f"class:{(spec_rule(spec, c[1], c[4], c[6]) or 'undefined').split(':')[0]}:{r.split(':')[0]}")
        if r == "ok":
            res.distinct.add(digest(c))
        f = judge(spec, c, r)
        if f:
            res.oracle_failures.append(f)
    # the same corpus and child cases in processes that have already built the tables of all five versions
    again = corp + child
    real2 = run_real(again, preloaded=True)
    res.evaluations += len(again)
    res.count("preloaded-all-versions", len(again))
    for c, r in zip(again, real2):
        f = judge(spec, c, r)
        if f:
            f["key"]["preloaded"] = True
            f["what"] = "after the tables of all versions were built in the process: " + f["what"]
            f["replay"]["preload_all_versions"] = True
            res.oracle_failures.append(f)
    # observe_at 2: a rejected line has no effect on a gateway of that version
    n_eff = 600 if tier == "quick" else 12000
    idx = rng.sample(range(len(hdr)), min(n_eff, len(hdr)))
    for i in idx:
        eff = logic_effect(hdr[i])
        res.evaluations += 1
        res.count(f"logic:{real[i]}:{eff.split(':')[0]}")
        if real[i] == "invalid" and eff != "none":
            res.oracle_failures.append({"key": {"kind": "rejected-line-has-effect", "effect": eff},
                                        "what": f"validate rejects {hdr[i]!r} but logic() has effect {eff}",
                                        "replay": {"case": case_json(hdr[i]), "logic": True}})
    for i in (0, len(hdr) - 1, len(hdr) + 5, len(hdr) + len(corp) // 2, len(cases) - 3):
        res.sample({"case": case_json(cases[i])[:8], "impl": real[i], "reference": oracle_verdict(spec, cases[i])})
    return res


def replay(payload):
    r = payload.get("replay", {})
    print(json.dumps(payload, default=str)[:2000])
    case = r.get("case")
    if not case:
        return 0
    case = tuple(tuple(tuple(y) for y in x) if isinstance(x, list) else x for x in case)
    spec = load_spec()
    if r.get("preload_all_versions"):
        preload_all_versions()
    real = real_outcome(case)
    print("impl:", real, " reference:", oracle_verdict(spec, case))
    try:
        print("model:", common.Driver().run([model_line(case)]))
    except Exception as exc:  # noqa: BLE001
        print("model: driver unavailable:", exc)
    f = judge(spec, case, real)
    if r.get("logic") and case[0] == "L":
        eff = logic_effect(case)
        print("logic effect:", eff)
        if real == "invalid" and eff != "none":
            f = f or {"what": f"rejected line has effect {eff}"}
    print("oracle:", "FAIL " + f["what"] if f else "pass")
    return 1 if f else 0
