"""C04 — network state mirrors what the nodes reported; callbacks are exact.

Four comparisons per history (the first two are the shared gateway-family body, gwfam):
  1. oracle (gw_spec.judge) on the real code: tree-differs / callbacks-differ / callback-before-state
  2. Lean gateway model vs real code through the C04 projection (tree after each op, callbacks)
  3. Lean *specification* (`SPEC` driver command = specOp / specNotifies of Model/SpecTree.lean)
     vs the real gateway's tree and callback count after each op
  4. a second real run with a raising event callback: every observation must be identical
  5. instrumented Lean model (`CBT` = tstep of Model/GatewayTraced.lean): the tree recorded at each callback
     vs the tree the real callback reads from inside
"""
import itertools
import json
import multiprocessing
import os
import re

from . import common, gw, gw_spec, gwfam
from .common import digest, enc_str

THEOREMS = [
    "MySensors.C04.refines_step", "MySensors.C04.callbacks_exact", "MySensors.C04.rejected_noop",
    "MySensors.C04.controller_calls_keep_tree", "MySensors.C04.callbacks_only_for_lines",
    "MySensors.C04.save_restart_tree", "MySensors.C04.nodes_appear_only", "MySensors.C04.set_stores_last",
    "MySensors.C04.child_first_presentation_wins", "MySensors.C04.unknown_node_noop",
    "MySensors.C04.fallbacks", "MySensors.C04.refines_run", "MySensors.C04.callbacks_run",
    "MySensors.C04.refines_run_new", "MySensors.C04.traced_erases", "MySensors.C04.callback_after_state",
    "MySensors.C04.callback_sees_spec", "MySensors.C04.alert_keeps_tree",
]
ASSUMPTIONS = [
    "Model/Gateway.lean mirrors __init__.py / handler.py / sensor.py (sampled by the correspondence through the "
    "C04 projection: tree after every op and callback argument list)",
    "Model/SpecTree.lean is the intended protocol meaning (itself run against the real gateway: SPEC command)",
    "side condition of the per-line theorems: the smart-sleep burst of the 2.0/2.1 heartbeat response and the "
    "reply construction of firmware requests do not raise (C01); every other message needs none",
    "persistence abstracted as in C14 (file = persisted projection of the last successful save)",
    "'the state seen inside the callback already reflects the message' is a theorem about the instrumented "
    "handlers of Model/GatewayTraced.lean (alert also records the tree of its argument); erasing the "
    "instrumentation is proved to give the model; its recorded trees are compared with the tree the real "
    "callback reads from inside (CBT command) and the oracle callback-before-state judges the real code directly",
    "'a callback that raises changes nothing else' is not a theorem (the model has no data flow from the "
    "callback back into the gateway): it is decided on the real code by rerunning every history with a raising "
    "callback and demanding identical observations",
]

def ota_session(rng, version, hist):
    """a scripted firmware update (update call, config and block requests) in a third of the histories: the callback
    sees the node's requests as they arrived"""
    from .c10 import session_burst
    return session_burst(rng, version, hist) if rng.random() < 0.35 else hist


def boundary_ids(rng, version, hist):
    """nodes at the edges of the id space (0, 253, 254, 255) and an id request after them: nodes appear through
    presentation *and* through id assignment, up to the protocol limit"""
    r = rng.random()
    if r < 0.25:
        hi = rng.choice([0, 252, 253, 253, 254, 255])
        k = rng.randrange(len(hist) + 1)
        while k < len(hist) and hist[k][0] == "R":      # not between a stop and its restart
            k += 1
        hist = hist[:k] + [("L", f"{hi};255;0;0;17;{version}\n"), ("L", "255;255;3;0;3;\n")] + hist[k:]
        if rng.random() < 0.5:
            hist = hist + [("L", "255;255;3;0;3;\n")]
    return hist


CFG = {"quick": 200, "thorough": 5000, "persist": ["none", "none", "json", "pickle"], "lengths": [12, 25, 40],
       "bias": {"pres_node": 1.5, "pres_child": 1.5, "set": 1.3, "internal": 1.5, "idreq": 1.5}, "malformed": 0.2,
       "post": [boundary_ids, ota_session, gw.near_valid_reports]}


_VAL = re.compile(r" st=.*V\(\d")


def relevant(hist, obs):
    """non-trivial: a value is stored in the tree at some point of the history"""
    return any(":V(" in o and _VAL.search(o) for o in obs)


def alphabet(version):
    """~12 lines: node presentation, child presentation x2 (same child, other type: first wins), set x2 (two
    value types: order of first report), req, battery, heartbeat (sketch version before 2.0), sketch name,
    id request, an invalid line, a line from an unknown node."""
    v2 = version >= "2.0"
    return [
        f"1;255;0;0;17;{version}\n", "1;0;0;0;6;a\n", "1;0;0;0;7;b\n", "1;0;1;0;0;20.5\n", "1;0;1;0;1;55\n",
        "1;0;2;0;0;\n", "1;255;3;0;0;77\n", "1;255;3;0;22;123\n" if v2 else "1;255;3;0;12;1.0\n",
        "1;255;3;0;11;sk\n", "255;255;3;0;3;\n", "1;0;1;0;99;x\n", "7;0;1;0;0;1\n",
    ]


def exhaustive_cases(tier):
    depth = 4 if tier == "thorough" else 2
    cases = []
    for version in ("1.4", "2.2"):
        alpha = alphabet(version)
        for n in range(1, depth + 1):
            for combo in itertools.product(range(len(alpha)), repeat=n):
                hist = [("L", alpha[i]) for i in combo]
                cases.append((version, "base", "none", hist, "exh-" + version + "-" + "".join(f"{i:x}" for i in combo)))
    return cases


def spec_wire(version, persist, hist):
    toks = []
    for op in hist:
        if op[0] == "L":
            toks.append(enc_str(op[1]))
        elif op[0] in ("K", "X", "R"):
            toks.append(op[0])
        else:
            toks.append("C")
    return f"SPEC {version} {0 if persist == 'none' else 1} " + " ".join(toks)


def _work(args):
    """One history on the real code: plain run, raising-callback run, optionally the oracle."""
    import logging
    logging.disable(logging.CRITICAL)
    idx, version, kind, persist, hist, full = args
    obs, _ = gw.run_history(hist, version, kind, persist)
    obs_r, _ = gw.run_history(hist, version, kind, persist, raising_cb=True)
    raising_diff = None
    for j, (a, b) in enumerate(zip(obs, obs_r)):
        if a.line() != b.line() or a.tree != b.tree:
            raising_diff = (j, a.line()[:300], b.line()[:300])
            break
    fails = []
    if full:
        fails = [f for f in gw_spec.judge(hist, obs, version, kind, persist) if f["prop"] == "C04"]
    summary = [(o.tree, len(o.cbs), o.exc, o.ret) for o in obs]
    return idx, ([o.line() for o in obs] if full else None), fails, raising_diff, summary


def run_real(cases, full):
    jobs = [(i, c[0], c[1], c[2], c[3], full) for i, c in enumerate(cases)]
    if len(jobs) > 40:
        with multiprocessing.Pool(min(14, os.cpu_count() or 4)) as pool:
            results = pool.map(_work, jobs, chunksize=16)
    else:
        results = [_work(j) for j in jobs]
    results.sort(key=lambda r: r[0])
    return results


def cbt_wire(version, kind, persist, hist):
    return gw.gw_wire(version, kind, persist).replace("G ", "CBT ", 1) + " " + " / ".join(gw.op_wire(o) for o in hist)


def raising_differs(version, kind, persist, hist):
    obs, _ = gw.run_history(hist, version, kind, persist)
    obs_r, _ = gw.run_history(hist, version, kind, persist, raising_cb=True)
    return any(a.line() != b.line() or a.tree != b.tree for a, b in zip(obs, obs_r))


def shrink_raising(version, kind, persist, hist):
    cur = list(hist)
    budget = 80
    i = 0
    while i < len(cur) and budget > 0:
        cand = cur[:i] + cur[i + 1:]
        budget -= 1
        try:
            ok = bool(cand) and raising_differs(version, kind, persist, cand)
        except Exception:  # noqa: BLE001
            ok = False
        if ok:
            cur = cand
        else:
            i += 1
    return cur


def add_failure(res, key, what, replay):
    first = not any(x["key"] == key for x in res.oracle_failures)
    res.oracle_failures.append({"key": key, "what": what[:300], "replay": replay if first else None})


def check_cases(cases, results, driver, res, full):
    """raising-callback equality, spec-vs-impl, and (full) oracle + model-vs-impl for explicit cases."""
    for case, (i, impl_lines, fails, raising_diff, summary) in zip(cases, results):
        version, kind, persist, hist, name = case
        rep = {"version": version, "kind": kind, "persist": persist,
               "hist": [gwfam.encode_op(o) for o in hist], "case": name}
        if raising_diff is not None:
            res.count("oracle:raising-callback-changes-behaviour")
            j, a, b = raising_diff
            key = {"kind": "raising-callback-changes-behaviour"}
            small = hist[: j + 1]
            if not any(x["key"] == key for x in res.oracle_failures):
                small = shrink_raising(version, kind, persist, small)
            add_failure(res, key, f"op {j}: with a raising callback the observation is {b!r}, without {a!r}",
                        dict(rep, hist=[gwfam.encode_op(o) for o in small], raising=True))
        for f in fails:
            res.count("oracle:" + f["key"]["kind"])
            add_failure(res, f["key"], f["what"], dict(rep, hist=rep["hist"][: f["at"] + 1]))
        if full:
            res.evaluations += len(hist)
            res.count("exhaustive-histories")
            if any(n for (_, n, _, _) in summary):
                res.distinct.add(digest([version, kind, persist, [gw.op_wire(o) for o in hist]]))
    if driver is None:
        return
    # --- the specification against the real gateway --------------------------------------------
    lines = [spec_wire(c[0], c[2], c[3]) for c in cases]
    try:
        out = driver.run(lines)
    except Exception as exc:  # noqa: BLE001
        res.corr_diffs.append({"name": "C04-spec-driver", "case": "driver", "model": str(exc)[:300], "impl": ""})
        out = None
    if out is not None:
        ok = 0
        for case, r, line in zip(cases, results, out):
            summary = r[4]
            parts = line.split("|") if line != "-" else []
            bad = None
            if len(parts) != len(summary):
                bad = (0, line[:200], f"{len(summary)} ops")
            else:
                for j, (part, (tree, ncb, exc, _)) in enumerate(zip(parts, summary)):
                    if exc is not None:
                        break                      # an escaped exception is C01's finding; stop comparing here
                    flag, _, stree = part.partition("@")
                    want = 1 if flag == "1" else 0
                    if stree != tree or want != ncb:
                        bad = (j, f"cb={flag} {stree}"[:300], f"cb={ncb} {tree}"[:300])
                        break
            if bad is None:
                ok += 1
            else:
                res.corr_diffs.append({"name": "C04-spec-vs-impl",
                                       "case": {"case": case[4], "version": case[0], "kind": case[1],
                                                "persist": case[2], "op_index": bad[0],
                                                "op": gw.op_wire(case[3][bad[0]])[:200] if case[3] else ""},
                                       "model": bad[1], "impl": bad[2]})
        res.extra["spec_traces_validated"] = res.extra.get("spec_traces_validated", 0) + ok
    # --- trees recorded by the instrumented model at callbacks vs the tree the real callback reads ---
    try:
        out2 = driver.run([cbt_wire(c[0], c[1], c[2], c[3]) for c in cases])
    except Exception as exc:  # noqa: BLE001
        res.corr_diffs.append({"name": "C04-cbt-driver", "case": "driver", "model": str(exc)[:300], "impl": ""})
        out2 = None
    if out2 is not None:
        ok = 0
        for case, r, line in zip(cases, results, out2):
            summary = r[4]
            parts = line.split("|") if case[3] else []
            bad = None
            if len(parts) != len(summary):
                bad = (0, line[:200], f"{len(summary)} ops")
            else:
                for j, (part, (_, _, exc, ret)) in enumerate(zip(parts, summary)):
                    if exc is not None:
                        break
                    if part != ("-" if ret is None else ret):
                        bad = (j, part[:300], str(ret)[:300])
                        break
            if bad is None:
                ok += 1
            else:
                res.corr_diffs.append({"name": "C04-in-callback-tree",
                                       "case": {"case": case[4], "version": case[0], "kind": case[1],
                                                "persist": case[2], "op_index": bad[0]},
                                       "model": bad[1], "impl": bad[2]})
        res.extra["in_callback_traces_validated"] = res.extra.get("in_callback_traces_validated", 0) + ok
    if not full or out is None:
        return
    # --- the gateway model against the real gateway through the C04 projection -----------------
    proj = gwfam.PROJECTIONS["C04"]
    lines, meta = [], []
    for i, c in enumerate(cases):
        lines.append(gw.gw_wire(c[0], c[1], c[2]))
        meta.append((i, -1))
        for j, op in enumerate(c[3]):
            lines.append(gw.op_wire(op))
            meta.append((i, j))
    try:
        model = driver.run(lines)
    except Exception as exc:  # noqa: BLE001
        res.corr_diffs.append({"name": "C04-driver", "case": "driver", "model": str(exc)[:300], "impl": ""})
        return
    bad_hist = set()
    for (i, j), mline in zip(meta, model):
        if j < 0 or i in bad_hist:
            continue
        iline = results[i][1][j]
        mo, io = gwfam.parse_obs(mline), gwfam.parse_obs(iline)
        if mo is None or io is None or proj(mo) != proj(io):
            bad_hist.add(i)
            c = cases[i]
            res.corr_diffs.append({"name": "C04-projection",
                                   "case": {"case": c[4], "version": c[0], "op_index": j,
                                            "op": gw.op_wire(c[3][j])[:200]},
                                   "model": str(proj(mo) if mo else mline)[:300],
                                   "impl": str(proj(io) if io else iline)[:300]})
    res.traces_validated += len(cases) - len(bad_hist)


def run(tier, seed, driver):
    res = gwfam.run_family("C04", tier, seed, driver, CFG, relevant)
    # the same generated histories again: raising callback, and the specification itself
    cases = gwfam.make_cases("C04", tier, seed, CFG)
    check_cases(cases, run_real(cases, full=False), driver, res, full=False)
    # exhaustive short histories over a 12-line alphabet, versions 1.4 and 2.2: all four comparisons
    exh = exhaustive_cases(tier)
    check_cases(exh, run_real(exh, full=True), driver, res, full=True)
    res.exhaustive = True
    res.extra["exhaustive_histories"] = len(exh)
    res.extra["exhaustive_depth"] = 4 if tier == "thorough" else 2
    res.rule = ("(a) state-aware random histories over all versions/kinds, without and with json/pickle persistence "
                "(re-presentation, values before presentation, several nodes interleaved, version-dependent "
                "handlers, malformed lines, controller calls, save/stop/restart); non-trivial = a value is stored "
                "in the tree at some point; (b) every history of length <= depth over a 12-line alphabet for versions 1.4 "
                "and 2.2; non-trivial = at least one callback; every history is also rerun with a raising callback "
                "and replayed through the Lean specification (SPEC); distinct by op script")
    return res


def replay(payload):
    import logging
    logging.disable(logging.CRITICAL)
    r = payload.get("replay") or {}
    if r.get("raising"):
        hist = [gwfam.decode_op(o) for o in r["hist"]]
        obs, _ = gw.run_history(hist, r["version"], r["kind"], r["persist"])
        obs_r, _ = gw.run_history(hist, r["version"], r["kind"], r["persist"], raising_cb=True)
        bad = 0
        for op, a, b in zip(hist, obs, obs_r):
            print("op      :", gw.op_wire(op)[:200])
            print(" plain  :", a.line()[:400])
            print(" raising:", b.line()[:400])
            if a.line() != b.line() or a.tree != b.tree:
                bad = 1
        print(json.dumps({"raising_callback_changes_behaviour": bool(bad)}))
        return bad
    return gwfam.replay_family("C04", payload)
