"""C05 — every reply is the prescribed one, well-formed and correctly addressed."""
import random

from . import common, gwfam, gw
from .c04 import boundary_ids
from .common import digest

THEOREMS = ["MySensors.C05.value_request_reply", "MySensors.C05.unknown_gets_presentation_request",
            "MySensors.C05.requestPresentation_spec", "MySensors.C05.config_reply", "MySensors.C05.time_reply",
            "MySensors.C05.gateway_ready_reply", "MySensors.C05.internal_without_handler_silent",
            "MySensors.C05.set_without_reboot_silent", "MySensors.C05.config_reply_valid",
            "MySensors.C05.time_reply_valid", "MySensors.C05.value_reply_valid",
            "MySensors.C05.emitted_line_canonical", "MySensors.C05.logic_req", "MySensors.C05.logic_set",
            "MySensors.C05.logic_internal", "MySensors.C05.emitted_valid_step", "MySensors.C05.emitInv_step",
            "MySensors.C05.emitted_valid_run", "MySensors.C05.emitInv_fresh"]
ASSUMPTIONS = [
    "emitted_valid_run assumes the invariant EmitInv (stored and desired values satisfy their rule and are "
    "carryable, queued lines are valid) which is proved preserved from a fresh gateway; the oracle additionally "
    "re-decodes and re-validates every string the real gateway emits",
    "controller calls pass node/child ids inside the protocol range and values the wire format can carry "
    "(no ';', no line break, no trailing blank)",
    "the clock fits CPython's integer-to-string limit",
    "Model/Gateway.lean mirrors the handlers (sampled by the correspondence: emitted lines per step, exact text)",
]


def carryable_only(rng, version, hist):
    out = []
    for op in hist:
        if op[0] == "S" and (";" in op[4] or "\n" in op[4] or "\r" in op[4] or (op[4] and op[4][-1].isspace())):
            continue
        out.append(op)
    return out


CFG = {"quick": 300, "thorough": 10000, "lengths": [12, 25, 40], "malformed": 0.12,
       "bias": {"req": 2.5, "internal": 2, "idreq": 2, "clock": 3, "metric": 3, "ctl_set": 1.5},
       "post": [gw.pending_pair_burst, gw.text_echo_burst, boundary_ids, gw.near_valid_reports, carryable_only]}


def relevant(hist, obs):
    return sum(1 for o in obs if not o.startswith("sent=-")) >= 2


def threaded_part(res, rng, tier, episode=None, versions=("2.0", "2.1", "2.2", "1.5")):
    """The same prescribed replies on the threaded gateway (real SyncTasks, jobs queued and run by the real
    poll loop one iteration at a time, queue drained after every line, so no ordering question arises): what
    goes out must be what the asyncio gateway sends for the same lines."""
    from . import c19
    for k in range((25 if tier == "quick" else 400) * common.effort(tier)):
        version = rng.choice(list(versions))
        hist = gw.gen_history(rng, version, rng.choice([10, 20]), persist=False, ota=False, sleep=True, malformed=0.05)
        hist = episode(rng, version, hist) if episode is not None and k % 4 else gw.pending_pair_burst(rng, version, hist)
        hist = [op for op in hist if op[0] in ("L", "S")]
        toks = c19.make_schedule(rng, hist, "drained")
        sync = c19.run_sync(version, toks)
        a_em, a_state, _ = c19.run_async(version, toks)
        res.evaluations += 1
        res.count("threaded-histories")
        s_out, a_out = [x for x, _ in sync.emitted], [x for x, _ in a_em]
        if s_out:
            res.distinct.add(digest(["threaded", s_out]))
        if sorted(s_out) != sorted(a_out):
            import collections
            cs, ca = collections.Counter(s_out), collections.Counter(a_out)
            only_s, only_a = list((cs - ca).elements()), list((ca - cs).elements())
            res.oracle_failures.append({
                "key": {"kind": "threaded-gateway-replies-differ"},
                "what": f"protocol {version}: the threaded gateway sent {only_s[:4]!r} where the asyncio gateway sent "
                        f"{only_a[:4]!r} for the same lines (queue drained after every line)",
                "replay": {"op": "threaded", "version": version, "tokens": c19.toks_json(toks)}})
            if len(res.oracle_failures) > 5:
                break


def run(tier, seed, driver):
    res = gwfam.run_family("C05", tier, seed, driver, CFG, relevant)
    threaded_part(res, random.Random(seed * 7919 + 5), tier)
    res.rule = ("histories over all versions/kinds biased to value requests (with and without stored / desired "
                "values), config / time / id requests, gateway-ready, messages from unknown nodes and children, "
                "clock and metric changes; the oracle recomputes the prescribed reply per step and re-decodes and "
                "re-validates every emitted string; non-trivial = at least two steps emitted something; distinct by op script")
    return res


def replay(payload):
    r = payload.get("replay") or {}
    if r.get("op") == "threaded":
        from . import c19
        toks = c19.toks_from_json(r["tokens"])
        sync = c19.run_sync(r["version"], toks)
        a_em, _, _ = c19.run_async(r["version"], toks)
        s_out, a_out = [x for x, _ in sync.emitted], [x for x, _ in a_em]
        print("threaded:", s_out)
        print("asyncio :", a_out)
        return 1 if sorted(s_out) != sorted(a_out) else 0
    return gwfam.replay_family("C05", payload)
