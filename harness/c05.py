"""C05 — every reply is the prescribed one, well-formed and correctly addressed."""
from . import gwfam, gw

THEOREMS = ["MySensors.C05.value_request_reply", "MySensors.C05.unknown_gets_presentation_request",
            "MySensors.C05.requestPresentation_spec", "MySensors.C05.config_reply", "MySensors.C05.time_reply",
            "MySensors.C05.gateway_ready_reply", "MySensors.C05.internal_without_handler_silent",
            "MySensors.C05.set_without_reboot_silent", "MySensors.C05.config_reply_valid",
            "MySensors.C05.time_reply_valid", "MySensors.C05.value_reply_valid",
            "MySensors.C05.emitted_line_canonical", "MySensors.C05.logic_req", "MySensors.C05.logic_set",
            "MySensors.C05.logic_internal", "MySensors.C05.emitted_valid_step", "MySensors.C05.emitInv_step",
            "MySensors.C05.emitted_valid_run", "MySensors.C05.emitInv_fresh"]
ASSUMPTIONS = [
    "emitted_valid_run assumes the invariant EmitInv (stored and desired values satisfy their rule and are "
    "carryable, queued lines are valid) which is proved preserved from a fresh gateway; the oracle additionally "
    "re-decodes and re-validates every string the real gateway emits",
    "controller calls pass node/child ids inside the protocol range and values the wire format can carry "
    "(no ';', no line break, no trailing blank)",
    "the clock fits CPython's integer-to-string limit",
    "Model/Gateway.lean mirrors the handlers (sampled by the correspondence: emitted lines per step, exact text)",
]


def carryable_only(rng, version, hist):
    out = []
    for op in hist:
        if op[0] == "S" and (";" in op[4] or "\n" in op[4] or "\r" in op[4] or (op[4] and op[4][-1].isspace())):
            continue
        out.append(op)
    return out


CFG = {"quick": 300, "thorough": 10000, "lengths": [12, 25, 40], "malformed": 0.12,
       "bias": {"req": 2.5, "internal": 2, "idreq": 2, "clock": 3, "metric": 3, "ctl_set": 1.5},
       "post": [gw.pending_pair_burst, gw.text_echo_burst, carryable_only]}


def relevant(hist, obs):
    return sum(1 for o in obs if not o.startswith("sent=-")) >= 2


def run(tier, seed, driver):
    res = gwfam.run_family("C05", tier, seed, driver, CFG, relevant)
    res.rule = ("histories over all versions/kinds biased to value requests (with and without stored / desired "
                "values), config / time / id requests, gateway-ready, messages from unknown nodes and children, "
                "clock and metric changes; the oracle recomputes the prescribed reply per step and re-decodes and "
                "re-validates every emitted string; non-trivial = at least two steps emitted something; distinct by op script")
    return res


def replay(payload):
    return gwfam.replay_family("C05", payload)
