"""C06 — node ids are never handed out twice."""
from . import gwfam, stopwin

THEOREMS = ["MySensors.C06.alloc_known", "MySensors.C06.alloc_fresh", "MySensors.C06.alloc_reply",
            "MySensors.C06.no_alloc_no_node", "MySensors.C06.allocs_spec", "MySensors.C06.ids_never_twice",
            "MySensors.C06.ids_never_twice_no_persistence", "MySensors.C06.logic_idRequest",
            "MySensors.C06.mqtt_backlog_not_run", "MySensors.C06.mqtt_stop_window",
            "MySensors.C06.mqtt_drain_after_stop_loses"]
ASSUMPTIONS = [
    "stop() is the model's atomic `stop` step for lines handled before it; the shutdown window itself (lines the "
    "pump handles while stop() runs) is Model/StopOrder.lean: stop()'s own actions are disconnect then final "
    "save, a reply goes out only while connected; tied to the code by recording that order inside the real "
    "stop() of both flavours and by handling real id requests before stop, at the disconnect, at the final save "
    "and after stop (harness/stopwin.py); every generated history also has its last line before a stop handled "
    "at the moment of the disconnect",
    "persistence abstracted as in C14 (file = persisted projection of the last successful save)",
    "Model/Gateway.lean mirrors the id allocator and handlers (sampled by the correspondence)",
]


def many_ids(rng, version, hist):
    """sometimes push the allocator to its upper bound"""
    if rng.random() < 0.15:
        hi = rng.choice([250, 253, 254, 255])
        hist = [("L", f"{hi};255;0;0;17;{version}\n")] + hist
    return hist


def odd_senders(rng, version, hist):
    """id requests whose sender field is not the broadcast address: a node that already has an id (static,
    presented, or handed out earlier) asks for one, or the request carries 0 / any other id"""
    if rng.random() < 0.3:
        known = [int(op[1].split(";")[0]) for op in hist
                 if op[0] == "L" and op[1].split(";")[0].isdigit() and int(op[1].split(";")[0]) < 255]
        for _ in range(rng.randrange(1, 4)):
            who = rng.choice(known) if known and rng.random() < 0.6 else rng.choice([0, 1, 2, 40, 254, rng.randrange(255)])
            k = rng.randrange(len(hist) + 1)
            while k < len(hist) and hist[k][0] == "R":      # not between a stop and its restart
                k += 1
            hist = hist[:k] + [("L", f"{who};255;3;0;3;\n")] + hist[k:]
    return hist


def sleeping_requester(rng, version, hist):
    """a node that is asleep asks for an id (the response waits for its wake-up); a periodic save while it waits,
    the wake-up, a clean stop and restart, another wake-up: the response goes out once"""
    if version in ("1.4", "1.5") or rng.random() > 0.3 or not any(op[0] in ("K", "X", "R") for op in hist):
        return hist                  # (save ticks and restarts only occur in histories of persisting gateways)
    node = rng.choice([1, 2, 7, 42])
    wake = f"{node};255;3;0;{32 if version == '2.2' else 22};{rng.choice([0, 7, 500])}\n"
    script = [("L", f"{node};255;0;0;17;{version}\n"), ("L", f"{node};1;0;0;6;t\n"), ("L", wake),
              ("L", f"{node};255;3;0;3;\n"), ("K",), ("L", wake)]
    if rng.random() < 0.5:
        script.append(("K",))
    script += [("X",), ("R",), ("L", wake), ("L", "255;255;3;0;3;\n")]
    k = rng.randrange(len(hist) + 1)
    while k < len(hist) and hist[k][0] == "R":      # not between a stop and its restart
        k += 1
    return hist[:k] + script + hist[k:]


CFG = {"kinds": ["base", "base", "tcp", "mqtt", "base-nocb", "mqtt-nocb", "base-raisecb", "tcp-raisecb"], "quick": 260, "thorough": 6000, "persist": ["none", "json", "pickle"], "lengths": [10, 20, 35],
       "bias": {"idreq": 8, "save": 2, "restart": 3, "pres_node": 2}, "malformed": 0.1, "post": [many_ids, odd_senders, sleeping_requester]}


def _stop_restart_idreq(version, hist):
    return [("X",), ("R",), ("L", "255;255;3;0;3;\n")]


CFG["search_suffixes"] = [_stop_restart_idreq]


def relevant(hist, obs):
    return sum(1 for o in obs if ";3;0;4;" in "".join(
        chr(int(t)) for s in (o.split(" ")[0][5:].split("|") if o.startswith("sent=") and o[5] != "-" else [])
        for t in s.split(","))) >= 1


ID_RESPONSE = ";255;3;0;4;"


def unpaired_surrogate_part(res):
    """A stored text with unpaired surrogate code points (a client that decoded bytes with surrogateescape hands
    it to the gateway; it is not text the Lean model can hold, so this is judged on the real code only): ids
    handed out after it still reach the file a clean stop leaves, in both formats."""
    import os
    import shutil
    import tempfile
    work = tempfile.mkdtemp(prefix="verif-c06-")
    try:
        for fmt in ("json", "pickle"):
            for flavour in ("sync", "async"):
                path = os.path.join(work, f"sur-{flavour}.{fmt}")
                rep = {"op": "surrogate-text", "fmt": fmt, "flavour": flavour}
                got = surrogate_session(flavour, path)
                res.evaluations += 1
                res.count("unpaired-surrogate-text:" + fmt)
                if isinstance(got, str):
                    res.oracle_failures.append({"key": {"kind": "surrogate-text", "what": "raised"}, "replay": rep,
                                                "what": f"{flavour} gateway, {fmt}: {got}"})
                    continue
                before, after = got
                twice = [i for i in after if i in before]
                if twice or not after:
                    res.oracle_failures.append({
                        "key": {"kind": "surrogate-text", "what": "id-twice" if twice else "no-id"}, "replay": rep,
                        "what": f"{flavour} gateway, {fmt}: ids {before} were handed out (a sketch name with an unpaired "
                                f"surrogate was stored in between), stop(), restart on the same file: the next id "
                                f"requests are answered with {after}"})
    finally:
        shutil.rmtree(work, ignore_errors=True)


def surrogate_session(flavour, path):
    import asyncio

    def ids(conn):
        return [int(w.decode().strip().split(";")[5]) for w in conn.written if ID_RESPONSE in w.decode()]

    def feed(gw, line):
        gw.tasks.transport.send(gw.logic(line))
    gw, conn = stopwin.make(flavour, path)
    try:
        feed(gw, stopwin.ID_REQUEST)
        feed(gw, "1;255;0;0;17;2.2\n")
        feed(gw, "1;255;3;0;11;K\udcfcche\n")
        feed(gw, stopwin.ID_REQUEST)
        try:
            gw.tasks.persistence.save_sensors()           # a periodic save (its failure is logged, not raised)
        except Exception:  # noqa: BLE001
            pass
        feed(gw, stopwin.ID_REQUEST)
        try:
            if flavour == "sync":
                gw.stop()
            else:
                loop = asyncio.new_event_loop()
                try:
                    loop.run_until_complete(gw.stop())
                    loop.run_until_complete(loop.shutdown_default_executor())
                finally:
                    loop.close()
        except Exception:  # noqa: BLE001   (C14's business; the ids are what is judged here)
            pass
        before = ids(conn)
        gw2, conn2 = stopwin.make(flavour, path)
        gw2.tasks.persistence.safe_load_sensors()
        feed(gw2, stopwin.ID_REQUEST)
        feed(gw2, stopwin.ID_REQUEST)
        return before, ids(conn2)
    except Exception as e:  # noqa: BLE001
        return f"raised {type(e).__name__}: {e}"


def mqtt_backlog(fmt, before, backlog, workdir):
    """The thread-based MQTT gateway (its transport has no connection to close, so whatever the poll loop runs is
    published): `before` id requests handled, `backlog` more queued and not yet handled when the user calls
    stop(); then the real poll loop gets the processor (it was started before the stop).  Returns (ids
    published, node ids a fresh start loads, what went wrong or None)."""
    import os
    import threading
    from mysensors.gateway_mqtt import MQTTGateway
    from . import persist_util as pu
    path = os.path.join(workdir, f"mqtt-backlog.{fmt}")
    for p in (path, path + ".bak"):
        if os.path.exists(p):
            os.remove(p)
    pubs = []
    gw = MQTTGateway(lambda topic, payload, qos, retain: pubs.append((topic, payload)), lambda *a: None,
                     persistence=True, persistence_file=path, protocol_version="2.2")
    for _ in range(before):
        gw.tasks.add_job(gw.logic, stopwin.ID_REQUEST)
        gw.tasks.transport.send(gw.tasks.run_job())
    for _ in range(backlog):
        gw.tasks.transport.recv("/255/255/3/0/3", "", 0)
    problem = None
    try:
        gw.stop()
    except Exception as e:  # noqa: BLE001
        problem = f"stop() raised {type(e).__name__}: {e}"
    poll = threading.Thread(target=gw.tasks._poll_queue, daemon=True)
    poll.start()
    poll.join(3.0)
    if poll.is_alive():
        problem = problem or "the poll loop is still running three seconds after stop()"
    ids = [int(payload) for topic, payload in pubs if topic.endswith("/255/255/3/0/4")]
    err, loaded = pu.fresh_load(path)
    return ids, (sorted(loaded) if err is None else ["load-raised"]), problem


def mqtt_backlog_part(res, tier, driver=None):
    import shutil
    import tempfile
    work = tempfile.mkdtemp(prefix="verif-c06-")
    lines, impl = [], []
    try:
        for fmt in ("json", "pickle"):
            for before, backlog in ((0, 1), (2, 0), (2, 3), (1, 1), (0, 40) if tier != "quick" else (0, 5)):
                ids, in_file, problem = mqtt_backlog(fmt, before, backlog, work)
                # the model (C06.mqtt_stop_window): ids 1..before handed out, then stop(), the backlog not run
                evs = [f"proc{i + 1}" for i in range(before)] + ["disconnect"] + \
                      [f"proc{before + i + 1}" for i in range(backlog)] + ["saveStart", "saveEnd"]
                lines.append("STOPRUNMQTT " + " ".join(evs))
                impl.append(f"handed={','.join(map(str, ids)) or '-'} file={','.join(map(str, in_file)) or '-'}")
                res.evaluations += 1
                res.count("mqtt-backlog-at-stop")
                lost = [i for i in ids if i not in in_file]
                if problem or lost or len(set(ids)) != len(ids):
                    res.oracle_failures.append({
                        "key": {"kind": "mqtt-backlog", "what": "problem" if problem else "published-not-saved"},
                        "replay": {"op": "mqtt-backlog", "fmt": fmt, "before": before, "backlog": backlog},
                        "what": f"thread-based MQTT gateway, {fmt}: {before} id requests handled, {backlog} more queued when "
                                f"stop() was called: " + (problem or f"ids {lost} were published but are not in the file "
                                f"stop() left (published {ids}, file {in_file})")})
    finally:
        shutil.rmtree(work, ignore_errors=True)
    if driver is None:
        return
    try:
        out = driver.run(lines)
    except Exception as e:  # noqa: BLE001
        res.corr_diffs.append({"name": "C06-mqtt-backlog-driver", "case": "driver", "model": str(e)[:300], "impl": ""})
        return
    for line, m, i in zip(lines, out, impl):
        res.traces_validated += 1
        if m.split(" connected=")[0] != i:
            res.corr_diffs.append({"name": "C06-mqtt-backlog", "case": line, "model": m, "impl": i})


NODE_VERSIONS = ["2.3.2", "1.4.1", "2.4.0-alpha", "2.2.0-rc.2", "2.0.0-beta", "2.0.0-beta.2+build.5", "v2.1"]


def static_nodes(kind, version, node_version, qos):
    """Nodes with static ids 1 and 2 present themselves (library version `node_version`; through `logic` for the
    serial kind, through `transport.recv` with the given QoS for the MQTT kinds), then two id requests.
    Returns the ids handed out, or a text when something raised."""
    import mysensors
    pubs, out = [], []
    if kind == "serial":
        from mysensors.gateway_serial import SerialGateway
        gw = SerialGateway("/dev/verif-none", protocol_version=version)

        def deliver(line):
            reply = gw.logic(line)
            if reply:
                out.append(reply)
    else:
        from mysensors.gateway_mqtt import AsyncMQTTGateway, MQTTGateway
        cls = MQTTGateway if kind == "mqtt-sync" else AsyncMQTTGateway
        gw = cls(lambda topic, payload, q, retain: pubs.append((topic, payload)), lambda *a: None,
                 in_prefix="in", out_prefix="out", protocol_version=version)

        def deliver(line):
            n, c, t, a, s_, p = line.strip("\n").split(";", 5)
            gw.tasks.transport.recv(f"in/{n}/{c}/{t}/{a}/{s_}", p, qos if t == "0" else 0)
            queue = getattr(gw.tasks, "queue", None)
            while queue:
                gw.tasks.transport.send(gw.tasks.run_job(queue.popleft()))
    try:
        for node in (1, 2):
            deliver(f"{node};255;0;0;{17 + node % 2};{node_version}\n")
        for _ in range(2):
            deliver("255;255;3;0;3;\n")
    except Exception as e:  # noqa: BLE001
        return f"raised {type(e).__name__}: {e}"
    ids = [int(r.strip().split(";")[5]) for r in out if ";3;0;4;" in r]
    ids += [int(payload) for topic, payload in pubs if topic.endswith("/255/255/3/0/4")]
    return ids


def static_nodes_part(res):
    """Judged on the real code only (pre-release library versions are outside the model's version grammar;
    the MQTT topic route is C17's model): a node whose presentation is valid by the reference is known, so its
    id is not handed out."""
    from . import c03
    spec = c03.load_spec()
    for kind in ("serial", "mqtt-sync", "mqtt-async"):
        for version in ("1.4", "1.5", "2.0", "2.1", "2.2"):
            for nv in NODE_VERSIONS:
                if c03.spec_accepts(spec, version, 1, 255, 0, 0, 18, nv) is not True:
                    continue
                for qos in ((None,) if kind == "serial" else (0, 1, 2)):
                    ids = static_nodes(kind, version, nv, qos)
                    res.evaluations += 1
                    res.count("static-nodes:" + kind)
                    bad = None
                    if isinstance(ids, str):
                        bad = ids
                    elif any(i in (1, 2) for i in ids) or len(set(ids)) != len(ids):
                        bad = f"the id requests that followed were answered with {ids}"
                    if bad:
                        res.oracle_failures.append({
                            "key": {"kind": "static-nodes", "route": kind, "what": "raised" if isinstance(ids, str) else "ids"},
                            "replay": {"op": "static-nodes", "kind": kind, "version": version, "node_version": nv, "qos": qos},
                            "what": f"{kind} gateway {version}: nodes 1 and 2 presented themselves with library version "
                                    f"{nv!r}" + (f" (delivered with QoS {qos})" if qos is not None else "") + f": {bad}"})


def run(tier, seed, driver):
    res = gwfam.run_family("C06", tier, seed, driver, CFG, relevant)
    static_nodes_part(res)
    stopwin.part(res, "C06", driver, tier)
    unpaired_surrogate_part(res)
    mqtt_backlog_part(res, tier, driver)
    res.rule = ("histories biased to id requests, node presentations of ids 0..255 (incl. 250..255 to reach the "
                "allocator bound), save ticks, stop/restart cycles, both formats; non-trivial = at least one id "
                "response emitted; distinct by op script")
    return res


def replay(payload):
    if payload.get("replay", {}).get("op") == "stop-window":
        return stopwin.replay(payload["replay"])
    if payload.get("replay", {}).get("op") == "static-nodes":
        r = payload["replay"]
        ids = static_nodes(r["kind"], r["version"], r["node_version"], r["qos"])
        print("ids handed out after nodes 1 and 2 presented themselves:", ids)
        return 1 if isinstance(ids, str) or any(i in (1, 2) for i in ids) or len(set(ids)) != len(ids) else 0
    if payload.get("replay", {}).get("op") == "mqtt-backlog":
        import shutil
        import tempfile
        r = payload["replay"]
        work = tempfile.mkdtemp(prefix="verif-c06-")
        try:
            ids, in_file, problem = mqtt_backlog(r["fmt"], r["before"], r["backlog"], work)
        finally:
            shutil.rmtree(work, ignore_errors=True)
        print("published ids:", ids, " in the file:", in_file, " problem:", problem)
        return 1 if problem or any(i not in in_file for i in ids) else 0
    if payload.get("replay", {}).get("op") == "surrogate-text":
        import os
        import shutil
        import tempfile
        r = payload["replay"]
        work = tempfile.mkdtemp(prefix="verif-c06-")
        try:
            got = surrogate_session(r["flavour"], os.path.join(work, "sur." + r["fmt"]))
        finally:
            shutil.rmtree(work, ignore_errors=True)
        print("ids before the stop, ids after the restart:", got)
        return 1 if isinstance(got, str) or not got[1] or any(i in got[0] for i in got[1]) else 0
    return gwfam.replay_family("C06", payload)
