"""C06 — node ids are never handed out twice."""
from . import gwfam, stopwin

THEOREMS = ["MySensors.C06.alloc_known", "MySensors.C06.alloc_fresh", "MySensors.C06.alloc_reply",
            "MySensors.C06.no_alloc_no_node", "MySensors.C06.allocs_spec", "MySensors.C06.ids_never_twice",
            "MySensors.C06.ids_never_twice_no_persistence", "MySensors.C06.logic_idRequest"]
ASSUMPTIONS = [
    "stop() is the model's atomic `stop` step for lines handled before it; the shutdown window itself (lines the "
    "pump handles while stop() runs) is Model/StopOrder.lean: stop()'s own actions are disconnect then final "
    "save, a reply goes out only while connected; tied to the code by recording that order inside the real "
    "stop() of both flavours and by handling real id requests before stop, at the disconnect, at the final save "
    "and after stop (harness/stopwin.py); every generated history also has its last line before a stop handled "
    "at the moment of the disconnect",
    "persistence abstracted as in C14 (file = persisted projection of the last successful save)",
    "Model/Gateway.lean mirrors the id allocator and handlers (sampled by the correspondence)",
]


def many_ids(rng, version, hist):
    """sometimes push the allocator to its upper bound"""
    if rng.random() < 0.15:
        hi = rng.choice([250, 253, 254, 255])
        hist = [("L", f"{hi};255;0;0;17;{version}\n")] + hist
    return hist


CFG = {"kinds": ["base", "base", "tcp", "mqtt", "base-nocb", "mqtt-nocb", "base-raisecb", "tcp-raisecb"], "quick": 260, "thorough": 6000, "persist": ["none", "json", "pickle"], "lengths": [10, 20, 35],
       "bias": {"idreq": 8, "save": 2, "restart": 3, "pres_node": 2}, "malformed": 0.1, "post": [many_ids]}


def _stop_restart_idreq(version, hist):
    return [("X",), ("R",), ("L", "255;255;3;0;3;\n")]


CFG["search_suffixes"] = [_stop_restart_idreq]


def relevant(hist, obs):
    return sum(1 for o in obs if ";3;0;4;" in "".join(
        chr(int(t)) for s in (o.split(" ")[0][5:].split("|") if o.startswith("sent=") and o[5] != "-" else [])
        for t in s.split(","))) >= 1


def run(tier, seed, driver):
    res = gwfam.run_family("C06", tier, seed, driver, CFG, relevant)
    stopwin.part(res, "C06", driver, tier)
    res.rule = ("histories biased to id requests, node presentations of ids 0..255 (incl. 250..255 to reach the "
                "allocator bound), save ticks, stop/restart cycles, both formats; non-trivial = at least one id "
                "response emitted; distinct by op script")
    return res


def replay(payload):
    if payload.get("replay", {}).get("op") == "stop-window":
        return stopwin.replay(payload["replay"])
    return gwfam.replay_family("C06", payload)
