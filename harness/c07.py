"""C07 — nothing is sent to a sleeping node outside its wake window."""
from . import gwfam

THEOREMS = ["MySensors.C07.hold_step", "MySensors.C07.nothing_to_sleeping_node", "MySensors.C07.sleeping_persists",
            "MySensors.C07.others_not_delayed", "MySensors.C07.withheld_only_if_sleeping", "MySensors.C07.inv_run",
            "MySensors.C07.nothing_to_sleeping_node_run"]
ASSUMPTIONS = [
    "inline pump (a job's reply is sent at once, as the asyncio flavour does); the threaded pump's cross-line "
    "ordering is C19's subject (finding D12)",
    "controller calls are atomic events: a pre-emption inside set_child_value between its sleep test and its "
    "enqueue is not modelled",
    "Model/Gateway.lean mirrors _route_message / is_sensor / handle_smartsleep / set_child_value (sampled by the "
    "correspondence)",
]
CFG = {"quick": 300, "thorough": 8000, "versions": ["2.0", "2.1", "2.2"], "lengths": [15, 30, 45],
       "persist": ["none", "none", "none", "pickle", "json"],
       "bias": {"wake": 2.5, "req": 2, "ctl_set": 1.5, "pres_child": 1.5, "update": 1.5, "restart": 1.5}, "malformed": 0.1,
       "search_suffixes": [gwfam.repeat_tail]}


def kwargs_sweep(res):
    """Controller calls with every documented keyword (msg_type, ack) for a node that is asleep: whatever the
    call does (store the value, refuse it), nothing may reach the wire before the node's next wake-up."""
    from . import gw
    for version in ("2.0", "2.1", "2.2"):
        wake = f"1;255;3;0;{32 if version == '2.2' else 22};100\n"
        for msg_type in (None, 1, 2, "1", "2", 0, 3, 4, "set", True):
            for ack in (None, 0, 1):
                rg = gw.RealGW(version, "tcp", "none")
                for line in ("1;255;0;0;17;" + version + "\n", "1;0;0;0;3;\n", "1;0;1;0;2;1\n", wake):
                    rg.apply(("L", line))
                before = len(rg.transport.log)
                kwargs = {}
                if msg_type is not None:
                    kwargs["msg_type"] = msg_type
                if ack is not None:
                    kwargs["ack"] = ack
                outcome = "ret"
                try:
                    rg.gw.set_child_value(1, 0, 2, "0", **kwargs)
                except Exception as exc:  # noqa: BLE001
                    outcome = type(exc).__name__
                sent = rg.transport.log[before:]
                res.evaluations += 1
                res.count("kwargs-sweep:" + outcome)
                if sent:
                    res.oracle_failures.append({
                        "key": {"kind": "controller-call-reaches-sleeping-node", "msg_type": repr(msg_type)},
                        "what": f"protocol {version}: set_child_value(1, 0, 2, '0', {kwargs}) for sleeping node 1 sent "
                                f"{sent!r} outside its wake window (call ended with {outcome})",
                        "replay": {"op": "kwargs", "version": version, "msg_type": msg_type, "ack": ack}})


def relevant(hist, obs):
    import re
    # some node has announced smart sleep: a non-empty desired map in some observation
    return any(re.search(r"D\[[^\]]", o) for o in obs)


def wake_line(version, n):
    return f"1;255;3;0;{32 if version == '2.2' else 22};{n}\n"


def link_loss(cls_name, version, with_error):
    """A sleeping node, then the link to the gateway device drops and comes back (the protocol's real
    connection_lost / connection_made), then a controller call and a request from the node before it wakes up
    again.  Returns what left for node 1 between the loss and the wake-up (must be nothing), or a text."""
    import mysensors.gateway_serial as gs
    import mysensors.gateway_tcp as gt
    from .stopwin import Conn
    gw = {"SerialGateway": lambda: gs.SerialGateway("/dev/verif-none", protocol_version=version),
          "AsyncSerialGateway": lambda: gs.AsyncSerialGateway("/dev/verif-none", protocol_version=version),
          "TCPGateway": lambda: gt.TCPGateway("127.0.0.1", 5003, protocol_version=version),
          "AsyncTCPGateway": lambda: gt.AsyncTCPGateway("127.0.0.1", 5003, protocol_version=version)}[cls_name]()
    proto = gw.tasks.transport.protocol
    proto.conn_lost_callback = lambda: None           # no re-dial thread / task in this session
    conn = Conn()
    conn.serial = conn
    proto.transport = conn
    out = []

    def drain():
        queue = getattr(gw.tasks, "queue", None)
        while queue:
            reply = gw.tasks.run_job(queue.popleft())
            if reply:
                out.append(reply)

    def line(text):
        reply = gw.logic(text)
        if reply:
            out.append(reply)
        drain()
    try:
        for text in ("1;255;0;0;17;" + version + "\n", "1;0;0;0;4;dimmer\n", "1;0;1;0;3;10\n", wake_line(version, 1)):
            line(text)
        del out[:]
        try:
            proto.connection_lost(OSError(5, "Input/output error") if with_error else None)
        except Exception:  # noqa: BLE001   (C20's business)
            pass
        conn2 = Conn()
        conn2.serial = conn2
        proto.transport = conn2
        if hasattr(gw.tasks.transport, "protocol") and gw.tasks.transport.protocol is None:
            gw.tasks.transport.protocol = proto
        gw.set_child_value(1, 0, 3, "57")
        drain()
        line("1;0;2;0;3;\n")
        line("1;255;3;0;6;\n")
        written = [w.decode() for w in conn2.written]        # (the asyncio classes write at once)
        asleep = [x for x in out + written if x.startswith("1;")]
        del out[:]
        line(wake_line(version, 2))
        return asleep, list(out) + [w.decode() for w in conn2.written[len(written):]]
    except Exception as exc:  # noqa: BLE001
        return f"raised {type(exc).__name__}: {exc}"


def failed_publish(flavour, version):
    """MQTT: the publish callback fails while a sleeping node's wake-up burst goes out (the client is
    reconnecting); then the controller sends something to another, awake node.  Returns what was published
    for node 1 between its wake-up and its next one (must be nothing), or a text."""
    from mysensors.gateway_mqtt import AsyncMQTTGateway, MQTTGateway
    pubs, failing = [], [False]

    def pub(topic, payload, qos, retain):
        if failing[0]:
            raise ConnectionError("client is reconnecting")
        pubs.append(topic)
    gw = (MQTTGateway if flavour == "sync" else AsyncMQTTGateway)(pub, lambda *a: None, in_prefix="in", out_prefix="out",
                                                                  protocol_version=version)

    def line(text):
        gw.tasks.add_job(gw.logic, text)
        queue = getattr(gw.tasks, "queue", None)
        while queue:
            gw.tasks.transport.send(gw.tasks.run_job(queue.popleft()))

    def drain():
        queue = getattr(gw.tasks, "queue", None)
        while queue:
            gw.tasks.transport.send(gw.tasks.run_job(queue.popleft()))
    try:
        for text in ("1;255;0;0;17;" + version + "\n", "1;0;0;0;4;dimmer\n", "1;0;1;0;3;10\n",
                     "2;255;0;0;17;" + version + "\n", "2;0;0;0;3;lamp\n", "2;0;1;0;2;0\n", wake_line(version, 1)):
            line(text)
        gw.set_child_value(1, 0, 3, "57")
        drain()
        failing[0] = True
        line(wake_line(version, 2))            # the burst for node 1 cannot be published
        failing[0] = False
        del pubs[:]
        gw.set_child_value(2, 0, 2, "1")       # node 2 is awake: goes out at once
        drain()
        line("2;0;2;0;2;\n")
        return [t for t in pubs if t.startswith("out/1/")], list(pubs)
    except Exception as exc:  # noqa: BLE001
        return f"raised {type(exc).__name__}: {exc}"


def transport_events_part(res):
    for version in ("2.0", "2.1", "2.2"):
        for cls_name in ("SerialGateway", "AsyncSerialGateway", "TCPGateway", "AsyncTCPGateway"):
            for with_error in (False, True):
                got = link_loss(cls_name, version, with_error)
                res.evaluations += 1
                res.count("link-loss-while-asleep")
                rep = {"op": "link-loss", "class": cls_name, "version": version, "with_error": with_error}
                if isinstance(got, str):
                    res.oracle_failures.append({"key": {"kind": "link-loss", "what": "raised"}, "replay": rep,
                                                "what": f"{cls_name} {version}: {got}"})
                elif got[0]:
                    res.oracle_failures.append({
                        "key": {"kind": "link-loss", "what": "sent-while-asleep"}, "replay": rep,
                        "what": f"{cls_name} {version}: node 1 is asleep, the link drops "
                                f"({'with' if with_error else 'without'} an error) and comes back: {got[0]} left for the "
                                f"node before its next wake-up"})
        for flavour in ("sync", "async"):
            got = failed_publish(flavour, version)
            res.evaluations += 1
            res.count("failed-publish-while-asleep")
            rep = {"op": "failed-publish", "flavour": flavour, "version": version}
            if isinstance(got, str):
                res.oracle_failures.append({"key": {"kind": "failed-publish", "what": "raised"}, "replay": rep,
                                            "what": f"{flavour} MQTT gateway {version}: {got}"})
            elif got[0]:
                res.oracle_failures.append({
                    "key": {"kind": "failed-publish", "what": "sent-while-asleep"}, "replay": rep,
                    "what": f"{flavour} MQTT gateway {version}: the publish of node 1's wake-up burst failed; later, with "
                            f"the node asleep again, {got[0]} were published for it (all publishes then: {got[1]})"})


def run(tier, seed, driver):
    res = gwfam.run_family("C07", tier, seed, driver, CFG, relevant)
    kwargs_sweep(res)
    transport_events_part(res)
    res.rule = ("histories for versions 2.0-2.2 over 3-4 nodes biased to wake-up announcements, value requests, "
                "controller sets, reboot requests and presentation requests for sleeping nodes; non-trivial = some "
                "node has announced smart sleep (non-empty desired map); distinct by op script")
    return res


def replay(payload):
    r = payload.get("replay", {})
    if r.get("op") == "link-loss":
        got = link_loss(r["class"], r["version"], r["with_error"])
        print("left for the sleeping node before / at its next wake-up:", got)
        return 1 if isinstance(got, str) or got[0] else 0
    if r.get("op") == "failed-publish":
        got = failed_publish(r["flavour"], r["version"])
        print("published for the sleeping node / everything published:", got)
        return 1 if isinstance(got, str) or got[0] else 0
    if payload.get("replay", {}).get("op") == "kwargs":
        from .common import Result
        res = Result()
        kwargs_sweep(res)
        bad = [f for f in res.oracle_failures if f["replay"] == payload["replay"]]
        print(bad or "pass")
        return 1 if bad else 0
    return gwfam.replay_family("C07", payload)
