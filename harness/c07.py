"""C07 — nothing is sent to a sleeping node outside its wake window."""
from . import gwfam

THEOREMS = ["MySensors.C07.hold_step", "MySensors.C07.nothing_to_sleeping_node", "MySensors.C07.sleeping_persists",
            "MySensors.C07.others_not_delayed", "MySensors.C07.withheld_only_if_sleeping", "MySensors.C07.inv_run",
            "MySensors.C07.nothing_to_sleeping_node_run"]
ASSUMPTIONS = [
    "inline pump (a job's reply is sent at once, as the asyncio flavour does); the threaded pump's cross-line "
    "ordering is C19's subject (finding D12)",
    "controller calls are atomic events: a pre-emption inside set_child_value between its sleep test and its "
    "enqueue is not modelled",
    "Model/Gateway.lean mirrors _route_message / is_sensor / handle_smartsleep / set_child_value (sampled by the "
    "correspondence)",
]
CFG = {"quick": 300, "thorough": 8000, "versions": ["2.0", "2.1", "2.2"], "lengths": [15, 30, 45],
       "persist": ["none", "none", "none", "pickle", "json"],
       "bias": {"wake": 2.5, "req": 2, "ctl_set": 1.5, "pres_child": 1.5, "update": 1.5, "restart": 1.5}, "malformed": 0.1,
       "search_suffixes": [gwfam.repeat_tail]}


def kwargs_sweep(res):
    """Controller calls with every documented keyword (msg_type, ack) for a node that is asleep: whatever the
    call does (store the value, refuse it), nothing may reach the wire before the node's next wake-up."""
    from . import gw
    for version in ("2.0", "2.1", "2.2"):
        wake = f"1;255;3;0;{32 if version == '2.2' else 22};100\n"
        for msg_type in (None, 1, 2, "1", "2", 0, 3, 4, "set", True):
            for ack in (None, 0, 1):
                rg = gw.RealGW(version, "tcp", "none")
                for line in ("1;255;0;0;17;" + version + "\n", "1;0;0;0;3;\n", "1;0;1;0;2;1\n", wake):
                    rg.apply(("L", line))
                before = len(rg.transport.log)
                kwargs = {}
                if msg_type is not None:
                    kwargs["msg_type"] = msg_type
                if ack is not None:
                    kwargs["ack"] = ack
                outcome = "ret"
                try:
                    rg.gw.set_child_value(1, 0, 2, "0", **kwargs)
                except Exception as exc:  # noqa: BLE001
                    outcome = type(exc).__name__
                sent = rg.transport.log[before:]
                res.evaluations += 1
                res.count("kwargs-sweep:" + outcome)
                if sent:
                    res.oracle_failures.append({
                        "key": {"kind": "controller-call-reaches-sleeping-node", "msg_type": repr(msg_type)},
                        "what": f"protocol {version}: set_child_value(1, 0, 2, '0', {kwargs}) for sleeping node 1 sent "
                                f"{sent!r} outside its wake window (call ended with {outcome})",
                        "replay": {"op": "kwargs", "version": version, "msg_type": msg_type, "ack": ack}})


def relevant(hist, obs):
    import re
    # some node has announced smart sleep: a non-empty desired map in some observation
    return any(re.search(r"D\[[^\]]", o) for o in obs)


def run(tier, seed, driver):
    res = gwfam.run_family("C07", tier, seed, driver, CFG, relevant)
    kwargs_sweep(res)
    res.rule = ("histories for versions 2.0-2.2 over 3-4 nodes biased to wake-up announcements, value requests, "
                "controller sets, reboot requests and presentation requests for sleeping nodes; non-trivial = some "
                "node has announced smart sleep (non-empty desired map); distinct by op script")
    return res


def replay(payload):
    if payload.get("replay", {}).get("op") == "kwargs":
        from .common import Result
        res = Result()
        kwargs_sweep(res)
        bad = [f for f in res.oracle_failures if f["replay"] == payload["replay"]]
        print(bad or "pass")
        return 1 if bad else 0
    return gwfam.replay_family("C07", payload)
