"""C07 — nothing is sent to a sleeping node outside its wake window."""
from . import gwfam

THEOREMS = ["MySensors.C07.hold_step", "MySensors.C07.nothing_to_sleeping_node", "MySensors.C07.sleeping_persists",
            "MySensors.C07.others_not_delayed", "MySensors.C07.withheld_only_if_sleeping", "MySensors.C07.inv_run",
            "MySensors.C07.nothing_to_sleeping_node_run"]
ASSUMPTIONS = [
    "inline pump (a job's reply is sent at once, as the asyncio flavour does); the threaded pump's cross-line "
    "ordering is C19's subject (finding D12)",
    "controller calls are atomic events: a pre-emption inside set_child_value between its sleep test and its "
    "enqueue is not modelled",
    "Model/Gateway.lean mirrors _route_message / is_sensor / handle_smartsleep / set_child_value (sampled by the "
    "correspondence)",
]
CFG = {"quick": 300, "thorough": 8000, "versions": ["2.0", "2.1", "2.2"], "lengths": [15, 30, 45],
       "bias": {"wake": 2.5, "req": 2, "ctl_set": 1.5, "pres_child": 1.5, "update": 1.5}, "malformed": 0.1}


def relevant(hist, obs):
    import re
    # some node has announced smart sleep: a non-empty desired map in some observation
    return any(re.search(r"D\[[^\]]", o) for o in obs)


def run(tier, seed, driver):
    res = gwfam.run_family("C07", tier, seed, driver, CFG, relevant)
    res.rule = ("histories for versions 2.0-2.2 over 3-4 nodes biased to wake-up announcements, value requests, "
                "controller sets, reboot requests and presentation requests for sleeping nodes; non-trivial = some "
                "node has announced smart sleep (non-empty desired map); distinct by op script")
    return res


def replay(payload):
    return gwfam.replay_family("C07", payload)
