"""C08 — withheld traffic reaches the sleeping node exactly once, in order."""
import re

from . import gwfam, gw

THEOREMS = ["MySensors.C08.wake_burst", "MySensors.C08.mem_pending", "MySensors.C08.buildSets_ok",
            "MySensors.C08.desired_survives_wake", "MySensors.C08.report_clears",
            "MySensors.C08.line_step_desired", "MySensors.C08.setValue_step_desired",
            "MySensors.C08.req_sees_desired", "MySensors.C08.refused_call_changes_nothing",
            "MySensors.C08.accepted_value_is_sendable", "MySensors.C08.queue_only_appended"]
ASSUMPTIONS = [
    "inline pump; the threaded pump's cross-line ordering is C19's subject (finding D12)",
    "wake_burst assumes PendingOk (every pending desired value builds a valid command); that it always "
    "holds is the invariant proved for C01 (DesiredOk) from accepted_value_is_sendable",
    "controller values are text (the property quantifies over well-formed Unicode text)",
    "Model/Gateway.lean mirrors handle_smartsleep / get_desired_value / set_child_desired_state (sampled by the "
    "correspondence)",
]


def version_mix(rng, version, hist):
    """nodes whose presented version is older / never presented relative to the gateway's"""
    out = []
    for op in hist:
        if op[0] == "L" and ";255;0;0;17;" in op[1] and rng.random() < 0.5:
            node = op[1].split(";")[0]
            out.append(("L", f"{node};255;0;0;17;{rng.choice(['1.4', '1.5', '2.0', '2.0.0', version])}\n"))
        else:
            out.append(op)
    return out


CFG = {"quick": 300, "thorough": 8000, "versions": ["2.0", "2.1", "2.2"], "lengths": [20, 35, 50],
       "persist": ["none", "none", "none", "pickle", "json"],
       "bias": {"wake": 3, "req": 2, "ctl_set": 3, "set": 1.5, "pres_child": 1.5, "idreq": 1.5},
       "malformed": 0.08, "ota": False, "post": [version_mix, gw.pending_pair_burst]}


def relevant(hist, obs):
    # a wake-up step that actually flushed something
    return any(o.startswith("sent=") and not o.startswith("sent=-") and re.search(r"D\[[^\]]", o)
               and op[0] == "L" and (";3;0;22;" in op[1] or ";3;0;32;" in op[1]) for op, o in zip(hist, obs))


def several_pending(rng, version, hist):
    """a sleeping node with two children and two reported value types each; the controller sets two to four of
    them while it sleeps; it wakes up (all of them are due in the same burst), reports one, wakes up again"""
    node = rng.choice([1, 2, 7, 42])
    wake = f"{node};255;3;0;{32 if version == '2.2' else 22};{gw.wake_payload(rng)}\n"
    kids = rng.sample([0, 1, 5, 9], 2)
    val = {2: lambda: rng.choice(["0", "1"]), 3: lambda: str(rng.randrange(101))}
    script = [("L", f"{node};255;0;0;17;{version}\n")]
    for c in kids:
        script += [("L", f"{node};{c};0;0;4;dimmer {c}\n"), ("L", f"{node};{c};1;0;2;{val[2]()}\n"),
                   ("L", f"{node};{c};1;0;3;{val[3]()}\n")]
    script.append(("L", wake))
    pairs = rng.sample([(c, t) for c in kids for t in (2, 3)], rng.randrange(2, 5))
    script += [("S", node, c, t, val[t](), None) for c, t in pairs]
    script.append(("L", wake))
    c, t = rng.choice(pairs)
    script += [("L", f"{node};{c};1;0;{t};{val[t]()}\n"), ("L", wake)]
    k = rng.randrange(len(hist) + 1)
    return list(hist[:k]) + script + list(hist[k:])


CFG["post"].append(lambda rng, version, hist: several_pending(rng, version, hist) if rng.random() < 0.2 else hist)


def reboot_pending(rng, version, hist):
    """a firmware update is scheduled for a sleeping node that has a desired value pending: its next reports are
    answered with reboot requests (withheld like everything else) and still count as reports"""
    if rng.random() > 0.2:
        return hist
    node = rng.choice([1, 2, 7, 42])
    wake = f"{node};255;3;0;{32 if version == '2.2' else 22};{gw.wake_payload(rng)}\n"
    a, b = str(rng.randrange(101)), str(rng.randrange(101))
    script = [("L", f"{node};255;0;0;17;{version}\n"), ("L", f"{node};0;0;0;4;dimmer\n"),
              ("L", f"{node};0;1;0;3;{a}\n"), ("L", wake), ("S", node, 0, 3, b, None),
              ("U", [node], 1, 1, bytes(range(40))), ("L", wake), ("L", f"{node};0;1;0;3;{rng.choice([a, b])}\n"),
              ("L", wake), ("L", f"{node};0;2;0;3;\n"), ("L", wake)]
    k = rng.randrange(len(hist) + 1)
    while k < len(hist) and hist[k][0] == "R":
        k += 1
    return list(hist[:k]) + script + list(hist[k:])


CFG["post"].append(reboot_pending)


def run(tier, seed, driver):
    import random
    from . import c05
    res = gwfam.run_family("C08", tier, seed, driver, CFG, relevant)
    # the same wake-up bursts on the threaded gateway, where a job runs after the handler that queued it has
    # returned: what goes out must be what the asyncio gateway sends for the same lines
    c05.threaded_part(res, random.Random(seed * 7919 + 8), tier, episode=several_pending,
                      versions=["2.0", "2.1", "2.2"])
    res.rule = ("histories for 2.0-2.2 biased to wake-ups, reports, value requests, presentations after the first "
                "wake-up and controller sets (valid and invalid values, string value types, ack 0/1/2) for nodes "
                "whose presented version equals / is older than / was never presented relative to the gateway's; "
                "non-trivial = a wake-up step emitted a non-empty burst; distinct by op script")
    return res


def replay(payload):
    if (payload.get("replay") or {}).get("op") == "threaded":
        from . import c05
        return c05.replay(payload)
    return gwfam.replay_family("C08", payload)
