"""C09 — OTA serves exactly the firmware it advertised.

Correspondence (real `mysensors.ota` / a real gateway vs the Lean model through the driver) and
the property's own oracle on the real code.  Everything the oracle uses to judge — CRC, word
packing, block reassembly, the Intel-HEX writer — is the harness's own code, independent of
both the library and the model.
"""
import logging
import os
import random
import shutil
import tempfile

from . import common
from .common import Result, enc_str, digest

THEOREMS = [
    "MySensors.C09.pad", "MySensors.C09.data_bytes_crc", "MySensors.C09.blocks_concat",
    "MySensors.C09.words_roundtrip", "MySensors.C09.bytes_roundtrip", "MySensors.C09.pack_rejects",
    "MySensors.C09.crc_def", "MySensors.C09.crc_lt", "MySensors.C09.config",
    "MySensors.C09.block_response", "MySensors.C09.block_responses_any_order",
    "MySensors.C09.gateway_block_reply", "MySensors.C09.gateway_block_payload",
    "MySensors.C09.gateway_block_history", "MySensors.C09.gateway_block_gated",
    "MySensors.C09.gateway_config_reply", "MySensors.C09.ota_serves_advertised",
    "MySensors.C09.hex_load",
]
ASSUMPTIONS = [
    "crcmod's predefined 'modbus' CRC equals the bitwise CRC-16/MODBUS of the model (reflected 0xA001, "
    "init 0xFFFF, no final xor); compared here on every generated image, with the harness's own bitwise "
    "implementation as a third party",
    "struct.pack/unpack('<nH') and binascii.hexlify/unhexlify behave as the model's wordBytes/bytesToWords/"
    "hexBytes/unhexlify; sampled on boundary words, random words and malformed payloads",
    "intelhex 2.3 IntelHex.fromfile(format='hex') + tobinstr() behave as Model/IntelHex.lean (records 00-05, "
    "checksum, overlap, offsets without wrap, 0xFF gap fill, universal newlines); sampled on files from the "
    "harness's own writer incl. extended linear/segment records, CRLF, lower case, shuffled records, gaps and "
    "damaged files",
    "the gateway-level theorems speak about the model's stream handlers; that Gateway.logic reaches them as the "
    "model's step does is sampled by the full sessions here (and by the gateway-family correspondence)",
    "images are byte strings of length >= 1 whose padded block count fits 16 bits (< 1 MiB); make_update "
    "refuses larger ones",
]
TRUSTED = [
    "third-party crcmod and intelhex: modelled (bitwise CRC, Intel-HEX reader), agreement sampled by the C09 "
    "correspondence, not proved",
]

VERSIONS = ["1.4", "1.5", "2.0", "2.1", "2.2"]


# ------------------------------------------------------------------------------------------
# the harness's own arithmetic (independent of the library and of the model)
# ------------------------------------------------------------------------------------------

def own_crc(data):
    """CRC-16/MODBUS, bit by bit."""
    crc = 0xFFFF
    for byte in data:
        crc ^= byte
        for _ in range(8):
            crc = (crc >> 1) ^ 0xA001 if crc & 1 else crc >> 1
    return crc


def pack_words(*words):
    return b"".join(int(w).to_bytes(2, "little") for w in words).hex()


def unpack_words(text, count):
    """None when the text is not exactly `count` little-endian 16-bit words in hex."""
    try:
        raw = bytes.fromhex(text)
    except ValueError:
        return None
    if len(raw) != 2 * count or len(text) != 4 * count:
        return None
    return [int.from_bytes(raw[2 * i:2 * i + 2], "little") for i in range(count)]


def ihex_record(rtype, addr16, data, lower=False):
    body = bytes([len(data), (addr16 >> 8) & 0xFF, addr16 & 0xFF, rtype]) + bytes(data)
    text = (body + bytes([(-sum(body)) & 0xFF])).hex()
    return ":" + (text if lower else text.upper())


def ihex_lines(img, base, reclen, mode="linear", lower=False, force_ext=False, cur=0):
    """Data (and extended address) records for `img` stored from `base`; returns (lines, cur)."""
    lines = []
    pos = 0
    first = True
    while pos < len(img):
        addr = base + pos
        n = min(reclen, 0x10000 - (addr & 0xFFFF), len(img) - pos)
        hi = addr >> 16
        if hi != cur or (force_ext and first):
            if mode == "segment":
                lines.append(ihex_record(2, 0, [(hi << 12) >> 8 & 0xFF, (hi << 12) & 0xFF], lower))
            else:
                lines.append(ihex_record(4, 0, [hi >> 8 & 0xFF, hi & 0xFF], lower))
            cur = hi
        lines.append(ihex_record(0, addr & 0xFFFF, img[pos:pos + n], lower))
        pos += n
        first = False
    return lines, cur


def write_ihex(img, base, reclen, mode="linear", eol="\n", lower=False, force_ext=False, eof=True,
               start=None, blank=False, shuffle=None, trailer=""):
    if shuffle is not None:
        # every data record carries its own extended linear address record; the pairs are shuffled
        pairs = []
        pos = 0
        while pos < len(img):
            addr = base + pos
            n = min(reclen, 0x10000 - (addr & 0xFFFF), len(img) - pos)
            hi = addr >> 16
            pairs.append([ihex_record(4, 0, [hi >> 8 & 0xFF, hi & 0xFF], lower),
                          ihex_record(0, addr & 0xFFFF, img[pos:pos + n], lower)])
            pos += n
        shuffle.shuffle(pairs)
        lines = [l for p in pairs for l in p]
    else:
        lines, _ = ihex_lines(img, base, reclen, mode, lower, force_ext)
    if start == "linear":
        lines.insert(len(lines) // 2, ihex_record(5, 0, [0, 0, base >> 8 & 0xFF, base & 0xFF], lower))
    elif start == "segment":
        lines.insert(0, ihex_record(3, 0, [0x12, 0x34, 0x56, 0x78], lower))
    if eof:
        lines.append(ihex_record(1, 0, [], lower))
    if blank:
        lines = [x for l in lines for x in (l, "")]
    return eol.join(lines) + eol + trailer


# ------------------------------------------------------------------------------------------
# real code
# ------------------------------------------------------------------------------------------

def real_prepare(img):
    from mysensors import ota
    fw = ota.prepare_fw(bytes(img))
    return fw


def real_fw_int_to_hex(words):
    import struct
    from mysensors import ota
    try:
        return "ok " + enc_str(ota.fw_int_to_hex(*words))
    except struct.error:
        return "none"


def real_fw_hex_to_int(text, count):
    import struct
    from mysensors import ota
    try:
        ws = ota.fw_hex_to_int(text, count)
    except (ValueError, struct.error):
        return "none"
    return "ok " + (",".join(map(str, ws)) or "-")


class Oversized(bytes):
    """marker: load_fw produced (or tried to allocate) an image far larger than anything the file encodes"""


def real_load_fw(text, workdir):
    """ota.load_fw on a file with this text, with the address space capped for the duration of the call: a file
    of a few hundred bytes must not make the loader allocate gigabytes (records at high addresses are legal)."""
    import resource
    from mysensors import ota
    path = os.path.join(workdir, "fw.hex")
    with open(path, "w", encoding="utf-8", newline="") as fh:
        fh.write(text)
    soft, hard = resource.getrlimit(resource.RLIMIT_AS)
    try:
        with open("/proc/self/statm", encoding="ascii") as fh:
            now = int(fh.read().split()[0]) * resource.getpagesize()
        resource.setrlimit(resource.RLIMIT_AS, (now + (1 << 30), hard))
    except (OSError, ValueError):
        now = None
    import signal
    import threading

    class _TooLong(BaseException):
        pass

    def on_alarm(_sig, _frm):
        raise _TooLong()
    timed = threading.current_thread() is threading.main_thread()
    if timed:
        old_handler = signal.signal(signal.SIGALRM, on_alarm)
        signal.setitimer(signal.ITIMER_REAL, 5.0)
    try:
        got = ota.load_fw(path)
    except MemoryError:
        return Oversized(b"MemoryError")
    except _TooLong:
        return Oversized(b"more than 5 s of work")
    finally:
        if timed:
            signal.setitimer(signal.ITIMER_REAL, 0)
            signal.signal(signal.SIGALRM, old_handler)
        if now is not None:
            resource.setrlimit(resource.RLIMIT_AS, (soft, hard))
    if got is not None and len(got) > (1 << 22):
        return Oversized(f"{len(got)} bytes".encode())
    return got


def show_hex(data):
    return bytes(data).hex() or "e"


# ------------------------------------------------------------------------------------------
# oracles (judge the real code only)
# ------------------------------------------------------------------------------------------

def oracle_prepare(img, fw):
    """prepare_fw(img) against the property; returns None or a description."""
    import crcmod.predefined
    data = fw["data"]
    blocks = fw["blocks"]
    if not isinstance(blocks, int):
        return "blocks is not an int"
    if data[:len(img)] != bytes(img):
        return "padded data does not start with the image"
    pad = data[len(img):]
    if any(b != 0xFF for b in pad):
        return "padding contains a byte other than 0xFF"
    if len(pad) > 128:          # the property: "at most one 128-byte page" (the code pads 1..128)
        return f"padding length {len(pad)} is more than one page"
    if len(data) % 128 != 0:
        return "padded length is not a multiple of 128"
    if len(data) != 16 * blocks:
        return f"padded length {len(data)} != 16 * blocks ({blocks})"
    mine = own_crc(data)
    if fw["crc"] != mine:
        return f"advertised crc {fw['crc']} != independent CRC-16/MODBUS {mine}"
    if crcmod.predefined.mkCrcFun("modbus")(bytes(data)) != mine:
        return "crcmod modbus differs from the independent bitwise CRC"
    return None


class Session:
    """One gateway, several firmwares and nodes, interleaved shuffled requests."""

    def __init__(self, version, fws, ops, expect):
        self.version = version
        self.fws = fws          # list of (type, ver, image bytes, [node ids])
        self.ops = ops          # gw ops
        self.expect = expect    # per op: None | ("cfg", node, t, v) | ("blk", node, t, v, i)


def make_session(rng, version, fws, extra_nodes=()):
    ops = []
    expect = []
    nodes = [n for f in fws for n in f[3]]
    for n in list(nodes) + list(extra_nodes):
        ops.append(("L", f"{n};255;0;0;17;{version}\n"))
        expect.append(None)
        if version not in ("1.4", "1.5") and rng.random() < 0.4:
            # the node is a smart-sleep node (it has a child and has announced a sleep period): firmware
            # replies are still answered at once — a node in its bootloader sends no wake-up message
            ops.append(("L", f"{n};1;0;0;3;\n"))
            ops.append(("L", f"{n};255;3;0;{32 if version == '2.2' else 22};500\n"))
            expect.extend([None, None])
    # an earlier build loaded under the same (type, version) and partly served to another node before
    # the image of this session replaces it: nothing of the earlier build may be served afterwards
    used = set(nodes) | set(extra_nodes)
    for t, v, img, nids in fws:
        if rng.random() < 0.5:
            p = next(k for k in range(200, 255) if k not in used)
            used.add(p)
            old = bytes(rng.randrange(256) for _ in range(rng.choice([1, 16, 100, 128, 200, len(img), len(img) + 130])))
            ops.append(("L", f"{p};255;0;0;17;{version}\n"))
            ops.append(("U", [p], t, v, old))
            ops.append(("L", f"{p};255;4;0;0;{pack_words(t, v, 0, 0, 0)}\n"))
            for i in sorted({0, rng.randrange((len(old) // 128 + 1) * 8), (len(old) // 128 + 1) * 8 - 1}):
                ops.append(("L", f"{p};255;4;0;2;{pack_words(t, v, i)}\n"))
            expect.extend([None] * (len(ops) - len(expect)))
    for t, v, img, nids in fws:
        # the update call may also name ids nobody has presented (not yet installed, a typo), anywhere in the list
        call_ids = list(nids)
        for _ in range(rng.choice([0, 0, 1, 2])):
            call_ids.insert(rng.randrange(len(call_ids) + 1), next(k for k in range(100, 150) if k not in used))
        ops.append(("U", call_ids, t, v, bytes(img)))
        expect.append(None)
    by_key = {(t, v): img for t, v, img, _ in fws}
    streams = []
    for t, v, img, nids in fws:
        blocks = (len(img) // 128 + 1) * 8
        for n in nids:
            reqs = []
            cfg = pack_words(rng.choice([t, rng.randrange(65536)]), rng.randrange(65536), rng.randrange(65536),
                             rng.randrange(65536), rng.randrange(65536))
            reqs.append((("L", f"{n};255;4;0;0;{cfg}\n"), ("cfg", n, t, v)))
            if rng.random() < 0.3:
                reqs.append((("L", f"{n};255;4;0;0;{cfg.upper()}\n"), ("cfg", n, t, v)))
            idx = list(range(blocks))
            idx += [rng.randrange(blocks) for _ in range(max(1, blocks // 10))]
            if rng.random() < 0.5:
                idx += [blocks, rng.choice([blocks + 1, 65535, 4096])]
            rng.shuffle(idx)
            body = []
            for i in idx:
                body.append((("L", f"{n};255;4;0;2;{pack_words(t, v, i)}\n"), ("blk", n, t, v, i)))
            # a request for another loaded firmware: answered from that firmware, echoing its id
            others = [k for k in by_key if k != (t, v)]
            if others and rng.random() < 0.7:
                ot, ov = rng.choice(others)
                i = rng.randrange((len(by_key[ot, ov]) // 128 + 1) * 8)
                body.insert(rng.randrange(1, len(body) + 1),
                            (("L", f"{n};255;4;0;2;{pack_words(ot, ov, i)}\n"), ("blk", n, ot, ov, i)))
            streams.append(reqs + body)
    # a known node without a session asks too: nothing may be served
    for n in extra_nodes:
        t, v, img, _ = fws[0]
        streams.append([(("L", f"{n};255;4;0;2;{pack_words(t, v, 0)}\n"), ("idle", n)),
                        (("L", f"{n};255;4;0;0;{pack_words(t, v, 0, 0, 0)}\n"), ("idle", n))])
    # a late joiner: one more node is scheduled for an already loaded firmware — by a further update call with the
    # same file — while the others are in the middle of their downloads; nobody's session may suffer
    if rng.random() < 0.5:
        k = rng.randrange(len(fws))
        t, v, img, nids = fws[k]
        j = next(x for x in range(150, 200) if x not in used)
        used.add(j)
        fws = list(fws)
        fws[k] = (t, v, img, list(nids) + [j])
        blocks = (len(img) // 128 + 1) * 8
        late = [(("L", f"{j};255;0;0;17;{version}\n"), None), (("U", [j], t, v, bytes(img)), None),
                (("L", f"{j};255;4;0;0;{pack_words(t, v, 0, 0, 0)}\n"), ("cfg", j, t, v))]
        idx = list(range(blocks))
        rng.shuffle(idx)
        late += [(("L", f"{j};255;4;0;2;{pack_words(t, v, i)}\n"), ("blk", j, t, v, i)) for i in idx]
        streams.append(late)
    # interleave the nodes' request streams, keeping each node's own order
    pos = [0] * len(streams)
    live = [i for i, s in enumerate(streams) if s]
    while live:
        k = rng.choice(live)
        op, ex = streams[k][pos[k]]
        ops.append(op)
        expect.append(ex)
        pos[k] += 1
        if pos[k] == len(streams[k]):
            live.remove(k)
    return Session(version, fws, ops, expect)


def parse_sent(line):
    """'n;255;4;0;sub;payload\\n' -> (node, sub, payload) or None."""
    parts = line.rstrip("\n").split(";")
    if len(parts) != 6:
        return None
    try:
        return int(parts[0]), int(parts[1]), int(parts[2]), int(parts[4]), parts[5]
    except ValueError:
        return None


def oracle_session(sess, obs):
    """The property on the real gateway's replies.  Returns a list of (kind, what)."""
    fails = []
    by_key = {(t, v): bytes(img) for t, v, img, _ in sess.fws}
    advertised = {}      # node -> (t, v, B, C)
    got = {}             # (node, t, v) -> {index: block bytes}
    for op, ex, ob in zip(sess.ops, sess.expect, obs):
        if ob.exc is not None:
            fails.append(("exception", f"{ob.exc} escaped on {op[0]} {str(op[1])[:60]!r}"))
            continue
        if ex is None:
            continue
        sent = [parse_sent(s) for s in ob.sent]
        if ex[0] == "idle":
            if sent:
                fails.append(("served-idle", f"node {ex[1]} without a session was answered"))
            continue
        if len(sent) != 1 or sent[0] is None:
            fails.append(("no-reply", f"{ex[0]} request of node {ex[1]} got {len(sent)} replies"))
            continue
        node, child, mtype, sub, payload = sent[0]
        if (node, child, mtype) != (ex[1], 255, 4):
            fails.append(("address", f"reply header {sent[0][:4]} for a request of node {ex[1]}"))
            continue
        if ex[0] == "cfg":
            _, n, t, v = ex
            ws = unpack_words(payload, 4)
            if sub != 1 or ws is None:
                fails.append(("config-shape", f"config reply sub={sub} payload={payload!r}"))
                continue
            if ws[:2] != [t, v]:
                fails.append(("config-id", f"config reply advertises {ws[:2]} for scheduled {(t, v)}"))
            if n in advertised and advertised[n] != tuple(ws):
                fails.append(("config-unstable", f"node {n} was advertised {advertised[n]} then {tuple(ws)}"))
            advertised[n] = tuple(ws)
        else:
            _, n, t, v, i = ex
            head = unpack_words(payload[:12], 3)
            if sub != 3 or head is None:
                fails.append(("block-shape", f"block reply sub={sub} payload={payload[:40]!r}"))
                continue
            if head != [t, v, i]:
                fails.append(("echo", f"block reply echoes {head} for request {[t, v, i]}"))
                continue
            try:
                blk = bytes.fromhex(payload[12:])
            except ValueError:
                fails.append(("block-shape", f"block bytes are not hex: {payload[12:40]!r}"))
                continue
            store = got.setdefault((n, t, v), {})
            if i in store and store[i] != blk:
                fails.append(("block-unstable", f"node {n} block {i} served twice with different bytes"))
            store[i] = blk
    for t, v, img, nids in sess.fws:
        for n in nids:
            adv = advertised.get(n)
            if adv is None:
                fails.append(("no-config", f"node {n} never got a config reply"))
                continue
            _, _, blocks, crc = adv
            store = got.get((n, t, v), {})
            missing = [i for i in range(blocks) if i not in store]
            if missing:
                fails.append(("missing-block", f"node {n}: blocks {missing[:5]} never served (B={blocks})"))
                continue
            if any(len(store[i]) != 16 for i in range(blocks)):
                fails.append(("block-size", f"node {n}: a block below B is not 16 bytes"))
                continue
            whole = b"".join(store[i] for i in range(blocks))
            pad = whole[len(img):]
            if whole[:len(img)] != bytes(img):
                fails.append(("content", f"node {n}: reassembled blocks differ from the image (len {len(img)})"))
            elif any(b != 0xFF for b in pad) or len(pad) > 128:
                fails.append(("padding", f"node {n}: padding of {len(pad)} bytes / non-0xFF for image length {len(img)}"))
            elif len(whole) != 16 * blocks or len(whole) % 128 != 0:
                fails.append(("length", f"node {n}: reassembled length {len(whole)} with B={blocks}"))
            elif own_crc(whole) != crc:
                fails.append(("crc", f"node {n}: advertised crc {crc} != CRC-16/MODBUS {own_crc(whole)} of the served bytes"))
            for i, blk in store.items():
                if i >= blocks and blk != b"":
                    fails.append(("beyond-end", f"node {n}: block {i} >= B={blocks} carries data"))
        # blocks served to nodes scheduled for another firmware
    for (n, t, v), store in got.items():
        img = by_key.get((t, v))
        if img is None:
            continue
        for i, blk in store.items():
            part = img[16 * i:16 * i + 16]
            if blk[:len(part)] != part or len(blk) > 16 or any(b != 0xFF for b in blk[len(part):]):
                fails.append(("content", f"node {n}: block {i} of firmware {(t, v)} differs from the image"))
                break
    return fails


def run_session_real(sess):
    from . import gw as gwmod
    real = gwmod.RealGW(sess.version, "base", "none")
    return [real.apply(op) for op in sess.ops]


def session_wire(sess):
    from . import gw as gwmod
    return [gwmod.gw_wire(sess.version, "base", "none")] + [gwmod.op_wire(op) for op in sess.ops]


def session_replay(sess):
    return {"op": "session", "version": sess.version,
            "fws": [[t, v, bytes(img).hex(), list(nids)] for t, v, img, nids in sess.fws],
            "ops": [[op[0], op[1]] if op[0] == "L" else ["U", op[1], op[2], op[3], op[4].hex()] for op in sess.ops],
            "expect": sess.expect}


# ------------------------------------------------------------------------------------------
# case generation
# ------------------------------------------------------------------------------------------

def rand_image(rng, n):
    r = rng.random()
    if r < 0.04:
        return bytes([0xFF]) * n
    if r < 0.08:
        return bytes(n)
    if r < 0.12:
        return bytes([rng.choice([0x00, 0xFF, 0x7F, 0x80]) for _ in range(n)])
    return rng.randbytes(n)


def image_lengths(tier, rng):
    if tier == "quick":
        ls = list(range(1, 301))
        for c in (512, 1024, 4096):
            ls += [c - 2, c - 1, c, c + 1, c + 2]
        ls += [32767, 32768, 32769]
        for _ in range(40):
            k = rng.randrange(3, 64)
            ls.append(k * 128 + rng.choice([-1, 0, 1]))
        for _ in range(40):
            k = rng.randrange(20, 512)
            ls.append(k * 16 + rng.choice([-1, 0, 1]))
        return ls
    ls = list(range(1, 4097))
    for k in range(33, 257):
        ls += [k * 128 - 1, k * 128, k * 128 + 1]
    for _ in range(300):
        k = rng.randrange(257, 2049)
        ls.append(k * 16 + rng.choice([-1, 0, 1]))
    return ls


def session_lengths(tier, rng):
    if tier == "quick":
        # every length through the first page boundary, the neighbourhoods of the next ones
        ls = list(range(1, 145)) + list(range(250, 263)) + list(range(382, 387))
        for c in (512, 1024, 4096):
            ls += [c - 1, c, c + 1]
        ls += [32768]
        return ls
    ls = list(range(1, 1025))
    for k in range(9, 33):
        ls += [k * 128 - 1, k * 128, k * 128 + 1]
    ls += [rng.randrange(4097, 32768) for _ in range(6)] + [32767, 32768, 32769]
    return ls


def rand_id(rng):
    return rng.choice([0, 1, 255, 256, 65535, rng.randrange(65536), rng.randrange(65536)])


def build_sessions(rng, lengths):
    """Group the image lengths into gateways holding 1-3 firmwares and 1-4 updating nodes."""
    sessions = []
    lengths = list(lengths)
    rng.shuffle(lengths)
    i = 0
    while i < len(lengths):
        big = lengths[i] > 2048
        k = 1 if big else rng.choice([1, 2, 2, 3])
        group = lengths[i:i + k]
        i += k
        fws = []
        used_ids = set()
        node_pool = rng.sample(range(1, 255), 12)
        for n in group:
            while True:
                key = (rand_id(rng), rand_id(rng))
                if key not in used_ids:
                    used_ids.add(key)
                    break
            nn = 1 if n > 2048 else rng.choice([1, 1, 2, 3])
            nids = [node_pool.pop() for _ in range(nn)]
            fws.append((key[0], key[1], rand_image(rng, n), nids))
        extra = [node_pool.pop()] if rng.random() < 0.3 else []
        sessions.append(make_session(rng, rng.choice(VERSIONS), fws, extra))
    return sessions


def word_cases(rng, n):
    cases = [[], [0], [65535], [65536], [1, 2, 3], [0, 0, 0, 0], [65535] * 5, [256, 255, 4096, 0x4B37],
             [1, 70000, 1], [10 ** 12]]
    for _ in range(n):
        k = rng.choice([1, 3, 3, 4, 5, 8])
        cases.append([rng.choice([0, 1, 255, 256, 65535, rng.randrange(65536), rng.randrange(65536),
                                  rng.randrange(65536), 65536 if rng.random() < 0.05 else 7]) for _ in range(k)])
    return cases


def payload_cases(rng, n):
    cases = [("", 0), ("", 3), ("zz", 1), ("0102", 1), ("010", 1), ("0100010000", 3), ("AbCdEf0011223344aBcD", 5),
             ("0a0002000800374b", 4), ("0a0002000800374b", 3), ("0a00 0200", 2), ("é" * 4, 1), ("０１０２", 1),
             (" 0102", 1), ("0102\n", 1), ("0x01", 1)]
    for _ in range(n):
        k = rng.choice([1, 3, 4, 5])
        text = pack_words(*[rng.randrange(65536) for _ in range(k)])
        r = rng.random()
        if r < 0.15:
            text = text.upper()
        elif r < 0.25:
            text = text[:-1]
        elif r < 0.35:
            j = rng.randrange(len(text))
            text = text[:j] + rng.choice("gG xZ-é٠") + text[j + 1:]
        elif r < 0.45:
            k = rng.choice([1, 3, 4, 5])
        cases.append((text, k))
    return cases


def hex_cases(tier, rng):
    """(name, text, expected bytes | None (= no expectation: damaged file))"""
    cases = []
    sizes = [1, 15, 16, 17, 255, 256, 300, 1000]
    bases = [0, 0x100, 0x7000, 0x12345, 0xFFF0, 0xFFFF0, 0xFFFFF000]
    reclens = [1, 16, 32, 255]
    for reclen in reclens:
        for base in bases:
            for size in sizes:
                if tier == "quick" and (rng.random() < 0.45 and size not in (1, 300) or
                                        reclen == 1 and size == 1000 and base not in (0, 0xFFF0)):
                    continue
                img = rand_image(rng, size)
                cases.append((f"plain/{reclen}/{base:#x}/{size}", write_ihex(img, base, reclen), img,
                              ("plain", base, reclen, img)))
    big = [4096] if tier == "quick" else [4096, 32768]
    for size in big:
        for reclen, base in ((16, 0), (32, 0x7000), (255, 0x12345), (16, 0xFFF0)):
            img = rand_image(rng, size)
            cases.append((f"plain/{reclen}/{base:#x}/{size}", write_ihex(img, base, reclen), img,
                          ("plain", base, reclen, img)))
    variants = (120 if tier == "quick" else 1500) * common.effort(tier)
    for _ in range(variants):
        size = rng.choice([1, 5, 16, 33, 100, 257, 600])
        reclen = rng.choice(reclens + [7, 64])
        base = rng.choice(bases)
        img = rand_image(rng, size)
        kind = rng.choice(["crlf", "cr", "lower", "segment", "start5", "start3", "force", "noeof", "blank", "shuffle",
                           "trailer", "gap", "noeol"])
        if kind == "crlf":
            text = write_ihex(img, base, reclen, eol="\r\n")
        elif kind == "cr":
            text = write_ihex(img, base, reclen, eol="\r")
        elif kind == "lower":
            text = write_ihex(img, base, reclen, lower=True)
        elif kind == "segment":
            base = rng.choice([0, 0x100, 0x7000, 0x12345, 0xFFF0, 0xF0000])
            text = write_ihex(img, base, reclen, mode="segment")
        elif kind == "start5":
            text = write_ihex(img, base, reclen, start="linear")
        elif kind == "start3":
            text = write_ihex(img, base, reclen, start="segment")
        elif kind == "force":
            text = write_ihex(img, base, reclen, force_ext=True)
        elif kind == "noeof":
            text = write_ihex(img, base, reclen, eof=False)
        elif kind == "blank":
            text = write_ihex(img, base, reclen, blank=True)
        elif kind == "shuffle":
            text = write_ihex(img, base, reclen, shuffle=rng)
        elif kind == "trailer":
            text = write_ihex(img, base, reclen, trailer="this is not a record\n:00")
        elif kind == "noeol":
            text = write_ihex(img, base, reclen).rstrip("\n")
        else:
            gap = rng.choice([1, 3, 16, 200])
            img2 = rand_image(rng, rng.choice([1, 20]))
            l1, cur = ihex_lines(img, base, reclen)
            l2, _ = ihex_lines(img2, base + len(img) + gap, reclen, cur=cur)
            text = "\n".join(l1 + l2 + [ihex_record(1, 0, [])]) + "\n"
            img = img + b"\xff" * gap + img2
        cases.append((kind, text, img, None))
    cases.append(("empty", "", b"", None))
    cases.append(("only-eof", ":00000001FF\n", b"", None))
    cases.append(("blank-lines", "\n\r\n\n", b"", None))
    # damaged files: correspondence only
    damaged = (80 if tier == "quick" else 1200) * common.effort(tier)
    for _ in range(damaged):
        size = rng.choice([1, 16, 40, 100])
        reclen = rng.choice([4, 16, 32])
        base = rng.choice([0, 0x100, 0xFFF8, 0x12345])
        img = rand_image(rng, size)
        lines = write_ihex(img, base, reclen).split("\n")[:-1]
        kind = rng.choice(["flip", "dup", "nocolon", "odd", "type6", "eofdata", "len", "nonhex", "unicode", "space",
                           "ext3", "start2", "extaddr", "short", "tab"])
        j = rng.randrange(len(lines))
        if kind == "flip":
            k = rng.randrange(1, len(lines[j]))
            c = lines[j][k]
            lines[j] = lines[j][:k] + rng.choice([x for x in "0123456789ABCDEF" if x != c]) + lines[j][k + 1:]
        elif kind == "dup":
            lines.insert(j, lines[j])
        elif kind == "nocolon":
            lines[j] = lines[j][1:]
        elif kind == "odd":
            lines[j] = lines[j][:-1]
        elif kind == "type6":
            lines.insert(j, ihex_record(6, 0, [1, 2]))
        elif kind == "eofdata":
            lines[-1] = ihex_record(1, 0, [0])
        elif kind == "len":
            body = bytes.fromhex(lines[j][1:])
            body = bytes([(body[0] + 1) & 0xFF]) + body[1:-1]
            lines[j] = ":" + (body + bytes([(-sum(body)) & 0xFF])).hex().upper()
        elif kind == "nonhex":
            k = rng.randrange(1, len(lines[j]))
            lines[j] = lines[j][:k] + rng.choice("GgxZ:") + lines[j][k + 1:]
        elif kind == "unicode":
            k = rng.randrange(1, len(lines[j]))
            lines[j] = lines[j][:k] + rng.choice("é١１") + lines[j][k + 1:]
        elif kind == "space":
            lines[j] = rng.choice([" " + lines[j], lines[j] + " ", lines[j][:3] + " " + lines[j][3:]])
        elif kind == "ext3":
            lines.insert(j, ihex_record(4, 0, [0, 0, 1]))
        elif kind == "start2":
            lines.insert(0, ihex_record(5, 0, [0, 0, 0, 1]))
            lines.insert(j + 1, ihex_record(3, 0, [0, 0, 0, 2]))
        elif kind == "extaddr":
            lines.insert(j, ihex_record(rng.choice([2, 4]), 1, [0, 0]))
        elif kind == "short":
            lines[j] = rng.choice([":", ":00", ":0000", ":000000", ":00000001"])
        elif kind == "tab":
            lines[j] = lines[j] + "\t"
        cases.append(("damaged-" + kind, "\n".join(lines) + "\n", None, None))
    return cases


# ------------------------------------------------------------------------------------------
# run
# ------------------------------------------------------------------------------------------

def run(tier, seed, driver):
    logging.disable(logging.CRITICAL)
    res = Result()
    rng = random.Random(seed * 7919 + 9)
    ops = []      # driver lines
    impl = []     # what the real code gave, same format
    names = []

    def add(name, line, real):
        names.append(name)
        ops.append(line)
        impl.append(real)

    # 1. prepare_fw on every image length of the tier ---------------------------------------
    lengths = image_lengths(tier, rng)
    for n in lengths:
        img = rand_image(rng, n)
        fw = real_prepare(img)
        add("prepare_fw", "OTAPREP " + show_hex(img), f"{fw['blocks']} {fw['crc']} {show_hex(fw['data'])}")
        why = oracle_prepare(img, fw)
        if why:
            res.oracle_failures.append({"key": {"kind": "prepare", "what": why.split(" ")[0]}, "what": why,
                                        "replay": {"op": "prepare", "image": img.hex()}})
        res.distinct.add(digest(["prep", n, fw["crc"]]))
        res.count("prepare_fw:len%128=" + ("0" if n % 128 == 0 else "127" if n % 128 == 127 else
                                            "1" if n % 128 == 1 else "other"))
    # 2. CRC on arbitrary byte strings ------------------------------------------------------
    from mysensors import ota
    crc_data = [b"", b"123456789", b"\x00", b"\xff", bytes(range(256))]
    crc_data += [rng.randbytes(rng.choice([1, 2, 3, 7, 16, 100, 1000])) for _ in range(60 if tier == "quick" else 600)]
    for d in crc_data:
        c = ota.compute_crc(d)
        add("compute_crc", "OTACRC " + show_hex(d), str(c))
        if c != own_crc(d):
            res.oracle_failures.append({"key": {"kind": "crc"}, "what": f"compute_crc {c} != CRC-16/MODBUS {own_crc(d)}",
                                        "replay": {"op": "crc", "data": d.hex()}})
        res.count("compute_crc")
    # 3. word packing -----------------------------------------------------------------------
    for ws in word_cases(rng, 150 if tier == "quick" else 3000):
        r = real_fw_int_to_hex(ws)
        add("fw_int_to_hex", "OTAFWHEX " + (",".join(map(str, ws)) or "-"), r)
        res.count("fw_int_to_hex:" + r.split(" ")[0])
        if r.startswith("ok"):
            text = common.dec_str(r[3:])
            back = unpack_words(text, len(ws))
            if back != list(ws) or real_fw_hex_to_int(text, len(ws)) != "ok " + (",".join(map(str, ws)) or "-"):
                res.oracle_failures.append({"key": {"kind": "pack"}, "what": f"words {ws} do not survive the round trip",
                                            "replay": {"op": "words", "words": ws}})
    for text, k in payload_cases(rng, 200 if tier == "quick" else 4000):
        r = real_fw_hex_to_int(text, k)
        add("fw_hex_to_int", f"OTAFWINT {enc_str(text)} {k}", r)
        res.count("fw_hex_to_int:" + r.split(" ")[0])
    # 4. full sessions on a real gateway ----------------------------------------------------
    sessions = build_sessions(rng, session_lengths(tier, rng))
    n_req = 0
    for sess in sessions:
        obs = run_session_real(sess)
        wire = session_wire(sess)
        add("session-gw", wire[0], "ok")
        for w, ob in zip(wire[1:], obs):
            add("session", w, ob.line())
        n_req += sum(1 for e in sess.expect if e)
        for kind, why in oracle_session(sess, obs):
            res.oracle_failures.append({"key": {"kind": "session", "what": kind}, "what": why,
                                        "replay": session_replay(sess)})
        res.count("session:firmwares=%d" % len(sess.fws))
        res.count("session:nodes=%d" % sum(len(f[3]) for f in sess.fws))
        res.distinct.add(digest(["sess", [(t, v, len(i), len(n)) for t, v, i, n in sess.fws], sess.version]))
    res.count("stream-requests", n_req)
    # block payload as a pure function (any index, incl. beyond the end)
    for _ in range(60 if tier == "quick" else 1500):
        img = rand_image(rng, rng.choice([1, 16, 127, 128, 129, 300]))
        fw = real_prepare(img)
        t, v = rand_id(rng), rand_id(rng)
        i = rng.choice([0, 1, fw["blocks"] - 1, fw["blocks"], 65535, rng.randrange(fw["blocks"])])
        payload = ota.fw_int_to_hex(t, v, i) + fw["data"][i * 16:i * 16 + 16].hex()
        add("block-payload", f"OTABLK {t} {v} {i} {show_hex(fw['data'])}", "ok " + enc_str(payload))
    # 5. Intel HEX ---------------------------------------------------------------------------
    workdir = tempfile.mkdtemp(prefix="verif-c09-")
    try:
        for name, text, want, plain in hex_cases(tier, rng):
            got = real_load_fw(text, workdir)
            if isinstance(got, Oversized):
                oversized = res.histogram.get("load_fw:oversized", 0)
                res.count("load_fw:oversized")
                if oversized >= 6:
                    break           # enough evidence; every further one costs the time cap
                res.oracle_failures.append({
                    "key": {"kind": "intel-hex-oversized", "what": name.split("/")[0]},
                    "what": f"load_fw on a {name} file of {len(text)} characters produced {got.decode()}",
                    "replay": {"op": "ihex", "text": text, "want": bytes(want or b"").hex()}})
                continue
            add("load_fw:" + name.split("/")[0], "IHEXLOAD " + enc_str(text), "none" if got is None else "ok " + show_hex(got))
            res.count("load_fw:" + name.split("/")[0] + (":none" if got is None else ":ok"))
            if want is not None:
                if got is None or bytes(got) != bytes(want):
                    res.oracle_failures.append({
                        "key": {"kind": "intel-hex", "what": name.split("/")[0]},
                        "what": f"load_fw on a {name} file gave {'None' if got is None else len(got)} bytes, "
                                f"the file encodes {len(want)}",
                        "replay": {"op": "ihex", "text": text, "want": bytes(want).hex()}})
                res.distinct.add(digest(["hex", name, len(want)]))
            if plain is not None:
                _, base, reclen, img = plain
                add("hex-writer", f"IHEXWRITE {base} {reclen} {show_hex(img)}", enc_str(text))
    finally:
        shutil.rmtree(workdir, ignore_errors=True)
    # correspondence -------------------------------------------------------------------------
    res.evaluations = len(ops)
    res.rule = ("prepare_fw: every image length of the tier (quick: 1..300, +-2 around 512/1024/4096, 32767..32769, "
                "random 16-/128-byte boundaries; thorough: 1..4096, every 128-boundary +-1 to 32768, random 16-"
                "boundaries to 32768), contents random / all-FF / all-00 / extremes; sessions: real gateways (all "
                "five protocol versions) with 1-3 firmwares, 1-4 updating nodes, shuffled + repeated + out-of-range "
                "block requests interleaved across nodes, cross-firmware requests, idle nodes; Intel-HEX: own writer, "
                "record lengths 1/16/32/255(+7,64), bases 0/0x100/0x7000/0x12345/0xFFF0/0xFFFF0/0xFFFFF000, "
                "variants CRLF/CR/lower/segment/start/shuffled/gap/no-EOF/trailer, 15 kinds of damage. "
                "non-trivial = the real code produced a firmware / a reply / loaded bytes; distinct by "
                "(length, crc) / session shape / file shape")
    if driver is not None:
        try:
            model = driver.run(ops)
        except Exception as exc:  # noqa: BLE001
            res.corr_diffs.append({"name": "ota-driver", "case": "driver", "model": str(exc)[:300], "impl": ""})
            model = None
        if model is not None:
            for name, op, a, b in zip(names, ops, model, impl):
                if name == "session":
                    a, b = a.split(" ", 1)[0], b.split(" ", 1)[0]      # C09 projection: the emitted lines
                if a != b:
                    res.corr_diffs.append({"name": name, "case": op[:300], "model": a[:300], "impl": b[:300]})
                    if len(res.corr_diffs) > 20:
                        break
            res.traces_validated = len(ops)
    for name in names:
        res.count("corr:" + name.split(":")[0])
    s0 = sessions[0]
    res.sample({"session": {"version": s0.version, "firmwares": [(t, v, len(i), n) for t, v, i, n in s0.fws],
                            "ops": len(s0.ops)}})
    res.sample({"prepare_fw": {"len": lengths[127], "impl": impl[127][:60]}})
    res.sample({"load_fw": names[-1], "text": ops[-1][:80]})
    res.extra["stream_requests"] = n_req
    res.extra["sessions"] = len(sessions)
    res.extra["images"] = len(lengths)
    return res


def replay(payload):
    logging.disable(logging.CRITICAL)
    r = payload.get("replay", {})
    print({k: (v if len(str(v)) < 200 else str(v)[:200] + "...") for k, v in payload.items() if k != "replay"})
    kind = r.get("op")
    drv = common.Driver()
    if kind == "prepare":
        img = bytes.fromhex(r["image"])
        fw = real_prepare(img)
        print("impl: blocks", fw["blocks"], "crc", fw["crc"], "len", len(fw["data"]))
        print("oracle:", oracle_prepare(img, fw))
        print("model:", drv.run(["OTAPREP " + show_hex(img)])[0][:80])
        return 1 if oracle_prepare(img, fw) else 0
    if kind == "crc":
        from mysensors import ota
        d = bytes.fromhex(r["data"])
        print("impl:", ota.compute_crc(d), "independent:", own_crc(d), "model:", drv.run(["OTACRC " + show_hex(d)]))
        return 1 if ota.compute_crc(d) != own_crc(d) else 0
    if kind == "words":
        print("impl:", real_fw_int_to_hex(r["words"]))
        return 0
    if kind == "ihex":
        workdir = tempfile.mkdtemp(prefix="verif-c09-")
        try:
            got = real_load_fw(r["text"], workdir)
        finally:
            shutil.rmtree(workdir, ignore_errors=True)
        print("impl:", None if got is None else bytes(got).hex()[:200])
        print("want:", r["want"][:200])
        print("model:", drv.run(["IHEXLOAD " + enc_str(r["text"])])[0][:200])
        return 0 if got is not None and bytes(got).hex() == r["want"] else 1
    if kind == "session":
        fws = [(t, v, bytes.fromhex(img), nids) for t, v, img, nids in r["fws"]]
        ops = [("L", o[1]) if o[0] == "L" else ("U", o[1], o[2], o[3], bytes.fromhex(o[4])) for o in r["ops"]]
        expect = [None if e is None else tuple(e) for e in r["expect"]]
        sess = Session(r["version"], fws, ops, expect)
        obs = run_session_real(sess)
        model = drv.run(session_wire(sess))[1:]
        fails = oracle_session(sess, obs)
        for op, ob, m in zip(sess.ops, obs, model):
            if op[0] == "L":
                sent = m.split(" ", 1)[0][5:]
                shown = [] if sent == "-" else [common.dec_str(x).strip() for x in sent.split("|")]
                print("op:", op[1].strip(), "| impl:", [s.strip() for s in ob.sent], ob.exc or "",
                      "| model:", shown)
        print("oracle:", fails or "ok")
        return 1 if fails else 0
    print("unknown replay kind")
    return 2
