"""C10 — OTA sessions are gated, restartable and terminate.

Family check (gwfam): state-aware histories biased to update calls, stream requests, set messages and
node presentations over several nodes; the real code is judged by gw_spec's reference session automaton
(reply of every stream step) *and* by this module's own transcription of the property (`c10_oracle`:
session per node read off the three stores, reboot reply of every set message, no firmware response
outside the automaton); the Lean model runs the same ops and is compared on (sent lines, stores +
firmware table, reboot flags).
"""
import re

from . import gwfam, gw_spec
from .common import dec_str, enc_str

THEOREMS = [
    "MySensors.C10.stores_invariant", "MySensors.C10.invariant_step", "MySensors.C10.tables",
    "MySensors.C10.config_refines", "MySensors.C10.block_refines", "MySensors.C10.three_words",
    "MySensors.C10.update_refines", "MySensors.C10.config_step", "MySensors.C10.block_step",
    "MySensors.C10.step_sent", "MySensors.C10.gated", "MySensors.C10.gated_history",
    "MySensors.C10.gated_history_fresh", "MySensors.C10.config_repeated_then_withheld",
    "MySensors.C10.update_restarts", "MySensors.C10.malformed_noop", "MySensors.C10.malformed_noop_logic",
    "MySensors.C10.unknown_node_noop", "MySensors.C10.reboot_persists", "MySensors.C10.set_gets_reboot",
    "MySensors.C10.set_gets_reboot_awake", "MySensors.C10.presentation_clears",
    "MySensors.C10.reboot_until_presented",
]
ASSUMPTIONS = [
    "Model/Gateway.lean mirrors ota.py (_get_fw store migration, respond_fw, respond_fw_config, make_update), "
    "handler.py (handle_stream, handle_set, handle_presentation) and the inline pump; sampled by the correspondence "
    "on sent lines, the three stores, the firmware table (blocks, crc) and the reboot flags after every op",
    "interpretation (DESIGN.md 6): malformed = payload does not unpack to the required number of 16-bit words; a "
    "well-formed block request with an out-of-range index gets the header and an empty block; a well-formed block "
    "request for a type/version without firmware moves the session to fetching without a reply",
    "sent lines are stated at the level of Gateway.logic; the MQTT transport only drops lines (C10.step_sent)",
    "sessions do not survive a restart of the gateway (fresh OTAFirmware); histories of reboot_until_presented "
    "exclude restarts",
]
def session_burst(rng, version, hist):
    """Weave one scripted session (update, config / block requests with the session's own type and version,
    malformed requests, set messages, a re-presentation, a second update) into a generated history, after a
    node presentation, keeping the script's order."""
    from . import gw
    if rng.random() < 0.2:
        return hist
    presented = [(i, int(op[1].split(";")[0])) for i, op in enumerate(hist)
                 if op[0] == "L" and re.match(r"^\d+;255;0;0;\d+;", op[1])]
    if not presented:
        hist = [("L", f"1;255;0;0;17;{version}\n")] + hist
        presented = [(0, 1)]
    i0, node = rng.choice(presented)
    const = gw.const_for(version)
    t, v = rng.choice([(1, 1), (1, 2), (2, 1), (65535, 65535), (0, 0)])
    img = bytes(rng.randrange(256) for _ in range(rng.choice([1, 17, 128, 200, 300])))
    blocks = (len(img) // 128 + 1) * 8
    child = rng.choice([0, 1, 5])
    script = [("L", f"{node};{child};0;0;{int(rng.choice(list(const.Presentation)))};\n"),
              ("U", [node] + rng.choice([[], [], [rng.choice([2, 3, 9, 254])]]), t, v, img)]
    for _ in range(rng.choice([3, 6, 10, 16])):
        r = rng.random()
        if r < 0.3:
            if rng.random() < 0.3:
                # the node reports exactly the firmware it is scheduled for (it was flashed before, or asks again
                # after a restarted update): still a config request of a scheduled node, still answered
                from .gw_spec import crc_modbus, pad_fw
                data = pad_fw(img)
                words = (t, v, len(data) // 16, crc_modbus(data), rng.choice([0, 0x0201]))
            else:
                words = (t, v, rng.randrange(100), rng.randrange(65536), 0)
            script.append(("L", f"{node};255;4;0;0;{gw.fw_hex(*words)}\n"))
        elif r < 0.65:
            idx = rng.choice([0, 1, blocks - 1, blocks, rng.randrange(blocks), 65535])
            script.append(("L", f"{node};255;4;0;2;{gw.fw_hex(t, v, idx)}\n"))
        elif r < 0.75:
            script.append(("L", gw.gen_stream(rng, const, node)))
        elif r < 0.87:
            sub = rng.choice(list(const.SetReq))
            script.append(("L", f"{node};{child};1;{rng.choice([0, 1])};{int(sub)};"
                                f"{gw.valid_payload_for(rng, const, 1, sub)}\n"))
        elif r < 0.93:
            script.append(("U", [node], t, v, rng.choice([None, None, img[:5], b""])))
        else:
            script.append(("L", f"{node};255;0;0;17;{version}\n"))
    out = list(hist)
    pos = i0 + 1
    for op in script:
        pos = rng.randrange(pos, len(out) + 1)
        out.insert(pos, op)
        pos += 1
    return out


CFG = {"post": [session_burst], "quick": 300, "thorough": 8000, "persist": ["none", "none", "none", "json"], "lengths": [14, 28, 45],
       "bias": {"update": 3.5, "stream": 6, "set": 1.4, "pres_node": 1.3, "pres_child": 1.2, "req": 0.4,
                "internal": 0.4, "ctl_set": 0.3, "idreq": 0.5, "restart": 1.5},
       "malformed": 0.08}


# ------------------------------------------------------------------------------------------
# this property's own oracle on the real code's observations
# ------------------------------------------------------------------------------------------

def gw_file_as_update(op):
    from . import gw
    return gw.file_as_update(op)


NODE_RE = re.compile(r"N(-?\d+)\{([^{}]*)\}")


def parse_state(st):
    """{node: {"children": set, "sleeping": bool, "queue": [str], "reboot": bool}} from Obs.state."""
    out = {}
    for nid, body in NODE_RE.findall(st or ""):
        ch = re.search(r"C\[([^\]]*)\]", body).group(1)
        ds = re.search(r"D\[([^\]]*)\]", body).group(1)
        q = re.search(r"Q\[([^\]]*)\]", body).group(1)
        out[int(nid)] = {
            "children": {int(c.split(":")[0]) for c in ch.split(";") if c},
            "sleeping": ds != "",
            "queue": [dec_str(x) for x in q.split(";")] if q else [],
            "reboot": ",r=1," in body,
        }
    return out


def parse_sessions(ota):
    """{node: (state, (t, v))} from Obs.ota; a node in two stores -> state 'CLASH'."""
    m = re.match(r"req=\(([^)]*)\) unst=\(([^)]*)\) st=\(([^)]*)\) fw=\(([^)]*)\)", ota)
    out = {}
    for name, body in zip(("requested", "offered", "fetching"), m.groups()[:3]):
        for ent in body.split(","):
            if ent:
                n, t, v = map(int, ent.split(":"))
                out[n] = ("CLASH", None) if n in out else (name, (t, v))
    return out


def c10_oracle(hist, obs, version):
    from mysensors.const import get_const
    const = get_const(version)
    st_req, st_cfg = int(const.Stream.ST_FIRMWARE_REQUEST), int(const.Stream.ST_FIRMWARE_CONFIG_REQUEST)
    st_resp, st_cfg_resp = int(const.Stream.ST_FIRMWARE_RESPONSE), int(const.Stream.ST_FIRMWARE_CONFIG_RESPONSE)
    i_reboot = int(const.Internal.I_REBOOT)
    sessions, firmware, reboot = {}, {}, set()
    fails = []
    prev_nodes = {}

    def flag(kind, what, at, **key):
        k = {"kind": kind}
        k.update(key)
        fails.append({"prop": "C10", "key": k, "what": what, "at": at})

    for at, (op, ob) in enumerate(zip(hist, obs)):
        nodes = parse_state(ob.state)
        expected_fw = None          # the firmware response the automaton prescribes in this step
        expected_reboot = None      # the reboot request this step's set message earns
        if ob.exc is not None:
            # C01 reports the exception; the automaton cannot follow a half-done step
            if op[0] == "L" and (gw_spec.accepted(op[1], version) or (0, 0, 0))[2] == 4:
                flag("stream-request-raised", f"stream request raised {ob.exc}", at, exc=ob.exc)
            return fails
        if op[0] == "F":
            op = gw_file_as_update(op) or ("T", 0)
        if op[0] == "U":
            _, nids, fwt, fwv, image = op
            ok = True
            try:
                fwt, fwv = int(fwt), int(fwv)
            except ValueError:
                ok = False
            ok = ok and 0 <= fwt <= 0xFFFF and 0 <= fwv <= 0xFFFF
            if image is not None and len(image) == 0:
                ok = False       # a firmware file without data: update_fw does nothing
            if ok and image is not None:
                data = gw_spec.pad_fw(image)
                ok = len(data) // 16 <= 0xFFFF
                if ok:
                    firmware[(fwt, fwv)] = data
            if ok and (fwt, fwv) in firmware:
                for nid in nids:
                    if nid in prev_nodes:
                        sessions[nid] = ("requested", (fwt, fwv))
                        reboot.add(nid)
        elif op[0] == "R":
            sessions, firmware, reboot = {}, {}, set()
        elif op[0] == "L":
            f = gw_spec.accepted(op[1], version)
            if f is not None:
                node, child, typ, ack, sub, payload = f
                if typ == 0 and child == 255:
                    reboot.discard(node)
                elif typ == 4 and node in prev_nodes:
                    state, fid = sessions.get(node, ("idle", None))
                    if sub == st_cfg and gw_spec.unpack_words(payload, 5) is not None \
                            and state in ("requested", "offered"):
                        sessions[node] = ("offered", fid)
                        data = firmware.get(fid)
                        if data is not None:
                            expected_fw = gw_spec.canon(node, child, 4, ack, st_cfg_resp, gw_spec.hexw(
                                fid[0], fid[1], len(data) // 16, gw_spec.crc_modbus(data)))
                    elif sub == st_req and state in ("offered", "fetching"):
                        w = gw_spec.unpack_words(payload, 3)
                        if w is not None:
                            sessions[node] = ("fetching", fid)
                            data = firmware.get((w[0], w[1]))
                            if data is not None:
                                expected_fw = gw_spec.canon(node, child, 4, ack, st_resp,
                                                            gw_spec.hexw(*w) + data[w[2] * 16: w[2] * 16 + 16].hex())
                    if ob.sent != ([expected_fw] if expected_fw else []):
                        flag("stream-reply-differs", f"stream request got {ob.sent!r}, automaton prescribes "
                             f"{expected_fw!r} in session {state}", at, session=state)
                elif typ == 1 and node in prev_nodes and child in prev_nodes[node]["children"]:
                    line = gw_spec.canon(node, 255, 3, 0, i_reboot, "")
                    before = prev_nodes[node]
                    after = nodes.get(node, before)
                    if node in reboot:
                        expected_reboot = line
                        if before["sleeping"]:
                            good = ob.sent == [] and after["queue"] == before["queue"] + [line]
                        else:
                            good = ob.sent == [line]
                        if not good:
                            flag("reboot-reply-missing", f"set message of rebooting node {node} got {ob.sent!r} "
                                 f"(queue {after['queue']!r})", at, sleeping=before["sleeping"])
                    elif line in ob.sent or after["queue"] != before["queue"]:
                        flag("unexpected-reboot", f"set message of node {node} outside a reboot phase got {ob.sent!r}", at)
        # gated: no firmware response in any step unless the automaton prescribes exactly it; no reboot
        # request unless this step's set message earns it or a wake-up delivers a withheld one
        for s in ob.sent:
            parts = s.split(";")
            if len(parts) >= 6 and parts[2] == "4" and parts[4] in (str(st_resp), str(st_cfg_resp)) and s != expected_fw:
                flag("ungated-firmware-response", f"{s!r} sent, automaton prescribes {expected_fw!r}", at)
            if len(parts) >= 6 and parts[2] == "3" and parts[4] == str(i_reboot) and s != expected_reboot:
                try:
                    withheld = s in prev_nodes.get(int(parts[0]), {}).get("queue", [])
                except ValueError:
                    withheld = False
                if not withheld:
                    flag("unexpected-reboot", f"{s!r} sent outside a reboot phase", at)
        # the stores abstract to the automaton's sessions; reboot flags follow update / presentation
        real = parse_sessions(ob.ota)
        if real != sessions:
            flag("session-differs", f"stores hold {real!r}, automaton {sessions!r}", at, op=op[0])
            return fails
        real_reboot = {n for n, d in nodes.items() if d["reboot"]}
        if real_reboot != {n for n in reboot if n in nodes}:
            flag("reboot-flag-differs", f"reboot flags {sorted(real_reboot)}, expected {sorted(reboot)}", at, op=op[0])
            return fails
        prev_nodes = nodes
    return fails


class _Patched:
    """gwfam calls gw_spec.judge; add this module's oracle to it for the duration of a C10 run."""

    def __enter__(self):
        self.orig = gw_spec.judge
        orig = self.orig

        def judge(hist, obs, version, kind="base", persist="none"):
            return orig(hist, obs, version, kind, persist) + c10_oracle(hist, obs, version)
        gw_spec.judge = judge
        return self

    def __exit__(self, *a):
        gw_spec.judge = self.orig


def relevant(hist, obs):
    """a firmware response was sent, or a reboot request was produced"""
    for o in obs:
        sent = o.split(" ")[0][5:]
        if sent == "-":
            continue
        for s in sent.split("|"):
            p = dec_str(s).split(";")
            if len(p) >= 6 and ((p[2] == "4" and p[4] in ("1", "3")) or (p[2] == "3" and p[4] == "13")):
                return True
    return False


def reboot_window(version, node_version, ptype):
    """node presented, a firmware update scheduled, a set message (answered with a reboot request), the node
    presents itself again with library version `node_version` as node type `ptype`, another set message.
    Returns (reply to the first set, reply to the second set) or a text when something raised."""
    from . import persist_util as pu
    gw = pu.make_gateway(version)
    try:
        gw.logic(f"1;255;0;0;17;{version}\n")
        gw.logic("1;0;0;0;3;\n")
        gw.tasks.ota.make_update([1], 1, 1, bytes(range(64)))
        first = gw.logic("1;0;1;0;2;1\n")
        gw.logic(f"1;255;0;0;{ptype};{node_version}\n")
        second = gw.logic("1;0;1;0;2;0\n")
    except Exception as exc:  # noqa: BLE001
        return f"raised {type(exc).__name__}: {exc}"
    return first, second


def reboot_window_part(res):
    """Real code only (pre-release library versions are outside the model's version grammar): the reboot
    requests stop when the node has presented itself again, whatever valid library version and node type the
    presentation carries."""
    from . import c03
    spec = c03.load_spec()
    for version in ("1.4", "1.5", "2.0", "2.1", "2.2"):
        for nv in ("2.3.2", "2.2.0-beta", "2.4.0-alpha", "2.0.0-rc.1+build.7", "1.4.1", "v2.2"):
            for ptype in (17, 18):
                if c03.spec_accepts(spec, version, 1, 255, 0, 0, ptype, nv) is not True:
                    continue
                got = reboot_window(version, nv, ptype)
                res.evaluations += 1
                res.count("reboot-window")
                bad = None
                if isinstance(got, str):
                    bad = got
                elif got[0] != "1;255;3;0;13;\n":
                    bad = f"the set message of the scheduled node was answered with {got[0]!r}, not a reboot request"
                elif got[1] is not None:
                    bad = f"after the node presented itself again its set message is still answered with {got[1]!r}"
                if bad:
                    res.oracle_failures.append({
                        "key": {"kind": "reboot-window", "what": "raised" if isinstance(got, str) else "reply"},
                        "replay": {"op": "reboot-window", "version": version, "node_version": nv, "ptype": ptype},
                        "what": f"gateway {version}, node presenting again as type {ptype} with library version {nv!r}: {bad}"})


def run(tier, seed, driver):
    with _Patched():
        res = gwfam.run_family("C10", tier, seed, driver, CFG, relevant)
    reboot_window_part(res)
    res.rule = ("state-aware random histories over all versions/kinds biased to update calls (single ids, lists, unknown "
                "ids, missing image, out-of-range type/version), stream requests (well-formed, truncated, non-hex, other "
                "type/version, out-of-range index, other sub-types), set messages, node presentations, smart-sleep "
                "wake-ups and stop/restart; corpus first (D1 replays, full sessions, reboot phases); non-trivial = a "
                "firmware response or a reboot request was emitted; distinct by op script")
    res.extra["oracles"] = ["gw_spec reference automaton (reply of every stream step)",
                            "c10_oracle (sessions read off the stores, reboot replies, gating of every sent line)"]
    return res


def replay(payload):
    r = payload.get("replay") or {}
    if r.get("op") == "reboot-window":
        got = reboot_window(r["version"], r["node_version"], r["ptype"])
        print("replies to the set messages before / after the second presentation:", got)
        return 0 if not isinstance(got, str) and got[0] == "1;255;3;0;13;\n" and got[1] is None else 1
    with _Patched():
        return gwfam.replay_family("C10", payload)


_ = enc_str
