"""C11 — persistence round trip in both formats.  Real `save_sensors` / `safe_load_sensors` on
generated networks (built by feeding lines to a real gateway, and constructed directly from the
real classes), compared with the original's persisted projection (oracle), JSON against pickle
(oracle), and with the Lean model of the encoder/decoder hooks (driver P11)."""
import os
import random
import tempfile

from . import common
from . import persist_util as pu
from .common import Result, digest

THEOREMS = [
    "MySensors.C11.json_round_trip", "MySensors.C11.pickle_round_trip", "MySensors.C11.formats_agree",
    "MySensors.C11.persisted_exact", "MySensors.C11.transient_not_restored",
    "MySensors.C11.pickle_state_contains_transients", "MySensors.C11.setter_values_ok",
    "MySensors.C11.inv_of_bounds", "MySensors.C11.negative_key_counterexample", "MySensors.C11.sample_inv",
    "MySensors.C11.inv_of_emitInv", "MySensors.C11.reachable_round_trip", "MySensors.C11.nodup_step",
    "MySensors.C11.round_trip_run",
]
ASSUMPTIONS = [
    "the json and pickle text layers round-trip a tree of dict / list / str / int / bool / None (json: with "
    "every dict key replaced by its str(); integers of at most 4300 digits); the theorems are about the "
    "repo's hooks (MySensorsJSONEncoder.default, dict_to_object, __getstate__/__setstate__, the validating "
    "setters) over that tree; sampled here end to end through the real files",
    "reachability invariant (node ids, child ids and value types non-negative, battery level within 0..100, "
    "protocol version a fixed point of safe_is_version): the per-tree theorems take it as a hypothesis; "
    "round_trip_run (Properties/C11Reach.lean) derives it from the gateway model for every history of inbound "
    "lines and controller calls whose ids are integers (Op.carry), by induction over the history; this run also "
    "checks it on every network built by a real gateway",
    "Python dicts are insertion-ordered association lists with distinct keys; payloads are sequences of "
    "Unicode scalar values (unpaired surrogates are outside Lean's Char: one corpus network with such text is judged on the real code only, without the model)",
    "str.isdigit is modelled on the characters the encoder can write (decimal digits); safe_is_version is "
    "the version model of Model/Version.lean (strings outside its domain count as rejected)",
]


def corpus():
    """Hand-picked networks (label, sensors, exact?)."""
    from collections import deque
    from mysensors.sensor import ChildSensor, Sensor
    out = []
    out.append(("empty", {}, True))
    s = Sensor(0)
    out.append(("bare node 0", {0: s}, True))
    a, b, c = Sensor(255), Sensor(254), Sensor(1)
    a.type = 17
    a.children[0] = ChildSensor(0, 6)                       # child without values, default description
    a.children[255] = ChildSensor(255, 0, "")
    b.children[254] = ChildSensor(254, 23, "\x00\"'\\{}[]:,\n\t\r")
    b.children[254].values = {0: "", 47: "\U0001F600\U0010FFFF", 2: "\x00", 255: "null", 16: "\u2028\u2029\x85"}
    b.sketch_name, b.sketch_version = "", "\"quoted\" \U0001F600"
    b.battery_level, b.heartbeat, b.protocol_version = 100, -7, " 2.1"
    c.type, c.sketch_name, c.heartbeat = 18, "x" * 5000, 10 ** 4299
    c.children[5] = ChildSensor(5, 3, "ünï")
    c.children[5].values[2] = "1"
    c.init_smart_sleep_mode()
    c.new_state[5].values[2] = "0"
    c.new_state[5].values[3] = None
    c.queue = deque(["1;5;1;0;2;0\n", "1;255;3;0;13;\n"])
    c.reboot = True
    out.append(("ids 255/254/1, exotic text, transients", {255: a, 254: b, 1: c}, True))
    # text with unpaired surrogate code points (what a client that decoded bytes with surrogateescape, or
    # json.loads of an escaped surrogate, hands to set_child_value / an MQTT callback): not text the Lean
    # model can hold (Char is a Unicode scalar value), judged on the real code only
    d = Sensor(9)
    d.type, d.sketch_name, d.sketch_version = 17, "K\udcfcche", "\ud800"
    d.children[1] = ChildSensor(1, 36, "caf\udce9")
    d.children[1].values = {47: "\udc80\udcff", 2: "x\ud83d"}
    out.append(("unpaired surrogates", {9: d}, True))
    # outside the invariant (not reachable): what the hooks do is still compared with the model
    n = Sensor(-1)
    out.append(("negative node id", {-1: n}, False))
    n2 = Sensor(3)
    n2.children[-2] = ChildSensor(-2, 6, "neg child")
    out.append(("negative child id", {3: n2}, False))
    n3 = Sensor(4)
    n3.children[1] = ChildSensor(1, 6, "d")
    n3.children[1].values[-5] = "v"
    out.append(("negative value type", {4: n3}, False))
    n4 = Sensor(5)
    n4._battery_level = 150           # bypassing the setter
    n4._protocol_version = "0.9"
    out.append(("unvalidated battery/version", {5: n4}, False))
    return out


def invariant_violation(sensors):
    """The reachability invariant of the theorems, judged on a real network."""
    from mysensors.validation import safe_is_version
    for sid, s in sensors.items():
        if type(sid) is not int or sid < 0:
            return f"node key {sid!r}"
        if type(s.battery_level) is not int or not 0 <= s.battery_level <= 100:
            return f"battery {s.battery_level!r}"
        if safe_is_version(s.protocol_version) != s.protocol_version:
            return f"version {s.protocol_version!r}"
        if type(s.heartbeat) is not int:
            return f"heartbeat {s.heartbeat!r}"
        for cid, c in s.children.items():
            if type(cid) is not int or cid < 0:
                return f"child key {cid!r}"
            for vt in c.values:
                if type(vt) is not int or vt < 0:
                    return f"value type {vt!r}"
    return None


def attributes(obj):
    """every attribute of the loaded objects, recursively (the projection only knows the attributes the
    library has today; an attribute added tomorrow that one format restores and the other does not shows here)"""
    if isinstance(obj, (str, int, float, bool, type(None))):
        return obj
    if isinstance(obj, dict):
        return {repr(k): attributes(v) for k, v in obj.items()}
    if isinstance(obj, (list, tuple)) or type(obj).__name__ == "deque":
        return [type(obj).__name__] + [attributes(x) for x in obj]
    if hasattr(obj, "__dict__"):
        return {"__class__": type(obj).__name__, **{k: attributes(v) for k, v in vars(obj).items()}}
    return repr(obj)


def attr_diff(a, b, path="network"):
    if type(a) is not type(b):
        return path
    if isinstance(a, dict):
        for k in sorted(set(a) | set(b)):
            if k not in a or k not in b:
                return f"{path}.{k}"
            d = attr_diff(a[k], b[k], f"{path}.{k}")
            if d:
                return d
        return None
    if isinstance(a, list):
        if len(a) != len(b):
            return path
        for i, (x, y) in enumerate(zip(a, b)):
            d = attr_diff(x, y, f"{path}[{i}]")
            if d:
                return d
        return None
    return None if a == b else path


def round_trip(sensors, work, fmt):
    path = os.path.join(work, f"rt.{fmt}")
    for p in (path, path + ".bak", pu.tmp_name(path)):
        pu.put(p, None)
    pers = pu.persistence_for(sensors, path)
    pers.save_sensors()
    exc, loaded = pu.fresh_load(path)
    return exc, loaded


def run(tier, seed, driver):
    res = Result()
    rng = random.Random(seed * 7919 + 11)
    work = tempfile.mkdtemp(prefix="verif-c11-")
    try:
        _run(res, rng, tier, driver, work)
    finally:
        pu.rmtree(work)
    return res


def _run(res, rng, tier, driver, work):
    n_gw, n_direct = (40, 160) if tier == "quick" else (700, 4000)
    n_gw, n_direct = n_gw * common.effort(tier), n_direct * common.effort(tier)
    states = corpus()
    for i in range(n_gw):
        version = rng.choice(["1.4", "1.5", "2.0", "2.1", "2.2"])
        audit = []
        states.append((f"gateway {version} #{i}", pu.gateway_state(rng, version, rng.choice([5, 15, 40]), audit), True))
        for nid, cid, vt, value, before, after in audit[:1]:
            res.oracle_failures.append({
                "key": {"kind": "desired-value-persisted"},
                "what": f"gateway {version}: the controller set value type {vt} of child {cid} on the sleeping node {nid} "
                        f"to {value!r}; the node has not confirmed it, yet what a save writes changed "
                        f"({first_diff(before, after)}): a load brings the pending desired value back as a reported one",
                "replay": {"label": f"gateway {version} #{i}", "desired": [nid, cid, vt, value],
                           "before": before[:1500], "after": after[:1500]}})
    for i in range(n_direct):
        states.append((f"direct #{i}", pu.direct_state(rng), True))
    lines, impls, labels = [], [], []
    for label, sensors, exact in states:
        from_gateway = label.startswith("gateway")
        if from_gateway:
            bad = invariant_violation(sensors)
            if bad:
                res.oracle_failures.append({
                    "key": {"kind": "invariant", "what": bad.split(" ")[0]},
                    "what": f"a network built by a real gateway violates the invariant of the theorems: {bad}",
                    "replay": {"label": label}})
        want = pu.project_reset(sensors)
        loaded_proj, loaded_attrs = {}, {}
        for fmt in pu.FORMATS:
            try:
                exc, loaded = round_trip(sensors, work, fmt)
            except Exception as e:  # noqa: BLE001
                res.oracle_failures.append({"key": {"kind": "save-raised", "fmt": fmt, "exc": type(e).__name__},
                                            "what": f"save_sensors raised {type(e).__name__}: {e}",
                                            "replay": {"label": label, "fmt": fmt, "state": want[:2000]}})
                continue
            res.evaluations += 1
            got = pu.project(loaded)
            loaded_proj[fmt] = got
            if exc is None:
                try:
                    loaded_attrs[fmt] = attributes(loaded)
                except Exception:  # noqa: BLE001   (not a mapping of node objects: reported by the projection)
                    pass
            res.count(f"{fmt}:{'gateway' if from_gateway else label.split(' ')[0]}")
            if want != "-":
                res.distinct.add(digest([fmt, want]))
            if exc is not None:
                res.oracle_failures.append({"key": {"kind": "load-raised", "fmt": fmt, "exc": type(exc).__name__},
                                            "what": f"loading the file just saved raised {type(exc).__name__}",
                                            "replay": {"label": label, "fmt": fmt, "state": want[:2000]}})
            elif exact and got != want:
                res.oracle_failures.append({"key": {"kind": "not-exact", "fmt": fmt, "field": first_diff(want, got)},
                                            "what": f"{fmt} round trip is not exact ({first_diff(want, got)})",
                                            "replay": {"label": label, "fmt": fmt, "want": want[:2000], "got": got[:2000]}})
            if pu.typed(sensors) and "surrogate" not in label:
                lines.append(f"P11 {fmt} " + " ".join(pu.wire_state(sensors)))
                impls.append("untyped" if (exc is not None or not pu.typed(loaded)) else "ok " + got)
                labels.append(label)
        where = attr_diff(loaded_attrs["json"], loaded_attrs["pickle"]) if exact and len(loaded_attrs) == 2 else None
        if where and loaded_proj.get("json") == loaded_proj.get("pickle"):
            res.oracle_failures.append({"key": {"kind": "formats-differ", "where": where.split(".")[-1]},
                                        "what": f"JSON and pickle restore different objects: {where} differs "
                                                f"(an attribute outside the persisted projection)",
                                        "replay": {"label": label, "attribute": where}})
        if exact and len(loaded_proj) == 2 and loaded_proj["json"] != loaded_proj["pickle"]:
            res.oracle_failures.append({"key": {"kind": "formats-differ"},
                                        "what": "JSON and pickle restore different networks",
                                        "replay": {"label": label, "json": loaded_proj["json"][:2000],
                                                   "pickle": loaded_proj["pickle"][:2000]}})
    # the gateway's own persistence object over a history with a save in the middle: what the second save
    # writes (it is skipped unless something marked the network changed) must load as the network held then
    n_live = (30 if tier == "quick" else 400) * common.effort(tier)
    for i in range(n_live):
        version = rng.choice(["1.4", "1.5", "2.0", "2.1", "2.2"])
        fmt = pu.FORMATS[i % 2]
        path = os.path.join(work, f"live.{fmt}")
        for p in (path, path + ".bak"):
            if os.path.exists(p):
                os.remove(p)
        gw = pu.make_gateway(version, persistence_file=path)
        hist = pu.history_lines(rng, version, rng.choice([4, 10, 25]))
        if i % 3 == 0:
            hist = [f"1;255;0;0;17;{version}\n", "1;0;0;0;6;t\n", "1;0;1;0;0;20\n"] + hist
        cut = rng.randrange(3 if i % 3 == 0 else 0, len(hist) + 1)
        again = None
        if i % 3 == 1 and i % 2 == 0:
            # between the two saves nothing but a node and a child that present themselves again: the node with
            # the same type and another library version, the child with the same type and another description
            hist = [f"1;255;0;0;17;{version}\n", "1;0;0;0;6;Relay\n"] + hist[:cut]
            cut = len(hist)
            again = [[f"1;255;0;0;17;{'2.3.2' if version != '2.3.2' else '2.2.0'}\n"], ["1;0;0;0;6;Relä köket ✓\n"]][(i // 6) % 2]
        tail = again if again is not None else hist[cut:] + ([] if rng.random() < 0.5 else ["255;255;3;0;3;\n"])
        try:
            for line in hist[:cut]:
                try:
                    pu.feed(gw, line)
                except Exception:  # noqa: BLE001  (other properties' business)
                    pass
            pers = gw.tasks.persistence
            if tail and i % 2 and i % 3:
                # the first line of the tail is handled while the first save writes (after the network was
                # serialised, before the file is swapped in): the second save has to pick it up
                real_action, first, tail = pers._perform_file_action, tail[0], tail[1:]

                def action(filename, what, real_action=real_action, first=first, gw=gw):
                    out = real_action(filename, what)
                    if what == "save":
                        del pers._perform_file_action
                        try:
                            pu.feed(gw, first)
                        except Exception:  # noqa: BLE001
                            pass
                    return out
                pers._perform_file_action = action
            pers.save_sensors()
            pers.__dict__.pop("_perform_file_action", None)
            if i % 3 == 0 and gw.sensors:
                # a firmware update is scheduled for every known node between the two saves: what the nodes
                # report from now on is answered with reboot requests, and is a report like any other
                try:
                    gw.tasks.ota.make_update(list(gw.sensors), 1, 1, bytes(range(48)))
                except Exception:  # noqa: BLE001
                    pass
                reports = [f"{nid};{cid};1;0;{vt};{'1' if str(val) != '1' else '0'}\n"
                           for nid, s_ in gw.sensors.items() for cid, c_ in s_.children.items()
                           for vt, val in list(c_.values.items())[:1]][:3]
                tail = reports or tail        # nothing else happens before the second save
            for line in tail:
                try:
                    pu.feed(gw, line)
                except Exception:  # noqa: BLE001
                    pass
            pers.save_sensors()
        except Exception as e:  # noqa: BLE001
            res.oracle_failures.append({"key": {"kind": "save-raised", "fmt": fmt, "exc": type(e).__name__},
                                        "what": f"save_sensors raised {type(e).__name__}: {e}",
                                        "replay": {"label": f"live #{i}", "fmt": fmt, "lines": hist[:cut] + ["<save>"] + tail}})
            continue
        want = pu.project_reset(gw.sensors)
        exc, loaded = pu.fresh_load(path)
        res.evaluations += 1
        res.count(f"{fmt}:live-gateway")
        if want != "-":
            res.distinct.add(digest(["live", fmt, want]))
        got = "load-raised:" + type(exc).__name__ if exc is not None else pu.project(loaded)
        if got != want:
            res.oracle_failures.append({
                "key": {"kind": "live-not-exact", "fmt": fmt, "field": first_diff(want, got)},
                "what": f"{fmt}: after lines, a save, more lines and a save by the gateway's own persistence object, "
                        f"loading the file does not give the network held ({first_diff(want, got)})",
                "replay": {"label": f"live #{i}", "fmt": fmt, "version": version, "update_between": i % 3 == 0,
                           "lines": hist[:cut] + ["<save>"] + tail, "want": want[:1500], "got": got[:1500]}})
    # lines accepted before the file is loaded (the transport was started before start_persistence()): the
    # load merges the file into what is already held; the next save writes all of it
    for i in range((12 if tier == "quick" else 150) * common.effort(tier)):
        version = rng.choice(["1.4", "1.5", "2.0", "2.1", "2.2"])
        fmt = pu.FORMATS[i % 2]
        path = os.path.join(work, f"early.{fmt}")
        for p in (path, path + ".bak"):
            if os.path.exists(p):
                os.remove(p)
        first = pu.make_gateway(version, persistence_file=path)
        first_lines = [f"1;255;0;0;17;{version}\n", "1;0;0;0;6;t\n", "1;0;1;0;0;20\n"] + pu.history_lines(rng, version, 6)
        for line in first_lines:
            try:
                pu.feed(first, line)
            except Exception:  # noqa: BLE001
                pass
        early = [f"2;255;0;0;17;{version}\n", "2;3;0;0;6;late\n", "2;3;1;0;0;7.5\n"] + pu.history_lines(rng, version, 4)
        try:
            first.tasks.persistence.save_sensors()
            gw = pu.make_gateway(version, persistence_file=path)
            for line in early:
                try:
                    pu.feed(gw, line)
                except Exception:  # noqa: BLE001
                    pass
            gw.tasks.persistence.safe_load_sensors()
            gw.tasks.persistence.save_sensors()
        except Exception as e:  # noqa: BLE001
            res.oracle_failures.append({"key": {"kind": "save-raised", "fmt": fmt, "exc": type(e).__name__},
                                        "what": f"load / save raised {type(e).__name__}: {e}",
                                        "replay": {"label": f"early #{i}", "fmt": fmt}})
            continue
        want = pu.project_reset(gw.sensors)
        exc, loaded = pu.fresh_load(path)
        got = "load-raised:" + type(exc).__name__ if exc is not None else pu.project(loaded)
        res.evaluations += 1
        res.count(f"{fmt}:lines-before-load")
        res.distinct.add(digest(["early", fmt, want]))
        if got != want:
            res.oracle_failures.append({
                "key": {"kind": "early-lines-not-saved", "fmt": fmt, "field": first_diff(want, got)},
                "what": f"{fmt}: lines handled before the file was loaded, then the load and a save: a fresh load does "
                        f"not give the network held ({first_diff(want, got)})",
                "replay": {"label": f"early #{i}", "fmt": fmt, "version": version, "early_lines": early,
                           "first_lines": first_lines,
                           "want": want[:1200], "got": got[:1200]}})
    res.rule = (f"corpus (empty network, bare node 0, ids 1/254/255, children without values, NUL/quotes/braces/"
                f"line separators/astral-plane text, 5000-character name, 4300-digit heartbeat, pending desired values, "
                f"withheld lines, reboot flag; 4 networks outside the invariant) + {n_gw} networks built by feeding "
                f"5–40 lines to a real gateway of a random protocol version + {n_direct} networks constructed from the "
                f"real classes (0–5 nodes of ids 0,1,2,7,100,254,255, 0–3 children, 0–4 values, exotic Unicode text, "
                f"transient smart-sleep state) × both formats; + {n_live} live gateways (lines, save, more lines, save by the "
                f"gateway's own persistence object, fresh load). non-trivial = non-empty network; distinct by "
                f"(format, projection)")
    if driver is not None and lines:
        try:
            out = driver.run(lines)
        except Exception as exc:  # noqa: BLE001
            res.corr_diffs.append({"name": "persist-driver", "case": "driver", "model": str(exc), "impl": ""})
            out = None
        if out is not None:
            for label, line, m, i in zip(labels, lines, out, impls):
                if m != i:
                    res.corr_diffs.append({"name": "persist-hooks", "case": f"{label}: {line[:300]}",
                                           "model": m[:300], "impl": i[:300]})
                    if len(res.corr_diffs) > 20:
                        break
            res.traces_validated = len(lines)
    res.sample({"state": states[2][0], "model_line": lines[4][:300] if len(lines) > 4 else "", "impl": impls[4][:300] if len(impls) > 4 else ""})
    res.sample({"state": states[3][0], "impl(json)": impls[6][:200] if len(impls) > 6 else ""})
    if len(lines) > 40:
        res.sample({"state": labels[40], "model_line": lines[40][:300], "impl": impls[40][:300]})


def first_diff(a, b):
    for i, (x, y) in enumerate(zip(a, b)):
        if x != y:
            lo = max(0, a.rfind(",", 0, i))
            return a[lo:i + 12].split("=")[0].strip(",{[")[:12] or "text"
    return "length"


def replay_live(r):
    """lines, a save, (a firmware update scheduled for every node,) more lines, a save — by the gateway's own
    persistence object; then a fresh load"""
    work = tempfile.mkdtemp(prefix="verif-c11-")
    try:
        path = os.path.join(work, f"live.{r['fmt']}")
        gw = pu.make_gateway(r["version"], persistence_file=path)
        for line in r["lines"]:
            if line == "<save>":
                gw.tasks.persistence.save_sensors()
                if r.get("update_between") and gw.sensors:
                    try:
                        gw.tasks.ota.make_update(list(gw.sensors), 1, 1, bytes(range(48)))
                    except Exception:  # noqa: BLE001
                        pass
                continue
            try:
                pu.feed(gw, line)
            except Exception:  # noqa: BLE001
                pass
        gw.tasks.persistence.save_sensors()
        want = pu.project_reset(gw.sensors)
        exc, loaded = pu.fresh_load(path)
        got = "load-raised:" + type(exc).__name__ if exc is not None else pu.project(loaded)
        print("held  :", want[:1200])
        print("loaded:", got[:1200])
        return 0 if got == want else 1
    finally:
        pu.rmtree(work)


def replay_early(r):
    work = tempfile.mkdtemp(prefix="verif-c11-")
    try:
        path = os.path.join(work, f"early.{r['fmt']}")
        first = pu.make_gateway(r["version"], persistence_file=path)
        for line in r["first_lines"]:
            try:
                pu.feed(first, line)
            except Exception:  # noqa: BLE001
                pass
        first.tasks.persistence.save_sensors()
        gw = pu.make_gateway(r["version"], persistence_file=path)
        for line in r["early_lines"]:
            try:
                pu.feed(gw, line)
            except Exception:  # noqa: BLE001
                pass
        gw.tasks.persistence.safe_load_sensors()
        gw.tasks.persistence.save_sensors()
        want = pu.project_reset(gw.sensors)
        exc, loaded = pu.fresh_load(path)
        got = "load-raised:" + type(exc).__name__ if exc is not None else pu.project(loaded)
        print("held  :", want[:1200])
        print("loaded:", got[:1200])
        return 0 if got == want else 1
    finally:
        pu.rmtree(work)


def replay(payload):
    print(payload)
    r = payload.get("replay", {})
    label = r.get("label", "")
    if label.startswith("early #") and "first_lines" in r:
        return replay_early(r)
    if label.startswith("live #") and "lines" in r:
        return replay_live(r)
    seed = int(os.environ.get("VERIF_SEED", "0"))
    res = Result()
    rng = random.Random(seed * 7919 + 11)
    work = tempfile.mkdtemp(prefix="verif-c11-")
    rc = 0
    try:
        states = corpus()
        tier = os.environ.get("VERIF_TIER", "quick")
        n_gw = (40 if tier == "quick" else 700) * common.effort(tier)
        for i in range(n_gw):
            version = rng.choice(["1.4", "1.5", "2.0", "2.1", "2.2"])
            audit = []
            states.append((f"gateway {version} #{i}", pu.gateway_state(rng, version, rng.choice([5, 15, 40]), audit), True))
            if states[-1][0] == label and "desired" in r:
                for nid, cid, vt, value, before, after in audit:
                    print(f"desired value {value!r} for value type {vt} of child {cid} on the sleeping node {nid} "
                          f"changed what a save writes:\n  before: {before[:600]}\n  after:  {after[:600]}")
                    rc = 1
        for i in range(160):
            states.append((f"direct #{i}", pu.direct_state(rng), True))
        for lab, sensors, exact in states:
            if lab != label:
                continue
            want = pu.project_reset(sensors)
            print("original:", want[:1500])
            attrs = {}
            for fmt in pu.FORMATS:
                exc, loaded = round_trip(sensors, work, fmt)
                got = pu.project(loaded)
                if exc is None:
                    attrs[fmt] = attributes(loaded)
                if len(attrs) == 2 and exact and attr_diff(attrs["json"], attrs["pickle"]):
                    print("JSON and pickle restore different objects:", attr_diff(attrs["json"], attrs["pickle"]))
                    rc = 1
                print(fmt, "exception:", exc, "exact:", got == want)
                if got != want:
                    print("  loaded:", got[:1500])
                    rc = 1 if exact else rc
                if pu.typed(sensors):
                    try:
                        print("  model:", common.Driver().run([f"P11 {fmt} " + " ".join(pu.wire_state(sensors))])[0][:1500])
                    except Exception as e:  # noqa: BLE001
                        print("  model: (driver unavailable)", e)
    finally:
        pu.rmtree(work)
    return rc
