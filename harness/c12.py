"""C12 — atomic save: (a) the real operation sequence of `save_sensors` vs the model's `saveOps`;
(b) every (prior configuration, crash point or failing operation, loss of unsynced data) on the
real code in a scratch directory vs the model's `crashAt`/`failAt`/`safeLoad`; oracle: the state
loaded by a fresh gateway is the complete old or the complete new one and the next save works."""
import os
import random
import tempfile

from . import common
from . import persist_util as pu
from .common import Result, digest

THEOREMS = [
    "MySensors.C12.saveOps_shape", "MySensors.C12.crash_atomic", "MySensors.C12.crash_never_empty",
    "MySensors.C12.crash_exact", "MySensors.C12.crash_exact_none", "MySensors.C12.fail_atomic",
    "MySensors.C12.load_ignores_tmp", "MySensors.C12.save_then_load",
    "MySensors.C12.crash_restart_save_load", "MySensors.C12.fail_save_load",
    "MySensors.C12.save_complete", "MySensors.C12.crash_load_no_raise",
]
ASSUMPTIONS = [
    "POSIX file system as in DESIGN.md section 2: rename/remove atomic and persisted in program order, "
    "file data durable only after fsync, a crash keeps every directory operation done so far and may "
    "empty or damage any not yet synced content (never turn it into a different valid file); no "
    "directory fsync is modelled",
    "the persistence path is not a symlink and the working directory does not change between save and "
    "load (save uses realpath for the main and temp file but the plain path for the .bak name)",
    "a crash is simulated by stopping the save at the operation, taking the operating system's view of "
    "the three files at that instant (unflushed user-space buffers are lost) and loading that view with "
    "a fresh gateway",
    "contents are symbolic in the theorems; the run uses four concrete networks (stale, old, new, next)",
]
TRUSTED = ["harness/persist_util.py FsShim (records and injects faults into open/write/flush/fsync/close/rename/remove "
           "as seen from mysensors.persistence)"]

CFGS = ["none", "good", "goodBak", "goodTmp", "goodBoth"]
LOSSY = ["keep", "empty", "half", "zero"]
DMG_OF = {"keep": "keep", "empty": "empty", "half": "damaged", "zero": "damaged"}


def build_states(rng):
    """Four real networks built by feeding lines to a real gateway: stale ⊂ old ⊂ new ⊂ next."""
    gw = pu.make_gateway("2.2")
    marks = {}
    script = [
        ("stale", ["1;255;0;0;17;2.2\n", "1;0;0;0;6;temp\n", "1;0;1;0;0;20.5\n"]),
        ("old", ["1;255;3;0;11;Sketch \"A\"\n", "2;255;0;0;17;2.0\n", "2;5;0;0;3;ünï \U0001F600\n", "2;5;1;0;2;1\n"]),
        ("new", ["1;0;1;0;0;21.0\n", "1;255;3;0;0;88\n", "7;255;0;0;18;2.2\n"]),
        ("next", ["77;255;0;0;17;2.2\n", "2;5;1;0;2;0\n"]),
    ]
    import copy
    for name, lines in script:
        for l in lines:
            gw.logic(l)
        marks[name] = copy.deepcopy(gw.sensors)
    return marks, script


def setup_case(d, fmt, cfg, enc, stale_bak, stale_tmp):
    main = os.path.join(d, f"state.{fmt}")
    for p in (main, main + ".bak", pu.tmp_name(main)):
        pu.put(p, None)
    if cfg != "none":
        pu.put(main, enc["old"])
    if cfg in ("goodBak", "goodBoth"):
        pu.put(main + ".bak", stale_bak)
    if cfg in ("goodTmp", "goodBoth"):
        pu.put(pu.tmp_name(main), stale_tmp)
    return main


def classify(data, enc, extra=None):
    if data is None:
        return "absent"
    if data == b"":
        return "empty"
    for name, b in enc.items():
        if data == b:
            return name
    for name, b in (extra or {}).items():
        if data == b:
            return name
    return "damaged"


def files_of(main):
    return {"main": pu.get(main), "bak": pu.get(main + ".bak"), "tmp": pu.get(pu.tmp_name(main))}


def loose(c):
    """empty / damaged / partial contents are one class for the temp file and stale files"""
    return "bad" if c in ("empty", "damaged") else c


def show_files(f, enc):
    return ",".join([classify(f["main"], enc), classify(f["bak"], enc), loose(classify(f["tmp"], enc))])


def norm_model_files(s):
    m, b, t = s.split(",")
    return ",".join([m, b, loose(t)])


def presence(s):
    """after a failing operation the temp file's content is arbitrary in the model (`failAt`'s
    `tmpAfter`): leaving the `with` block flushes whatever was buffered"""
    m, b, t = s.split(",")
    return ",".join([m, b, "absent" if t == "absent" else "present"])


def damage(data, how):
    if how == "keep" or data is None:
        return data
    if how == "empty":
        return b""
    if how == "half":
        return data[: len(data) // 2]
    return b"\x00" * len(data)


def load_and_next(load_dir, fmt, files, projs, next_lines):
    """Start a fresh gateway on the given three files; then one more state change, save, load — with the
    persistence file named as an absolute path, relative to the working directory, and through a symbolic
    link to its directory: the three must agree (the first differing outcome is returned)."""
    first = None
    for how in (0, 1, 2):
        main = os.path.join(load_dir, f"state.{fmt}")
        with pu.spelled(main, how) as named:
            got = _load_and_next(main, named, files, projs, next_lines)
        if first is None:
            first = got
        elif got != first:
            cls, after, nxt = got
            return f"{cls}(path spelling {how})", after, nxt
    return first


def _load_and_next(main, named, files, projs, next_lines):
    pu.put(main, files["main"])
    pu.put(main + ".bak", files["bak"])
    pu.put(pu.tmp_name(main), files["tmp"])
    gw = pu.make_gateway("2.2", persistence_file=named)
    exc = None
    try:
        gw.tasks.persistence.safe_load_sensors()
    except BaseException as e:  # noqa: BLE001
        exc = e
    loaded = pu.project(gw.sensors)
    cls = next((n for n, p in projs.items() if p == loaded), "other")
    if exc is not None:
        cls = "raised:" + type(exc).__name__
    after = files_of(main)
    nxt = "skipped"
    if exc is None:
        for l in next_lines:
            gw.logic(l)
        want = pu.project(gw.sensors)
        try:
            gw.tasks.persistence.save_sensors()
            e2, s2 = pu.fresh_load(main)
            nxt = "next" if (e2 is None and pu.project(s2) == want and not gw.tasks.persistence.need_save) else "wrong"
        except Exception as e:  # noqa: BLE001
            nxt = "raised:" + type(e).__name__
    return cls, after, nxt


def model_k(real_ops_done, exists):
    """number of model operations completed, given the real operations completed"""
    names = [o[0] for o in real_ops_done]
    k = 0
    if "open" in names:
        k = 1
    if "write" in names:
        k = 2
    if "flush" in names:
        k = 3
    if "fsync" in names:
        k = 4
    if "close" in names:
        k = 5
    k += names.count("rename") + names.count("remove")
    return k


def size_limited_save(fmt, cfg, limit, states, work):
    """A save on a file system that takes only `limit` bytes per file (a full disk, a quota, RLIMIT_FSIZE with
    SIGXFSZ ignored): the operating system itself accepts part of a write and refuses the rest — a buffered
    writer sees the error, a raw one only a short count.  Returns (did save_sensors raise, class of what a
    fresh start loads, did the next save without the limit persist the state)."""
    import resource
    import signal
    d = os.path.join(work, f"quota-{fmt}")
    os.makedirs(d, exist_ok=True)
    main = os.path.join(d, f"state.{fmt}")
    for p in (main, main + ".bak", pu.tmp_name(main)):
        pu.put(p, None)
    if cfg == "good":
        pu.put(main, pu.save_bytes(states["old"], work, fmt))
    sensors = dict(states["new"])
    pers = pu.persistence_for(sensors, main)
    soft, hard = resource.getrlimit(resource.RLIMIT_FSIZE)
    old_handler = signal.signal(signal.SIGXFSZ, signal.SIG_IGN)
    raised = None
    try:
        resource.setrlimit(resource.RLIMIT_FSIZE, (limit, hard))
        try:
            pers.save_sensors()
        except OSError as e:
            raised = "OSError"
        except Exception as e:  # noqa: BLE001
            raised = type(e).__name__
    finally:
        resource.setrlimit(resource.RLIMIT_FSIZE, (soft, hard))
        signal.signal(signal.SIGXFSZ, old_handler)
    projs = {n: pu.project(dict(v), transient=True) for n, v in states.items()}
    gw = pu.make_gateway("2.2", persistence_file=main)
    try:
        gw.tasks.persistence.safe_load_sensors()
        loaded = pu.project(gw.sensors)
        cls = next((n for n, p in projs.items() if p == loaded), "emptyNet" if loaded == "-" else "other")
    except BaseException as e:  # noqa: BLE001
        cls = "raised:" + type(e).__name__
    pers.need_save = True
    try:
        pers.save_sensors()
        e2, s2 = pu.fresh_load(main)
        nxt = e2 is None and pu.project(s2) == projs["new"]
    except Exception:  # noqa: BLE001
        nxt = False
    return raised, cls, nxt


def size_limit_part(res, states, work, tier):
    for fmt in pu.FORMATS:
        full = len(pu.save_bytes(states["new"], work, fmt))
        limits = [0, 1, 17, 100, full // 2, full - 1] if tier == "quick" else \
            sorted(set([0, 1, 2, 17, 64, 100, 128, full // 4, full // 2, full - 17, full - 2, full - 1, full]))
        for cfg in ("none", "good"):
            for limit in limits:
                raised, cls, nxt = size_limited_save(fmt, cfg, limit, states, work)
                res.evaluations += 1
                res.count(f"size-limit:{fmt}:{'raised' if raised else 'returned'}")
                res.distinct.add(digest(["quota", fmt, cfg, limit]))
                allowed = {"new"} | ({"old"} if cfg == "good" else {"emptyNet"})
                rep = {"op": "size-limit", "fmt": fmt, "cfg": cfg, "limit": limit}
                what = None
                if cls not in allowed:
                    what = f"a start-up load gives '{cls}', not the old or the new state"
                elif raised is None and limit < full and cls != "new":
                    what = f"save_sensors returned normally but a start-up load gives '{cls}'"
                elif not nxt:
                    what = "the next save (space available again) did not persist the current state"
                if what:
                    res.oracle_failures.append({
                        "key": {"kind": "size-limit", "fmt": fmt, "cfg": cfg, "loaded": cls},
                        "what": f"{fmt}, prior file {cfg}: the file system takes {limit} of the {full} bytes of the new "
                                f"file (save_sensors {'raised ' + raised if raised else 'returned normally'}): {what}",
                        "replay": rep})


def linked_save(fmt, mode, at, states, work):
    """The configured persistence file is a symbolic link to a file of another name in another directory (a
    data volume).  A save over the good old file with a crash or a failing operation at `at`; then a fresh
    start on the configured path, one more save, another load.  Returns (number of operations of a complete
    save, class loaded, next save fine?)."""
    import shutil
    base = os.path.join(work, f"linked-{fmt}")
    shutil.rmtree(base, ignore_errors=True)
    conf_dir, data_dir = os.path.join(base, "conf"), os.path.join(base, "volume")
    os.makedirs(conf_dir)
    os.makedirs(data_dir)
    target = os.path.join(data_dir, f"network-data.{fmt}")
    pu.put(target, pu.save_bytes(states["old"], work, fmt))
    named = os.path.join(conf_dir, f"state.{fmt}")
    os.symlink(target, named)
    sensors = dict(states["new"])
    pers = pu.persistence_for(sensors, named)
    shim = pu.FsShim(mode=mode, at=at) if mode else pu.FsShim()
    with shim.installed():
        try:
            pers.save_sensors()
        except (pu.Crash, OSError):
            pass
    nops = len(shim.ops)
    projs = {n: pu.project(dict(v), transient=True) for n, v in states.items()}
    gw = pu.make_gateway("2.2", persistence_file=named)
    try:
        gw.tasks.persistence.safe_load_sensors()
        loaded = pu.project(gw.sensors)
        cls = next((n for n, p in projs.items() if p == loaded), "emptyNet" if loaded == "-" else "other")
    except BaseException as e:  # noqa: BLE001
        return nops, "raised:" + type(e).__name__, False
    try:
        gw.sensors.update({k: v for k, v in states["next"].items() if k not in gw.sensors})
        want = pu.project(gw.sensors)
        gw.tasks.persistence.need_save = True
        gw.tasks.persistence.save_sensors()
        e2, s2 = pu.fresh_load(named)
        nxt = e2 is None and pu.project(s2) == want
    except Exception:  # noqa: BLE001
        nxt = False
    return nops, cls, nxt


def linked_part(res, states, work):
    for fmt in pu.FORMATS:
        nops, cls, nxt = linked_save(fmt, None, 0, states, work)
        points = [("crash", i) for i in range(nops + 1)] + [("fail", i) for i in range(nops)]
        for mode, at in [(None, 0)] + points:
            _n, cls, nxt = linked_save(fmt, mode, at, states, work)
            res.evaluations += 1
            res.count("linked-file:" + (mode or "complete"))
            res.distinct.add(digest(["linked", fmt, mode, at]))
            bad = None
            if cls not in (("new",) if mode is None else ("old", "new")):
                bad = f"a start-up on the configured path loads '{cls}'"
            elif not nxt:
                bad = "the next save did not persist the current state"
            if bad:
                res.oracle_failures.append({
                    "key": {"kind": "linked-file", "fmt": fmt, "mode": mode or "complete", "loaded": cls},
                    "what": f"{fmt}: the configured file is a symbolic link to a file on another directory; "
                            f"{'a complete save' if mode is None else f'a {mode} at operation {at} of the save'}: {bad}",
                    "replay": {"op": "linked-file", "fmt": fmt, "mode": mode, "at": at}})


def scheduled_part(res, work):
    """"The next save succeeds" for the saves the gateway makes itself: the thread-based gateway's save schedule
    (real `_schedule_factory`, the timer a fake that fires on request) with one file operation failing during
    one scheduled save.  The next scheduled save — there must be one — writes the state held then."""
    for fmt in pu.FORMATS:
        for op in ("fsync", "rename", "open"):
            path = os.path.join(work, f"sched-{op}.{fmt}")
            rep = {"op": "scheduled", "fmt": fmt, "failing": op}
            bad = scheduled_case(path, op)
            res.evaluations += 1
            res.count("scheduled-save:" + op)
            if bad:
                res.oracle_failures.append({"key": {"kind": "scheduled-next-save", "op": op}, "replay": rep,
                                            "what": f"{fmt}: a scheduled save failed at {op}: {bad}"})


def scheduled_case(path, failing):
    for p in (path, path + ".bak", pu.tmp_name(path)):
        pu.put(p, None)
    with pu.fake_timers() as FT:
        gw = pu.make_gateway("2.2", persistence_file=path, flavour="sync")
        gw.logic("1;255;0;0;17;2.2\n")
        gw.tasks.persistence.schedule_save_sensors()          # saves now, arms the timer
        if not FT.instances or not FT.instances[-1].started:
            return "the schedule did not arm a timer after its first save"
        gw.logic("1;0;0;0;6;t\n")
        first = FT.instances[-1]
        shim = pu.FsShim(mode="fail", only=lambda name, args: name == failing)
        try:
            with shim.installed():
                first.fire()
        except Exception as exc:  # noqa: BLE001
            return f"the failing save raised {type(exc).__name__} out of the schedule"
        if FT.instances[-1] is first or not FT.instances[-1].started:
            return "no further save is scheduled after the failed one"
        gw.logic("1;0;1;0;0;21.5\n")
        try:
            FT.instances[-1].fire()
        except Exception as exc:  # noqa: BLE001
            return f"the next scheduled save raised {type(exc).__name__}: {exc}"
        exc, loaded = pu.fresh_load(path)
        if exc is not None or pu.project(loaded) != pu.project_reset(gw.sensors):
            return "the next scheduled save did not persist the state held"
    return None


def run(tier, seed, driver):
    res = Result()
    rng = random.Random(seed * 7919 + 12)
    work = tempfile.mkdtemp(prefix="verif-c12-")
    try:
        _run(res, rng, tier, driver, work)
        states = build_states(random.Random(seed * 7919 + 12))[0]
        size_limit_part(res, states, work, tier)
        linked_part(res, states, work)
        scheduled_part(res, work)
    finally:
        pu.rmtree(work)
    return res


def _run(res, rng, tier, driver, work):
    states, script = build_states(rng)
    next_lines = script[3][1]
    projs = {n: pu.project({k: v for k, v in s.items()}, transient=True) for n, s in states.items()}
    # a load resets nothing here (no transient state in these networks)
    projs["emptyNet"] = "-"
    ops_lines, ops_impl = [], []
    model_lines, impl_lines, cases = [], [], []
    # the second family: the good file holds a network without nodes (what a gateway writes before any node has
    # presented itself) next to a stale backup of an older, non-empty generation
    empty_old = {"stale": states["new"], "old": {}, "new": states["stale"], "next": states["old"]}
    projs_empty = {"old": "-"}
    projs_empty.update({n: pu.project(dict(v), transient=True) for n, v in empty_old.items() if n != "old"})
    projs_empty["emptyNet"] = "-"
    families = [("chain", states, projs, CFGS), ("empty-old", empty_old, projs_empty, ["goodBak", "goodBoth"])]
    for variant, states, projs, cfg_list in families:
        FAMILY[0] = variant
        for fmt in pu.FORMATS:
            enc = {n: pu.save_bytes(states[n], work, fmt) for n in ("stale", "old", "new")}
            stale_variants = {"w": enc["stale"], "d": enc["stale"][: len(enc["stale"]) // 3]}
            case_dir = os.path.join(work, f"case-{variant}-" + fmt)
            load_dir = os.path.join(work, f"load-{variant}-" + fmt)
            os.makedirs(case_dir)
            os.makedirs(load_dir)
            # (a) the real operation sequence of a complete save
            for cfg in ("none", "good"):
                main = setup_case(case_dir, fmt, cfg, enc, None, None)
                pers = pu.persistence_for(dict(states["new"]), main)
                shim = pu.FsShim()
                with shim.installed():
                    pers.save_sensors()
                seq = pu.model_ops(shim.ops, main, main + ".bak", pu.tmp_name(main))
                ops_lines.append(f"FSOPS {1 if cfg == 'good' else 0}")
                ops_impl.append(" ".join(seq))
                res.count("recorded-ops:" + fmt + ":" + cfg, len(shim.ops))
                res.evaluations += 1
                nreal = len(shim.ops)
                if cfg == "good":
                    real_exists = list(shim.ops)
                else:
                    real_none = list(shim.ops)
                # the fsync must be on the temp file, after the last write and the flush
                names = [o[0] for o in shim.ops]
                if not ("fsync" in names and "rename" in names
                        and names.index("fsync") > max([i for i, n in enumerate(names) if n in ("write", "flush")] or [-1])
                        and shim.ops[names.index("fsync")][1] == pu.tmp_name(main)
                        and names.index("fsync") < names.index("rename")):
                    res.oracle_failures.append({"key": {"kind": "fsync-order", "fmt": fmt}, "what": "temp file is not "
                                                "synced between its last write and the first rename",
                                                "replay": {"fmt": fmt, "cfg": cfg, "ops": shim.ops}})
                if pu.get(main) != enc["new"] or pu.get(main + ".bak") is not None or pu.get(pu.tmp_name(main)) is not None:
                    res.oracle_failures.append({"key": {"kind": "complete-save", "fmt": fmt, "cfg": cfg},
                                                "what": "a complete save does not leave exactly the new file",
                                                "replay": {"fmt": fmt, "cfg": cfg}})
            # (b) every configuration × crash point / failing operation × loss
            for cfg in cfg_list:
                exists = cfg != "none"
                real = real_exists if exists else real_none
                nreal = len(real)
                widx = [i for i, o in enumerate(real) if o[0] == "write"]
                keep_w = set(widx) if tier == "thorough" or len(widx) <= 6 else \
                    set(widx[:2] + widx[-2:] + rng.sample(widx[2:-2], 2))
                sel = [i for i in range(nreal + 1) if i == nreal or real[i][0] != "write" or i in keep_w]
                sb_opts = ["w", "d"] if cfg in ("goodBak", "goodBoth") else ["w"]
                st_opts = ["w", "d"] if cfg in ("goodTmp", "goodBoth") else ["w"]
                for sb in sb_opts:
                    for st in st_opts:
                        for mode in ("crash", "fail"):
                            points = sel if mode == "crash" else [i for i in sel if i < nreal]
                            for at in points:
                                run_point(res, fmt, cfg, sb, st, mode, at, enc, stale_variants, states, projs,
                                          next_lines, case_dir, load_dir, model_lines, impl_lines, cases)
                                if mode == "fail" and cfg != "none" and real[at][0] != "write":
                                    # once more with a persistence object that has a successful save behind it
                                    WARM[0] = True
                                    try:
                                        run_point(res, fmt, cfg, sb, st, mode, at, enc, stale_variants, states, projs,
                                                  next_lines, case_dir, load_dir, model_lines, impl_lines, cases)
                                    finally:
                                        WARM[0] = False
    res.exhaustive = tier == "thorough"
    res.extra["write_points"] = "every write call" if tier == "thorough" else \
        "first two, last two and two random write calls per configuration (all other operations: every one)"
    res.rule = ("exhaustive (quick tier: the repeated write calls of json.dump are sampled): both formats × 5 prior configurations (stale backup / temp file: complete older "
                "state or damaged) × {process death before every real file operation (open, each write, flush, "
                "fsync, close, rename, rename, remove) and after the last one} × {no loss, unsynced files "
                "emptied, halved, zero-filled}  +  {OSError at every real file operation}; every case loaded by a "
                "fresh gateway, then one more change + save + load. non-trivial = a crash/failure after the temp "
                "file was opened; distinct by (format, configuration, mode, operation, loss)")
    all_lines = ops_lines + model_lines
    all_impl = ops_impl + impl_lines
    if driver is not None and all_lines:
        try:
            out = driver.run(all_lines)
        except Exception as exc:  # noqa: BLE001
            res.corr_diffs.append({"name": "fs-driver", "case": "driver", "model": str(exc), "impl": ""})
            out = None
        if out is not None:
            for line, m, i in zip(all_lines, out, all_impl):
                mm = m
                if line.startswith("FSCRASH") or line.startswith("FSFAIL"):
                    parts = dict(p.split("=", 1) for p in m.split(" ") if "=" in p)
                    nf = presence if line.startswith("FSFAIL") else norm_model_files
                    mm = (f"load={parts.get('load')} files={nf(parts.get('files', ',,'))} "
                          f"after={nf(parts.get('after', ',,'))} next={parts.get('next')}")
                if mm != i:
                    res.corr_diffs.append({"name": "fs", "case": line, "model": mm, "impl": i})
                    if len(res.corr_diffs) > 20:
                        break
            res.traces_validated = len(all_lines)
    res.sample({"ops(file exists)": ops_impl[1] if len(ops_impl) > 1 else ""})
    for c in cases[:1] + cases[len(cases) // 2: len(cases) // 2 + 2]:
        res.sample(c)


def run_point(res, fmt, cfg, sb, st, mode, at, enc, stale_variants, states, projs, next_lines,
              case_dir, load_dir, model_lines, impl_lines, cases):
    exists = cfg != "none"
    main = setup_case(case_dir, fmt, cfg, enc, stale_variants[sb], stale_variants[st])
    extra = {"staleBak": stale_variants[sb] if sb == "w" else None, "staleTmp": stale_variants[st] if st == "w" else None}
    names_enc = {"old": enc["old"], "new": enc["new"]}
    sensors = dict(states["new"])
    pers = pu.persistence_for(sensors, main)
    if mode != "crash" and exists and WARM[0]:
        # the same process has saved before: the object that now fails is the one that wrote the good file; the
        # prior files are then put back exactly as configured
        sensors.clear()
        sensors.update(states["old"])
        try:
            pers.save_sensors()
        except Exception:  # noqa: BLE001   (shows below as a failing next save)
            pass
        setup_case(case_dir, fmt, cfg, enc, stale_variants[sb], stale_variants[st])
        sensors.clear()
        sensors.update(states["new"])
        pers.need_save = True
    snap = {}

    def on_crash(shim):
        snap["files"] = files_of(main)
        snap["unsynced"] = {("main" if p == main else "bak" if p == main + ".bak" else "tmp")
                            for p in shim.unsynced if os.path.exists(p)}
        snap["done"] = list(shim.ops)

    shim = pu.FsShim(mode=mode, at=at, on_crash=on_crash)
    raised = None
    with shim.installed():
        try:
            pers.save_sensors()
        except pu.Crash:
            raised = "crash"
        except OSError as exc:
            raised = "oserror"
        except Exception as exc:  # noqa: BLE001
            raised = "other:" + type(exc).__name__
    if mode == "crash" and raised is None:
        # the point after the last operation: the save completed; the process dies afterwards
        on_crash(shim)
    if mode == "crash" and raised not in (None, "crash"):
        # no fault was injected before the crash point, yet the save itself failed
        last = shim.ops[-1][0] if shim.ops else "-"
        res.oracle_failures.append({
            "key": {"kind": "save-raises-without-fault", "fmt": fmt, "cfg": cfg, "staleBak": sb, "staleTmp": st},
            "what": f"save_sensors raised ({raised}) although no operation was made to fail; prior files: main={cfg} "
                    f"stale backup={sb} stale temp={st}; last operation reached: {last}",
            "replay": {"fmt": fmt, "cfg": cfg, "staleBak": sb, "staleTmp": st, "mode": "crash", "at": at}})
        return

    def cls_files(f):
        out = []
        for slot in ("main", "bak", "tmp"):
            d = f[slot]
            c = classify(d, names_enc)
            if c == "damaged" and d == stale_variants["w"]:
                # which stale file is it?  the backup slot can only hold the stale backup, the temp slot the stale temp
                c = "staleBak" if slot in ("bak", "main") else "staleTmp"
            out.append(c)
        return ",".join([out[0], out[1], loose(out[2])])

    if mode == "crash":
        k = model_k(snap["done"], exists)
        variants = ["keep"] if not snap["unsynced"] else LOSSY
        for how in variants:
            files = dict(snap["files"])
            for slot in snap["unsynced"]:
                files[slot] = damage(files[slot], how)
            cls, after, nxt = load_and_next(load_dir, fmt, files, projs, next_lines)
            impl = f"load={cls} files={cls_files(files)} after={cls_files(after)} next={nxt}"
            dm = {"main": "keep", "bak": "keep", "tmp": "keep"}
            for slot in snap["unsynced"]:
                dm[slot] = DMG_OF[how]
            model_lines.append(f"FSCRASH {cfg} {k} {dm['main']} {dm['bak']} {dm['tmp']} {sb} {st}")
            impl_lines.append(impl)
            record(res, cases, fmt, cfg, sb, st, "crash", at, snap["done"], how, cls, nxt, exists, k)
    else:
        if raised != "oserror":
            res.oracle_failures.append({"key": {"kind": "fail-not-raised", "fmt": fmt, "at": at},
                                        "what": f"an injected OSError did not propagate as OSError ({raised})",
                                        "replay": {"fmt": fmt, "cfg": cfg, "mode": mode, "at": at}})
            return
        done = shim.ops[:at]
        k = model_k(done, exists)
        need_save = pers.need_save
        files = files_of(main)
        # a fresh start-up would load ...
        cls, after, nxt0 = load_and_next(load_dir, fmt, files, projs, next_lines)
        # ... and the same process saves again after one more change
        sensors.update({k2: v for k2, v in states["next"].items() if k2 not in sensors})
        pers.need_save = True      # what `alert` / `add_sensor` do on that change
        want = pu.project(sensors)
        try:
            pers.save_sensors()
            e2, s2 = pu.fresh_load(main)
            nxt = "next" if (e2 is None and pu.project(s2) == want and not pers.need_save) else "wrong"
        except Exception as exc:  # noqa: BLE001
            nxt = "raised:" + type(exc).__name__
        if nxt0 != "next":
            nxt = "restart-" + nxt0
        impl = f"load={cls} files={presence(cls_files(files))} after={presence(cls_files(after))} next={nxt}"
        model_lines.append(f"FSFAIL {cfg} {k} {sb} {st}")
        impl_lines.append(impl)
        if not need_save:
            res.oracle_failures.append({"key": {"kind": "fail-clears-dirty", "op": shim.ops[at][0]},
                                        "what": "need_save is False after a failed save",
                                        "replay": {"fmt": fmt, "cfg": cfg, "mode": mode, "at": at}})
        record(res, cases, fmt, cfg, sb, st, "fail", at, done, "keep", cls, nxt, exists, k)


MODEL_NAMES = {True: ["openTmp", "write", "flush", "fsync", "close", "renMainBak", "renTmpMain", "rmBak", "end"],
               False: ["openTmp", "write", "flush", "fsync", "close", "renTmpMain", "end"]}


FAMILY = ["chain"]
WARM = [False]


def family_states(states, name):
    if name == "empty-old":
        return {"stale": states["new"], "old": {}, "new": states["stale"], "next": states["old"]}
    return states


def record(res, cases, fmt, cfg, sb, st, mode, at, done, how, cls, nxt, exists, k):
    res.evaluations += 1
    opname = MODEL_NAMES[exists][min(k, len(MODEL_NAMES[exists]) - 1)]
    res.count(f"{mode}:{opname}:{how}")
    res.count("loaded:" + cls)
    if k >= 1:
        res.distinct.add(digest([fmt, cfg, sb, st, mode, at, how]))
    allowed = {"new"} | ({"old"} if cfg != "none" else {"emptyNet"})
    case = {"family": FAMILY[0], "fmt": fmt, "cfg": cfg, "staleBak": sb, "staleTmp": st, "mode": mode, "real_op_index": at,
            "before_model_op": opname, "loss": how, "loaded": cls, "next": nxt, "warm": WARM[0]}
    cases.append(case)
    if cls not in allowed:
        res.oracle_failures.append({"key": {"kind": mode, "cfg": cfg, "op": opname, "loss": how != "keep",
                                            "loaded": cls},
                                    "what": f"after a {mode} at {opname} the start-up loaded '{cls}', not the old or "
                                            f"the new state", "replay": case})
    if nxt != "next":
        res.oracle_failures.append({"key": {"kind": mode + "-next-save", "cfg": cfg, "op": opname, "result": nxt},
                                    "what": f"the save after a {mode} at {opname} did not persist the current state ({nxt})"
                                            + (" (the process had saved successfully before)" if WARM[0] else ""),
                                    "replay": case})


def replay(payload):
    print(payload)
    r = payload.get("replay", {})
    if "fmt" not in r:
        return 0
    res = Result()
    rng = random.Random(0)
    work = tempfile.mkdtemp(prefix="verif-c12-")
    try:
        states, script = build_states(rng)
        if r.get("op") == "scheduled":
            bad = scheduled_case(os.path.join(work, f"sched.{r['fmt']}"), r["failing"])
            print("scheduled save after a failure at", r["failing"], ":", bad or "persisted the state held")
            return 1 if bad else 0
        if r.get("op") == "linked-file":
            _n, cls, nxt = linked_save(r["fmt"], r["mode"], r["at"], states, work)
            print(f"a start-up on the configured path loads: {cls}; the next save persisted the state: {nxt}")
            return 1 if cls not in ("old", "new") or not nxt else 0
        if r.get("op") == "size-limit":
            raised, cls, nxt = size_limited_save(r["fmt"], r["cfg"], r["limit"], states, work)
            print(f"save_sensors raised: {raised}; a start-up loads: {cls}; the next save persisted the state: {nxt}")
            allowed = {"new"} | ({"old"} if r["cfg"] == "good" else {"emptyNet"})
            return 1 if cls not in allowed or (raised is None and cls != "new") or not nxt else 0
        states = family_states(states, r.get("family", "chain"))
        projs = {"old": pu.project(states["old"])}
        projs.update({n: pu.project(s) for n, s in states.items() if n != "old"})
        projs["emptyNet"] = "-"
        fmt = r["fmt"]
        enc = {n: pu.save_bytes(states[n], work, fmt) for n in ("stale", "old", "new")}
        stale_variants = {"w": enc["stale"], "d": enc["stale"][: len(enc["stale"]) // 3]}
        case_dir, load_dir = os.path.join(work, "case"), os.path.join(work, "load")
        os.makedirs(case_dir)
        os.makedirs(load_dir)
        ml, il, cases = [], [], []
        WARM[0] = bool(r.get("warm"))
        run_point(res, fmt, r["cfg"], r.get("staleBak", "w"), r.get("staleTmp", "w"), r["mode"],
                  r.get("real_op_index", r.get("at", 0)), enc, stale_variants, states, projs, script[3][1],
                  case_dir, load_dir, ml, il, cases)
        for m, i in zip(ml, il):
            print("model-op:", m)
            print("impl    :", i)
            try:
                print("model   :", common.Driver().run([m])[0])
            except Exception as exc:  # noqa: BLE001
                print("model   : (driver unavailable)", exc)
        print("oracle failures:", res.oracle_failures)
    finally:
        pu.rmtree(work)
    return 1 if res.oracle_failures else 0
