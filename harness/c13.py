"""C13 — start-up survives damaged persistence files.  For real files of generated networks:
every truncation length 0..len-1 and the zero-fill of the main file, combined with the backup
absent / intact / damaged the same way; plus main absent / empty / intact.  Oracle: no exception,
the loaded network is the intact main file's, else the intact backup's, else empty; the exception
class json.load / pickle.load raised on each damaged content is in the caught set.
Correspondence: result class and files left behind vs the model's `safeLoad` (driver LOAD13)."""
import json
import os
import pickle
import random
import tempfile

from . import common
from . import persist_util as pu
from .common import Result, digest

THEOREMS = [
    "MySensors.C13.startup_result", "MySensors.C13.startup_never_raises",
    "MySensors.C13.startup_whole_or_empty", "MySensors.C13.safeLoad_no_raise",
    "MySensors.C13.startup_files", "MySensors.C13.startup_idempotent",
    "MySensors.C13.hostile_main_raises", "MySensors.C13.hostile_backup_raises",
]
ASSUMPTIONS = [
    "the parser is abstract in the theorems: a damaged file is assumed to make json.load / pickle.load "
    "(with the repo's decoder hooks) raise EOFError, ValueError or pickle.UnpicklingError; this run "
    "discharges the assumption by enumeration — every truncation length and the zero-fill of the generated "
    "files — and records each exception class; other kinds of damage (bit flips, foreign files) are outside "
    "the property's quantifier and not covered",
    "files are readable and the directory is writable (permission failures are outside the property)",
]

CAUGHT = (EOFError, ValueError, pickle.UnpicklingError)


def parse_class(path, fmt):
    """What the parser does on this content, without the safe wrapper: ok / the exception class."""
    from mysensors.persistence import MySensorsJSONDecoder
    try:
        if fmt == "json":
            with open(path, "r", encoding="utf-8") as fh:
                json.load(fh, cls=MySensorsJSONDecoder)
        else:
            with open(path, "rb") as fh:
                pickle.load(fh)
    except Exception as exc:  # noqa: BLE001
        return type(exc)
    return None


_SPELLING = [0]


def start(main):
    """safe_load_sensors of a fresh Persistence over an empty mapping (what start-up does).  The file is
    named the three ways a user names it — absolute path, path relative to the working directory (the
    library's default "mysensors.pickle" is one), path through a symbolic link to the directory — in
    rotation: the result must not depend on the spelling."""
    sensors = {}
    _SPELLING[0] += 1
    how = _SPELLING[0] % 3
    cwd = os.getcwd()
    named = main
    try:
        if how == 1:
            os.chdir(os.path.dirname(main))
            named = os.path.basename(main)
        elif how == 2:
            link = os.path.dirname(main) + "-link"
            if not os.path.islink(link):
                os.symlink(os.path.dirname(main), link)
            named = os.path.join(link, os.path.basename(main))
        pers = pu.persistence_for(sensors, named)
        try:
            pers.safe_load_sensors()
        except BaseException as exc:  # noqa: BLE001
            return type(exc).__name__, sensors
    finally:
        os.chdir(cwd)
    return None, sensors


def case_letter(data, good):
    if data is None:
        return "a"
    if data == b"":
        return "e"
    return "g" if good else "d"


def run(tier, seed, driver):
    res = Result()
    rng = random.Random(seed * 7919 + 13)
    work = tempfile.mkdtemp(prefix="verif-c13-")
    try:
        _run(res, rng, tier, driver, work)
    finally:
        pu.rmtree(work)
    return res


def backup_network():
    """the network in the backup file: two generated nodes and the gateway's own node (id 0)"""
    from mysensors.sensor import Sensor
    other = pu.direct_state(random.Random(5), size=2, exotic=False)
    if 0 not in other:
        other[0] = Sensor(0)
        other[0].type, other[0].sketch_name = 18, "gateway"
        other[0].add_child_sensor(0, 6, "own")
        other[0].children[0].values[0] = "21.0"
    return other


def gen_states(rng, nfiles):
    states = []
    # one built through a real gateway, the rest directly (exotic text, ids 0/254/255, no values ...)
    states.append(pu.gateway_state(rng, "2.2", 25))
    while len(states) < nfiles:
        s = pu.direct_state(rng, size=rng.choice([1, 2, 2]))
        states.append(s)
    return states


def _run(res, rng, tier, driver, work):
    nfiles = 3 if tier == "quick" else 24
    model_lines, impl_lines, cases = [], [], []
    classes = {}
    d = os.path.join(work, "d")
    os.makedirs(d)
    scratch = os.path.join(work, "scratch")
    os.makedirs(scratch)
    other = backup_network()
    for fmt in pu.FORMATS:
        main = os.path.join(d, f"state.{fmt}")
        bak = main + ".bak"
        bak_good = pu.save_bytes(other, scratch, fmt)
        pu.put(os.path.join(scratch, f"b.{fmt}"), bak_good)
        # what the files hold is judged against the networks they were written from, not against another load
        p_bak = pu.project_reset(other)
        for si, sensors in enumerate(gen_states(rng, nfiles)):
            good = pu.save_bytes(sensors, scratch, fmt)
            pu.put(os.path.join(scratch, f"m.{fmt}"), good)
            p_main = pu.project_reset(sensors)
            n = len(good)
            res.count(f"file-bytes:{fmt}", n)
            damaged = [("trunc", k, good[:k]) for k in range(n)] + [("zero", n, b"\x00" * n)]
            if tier == "thorough":
                damaged += [("zero-tail", k, good[:k] + b"\x00" * (n - k)) for k in range(0, n, max(1, n // 40))]
            mains = damaged + [("absent", 0, None), ("good", n, good)]
            for kind, k, mdata in mains:
                m_good = kind == "good"
                # parser classification of the damaged content (the assumption of the theorems)
                if mdata is not None and not m_good:
                    pu.put(main, mdata)
                    pu.put(bak, None)
                    cls = parse_class(main, fmt)
                    name = "parsed-ok" if cls is None else cls.__name__
                    classes[f"{fmt}:{name}"] = classes.get(f"{fmt}:{name}", 0) + 1
                    if cls is None:
                        res.oracle_failures.append({
                            "key": {"kind": "damaged-file-parses", "fmt": fmt, "damage": kind},
                            "what": f"a {kind} file (length {k} of {n}) is accepted by the parser: a partial state "
                                    f"would be loaded", "replay": {"fmt": fmt, "state": si, "damage": kind, "k": k}})
                    elif not issubclass(cls, CAUGHT):
                        res.oracle_failures.append({
                            "key": {"kind": "uncaught-parser-exception", "fmt": fmt, "exc": cls.__name__},
                            "what": f"{cls.__name__} from a {kind} {fmt} file is not caught by safe_load_sensors",
                            "replay": {"fmt": fmt, "state": si, "damage": kind, "k": k}})
                baks = [("absent", None), ("intact", bak_good)]
                if kind in ("trunc", "zero", "zero-tail"):
                    # the backup damaged the same way
                    if kind == "trunc":
                        baks.append(("damaged", bak_good[: min(k, len(bak_good) - 1)]))
                    else:
                        baks.append(("damaged", b"\x00" * len(bak_good)))
                else:
                    baks.append(("damaged", bak_good[: len(bak_good) // 2]))
                    baks.append(("damaged", b""))
                for bkind, bdata in baks:
                    pu.put(main, mdata)
                    pu.put(bak, bdata)
                    exc, loaded = start(main)
                    got = pu.project(loaded)
                    b_good = bkind == "intact"
                    want = p_main if m_good else (p_bak if b_good else "-")
                    cls_l = ("raised" if exc else "main" if (m_good and got == p_main) else
                             "bak" if (got == p_bak and not m_good and b_good) else
                             "emptyNet" if got == "-" else "other")
                    after_m, after_b = pu.get(main), pu.get(bak)

                    def fcls(data):
                        if data is None:
                            return "absent"
                        if data == good:
                            return "main"
                        if data == bak_good:
                            return "bak"
                        return "empty" if data == b"" else "damaged"
                    impl = f"load={cls_l} after={fcls(after_m)},{fcls(after_b)},absent"
                    ml = case_letter(mdata, m_good)
                    bl = case_letter(bdata, b_good)
                    model_lines.append(f"LOAD13 {ml} {bl}")
                    impl_lines.append(impl)
                    res.evaluations += 1
                    res.count(f"{fmt}:main={kind}:bak={bkind}:{cls_l}")
                    if mdata is not None and not m_good or (bdata is not None and not b_good):
                        res.distinct.add(digest([fmt, si, kind, k, bkind, len(bdata or b"")]))
                    case = {"fmt": fmt, "state": si, "main": kind, "k": k, "of": n, "backup": bkind, "result": cls_l}
                    if len(cases) < 400 or exc:
                        cases.append(case)
                    if exc:
                        res.oracle_failures.append({
                            "key": {"kind": "startup-raises", "fmt": fmt, "exc": exc, "main": kind, "backup": bkind},
                            "what": f"safe_load_sensors raised {exc} (main {kind} at {k}/{n}, backup {bkind})",
                            "replay": case})
                    elif got != want:
                        res.oracle_failures.append({
                            "key": {"kind": "wrong-network", "fmt": fmt, "main": kind, "backup": bkind, "got": cls_l},
                            "what": f"start-up loaded '{cls_l}' (main {kind} at {k}/{n}, backup {bkind})",
                            "replay": case})
        # the same through a real gateway's start_persistence() (threaded flavour with the Timer faked, and
        # the asyncio flavour on a loop of its own, in turn), on a sample of the cases
        gateway_sample(res, rng, fmt, main, good, bak_good, p_bak, 25 if tier == "quick" else 300)
    res.exhaustive = True
    res.extra["parser_exception_classes"] = classes
    res.rule = (f"{nfiles} generated networks per format (one built by a real gateway from lines, the others "
                "directly: exotic Unicode/NUL/quote text, ids 0/254/255, children without values); for each file "
                "EVERY truncation length 0..len-1 and the zero-fill (thorough: also zero-filled tails) × backup "
                "absent / intact / damaged the same way, plus main absent / intact × backup absent / intact / "
                "truncated / empty; the file named as an absolute path, relative to the working directory and through a "
                "symbolic link, in rotation. non-trivial = at least one of the two files is damaged")
    if driver is not None:
        uniq = sorted(set(model_lines))
        try:
            out = dict(zip(uniq, driver.run(uniq)))
        except Exception as exc:  # noqa: BLE001
            res.corr_diffs.append({"name": "load-driver", "case": "driver", "model": str(exc), "impl": ""})
            out = None
        if out is not None:
            for line, i in zip(model_lines, impl_lines):
                if out[line] != i:
                    res.corr_diffs.append({"name": "safe-load", "case": line, "model": out[line], "impl": i})
                    if len(res.corr_diffs) > 20:
                        break
            res.traces_validated = len(model_lines)
    for c in cases[:2] + cases[200:202]:
        res.sample(c)
    res.sample({"parser exception classes on damaged files": classes})


def start_async(gw):
    """AsyncTasks.start_persistence() on a loop of its own; the save task it schedules gets one turn and is
    cancelled.  Returns whether a periodic save was scheduled."""
    import asyncio
    loop = asyncio.new_event_loop()

    async def go():
        await gw.start_persistence()
        cancel = gw.tasks._cancel_save
        await asyncio.sleep(0.01)
        if cancel is not None:
            try:
                await cancel()
            except asyncio.CancelledError:
                pass
        return cancel is not None
    try:
        out = loop.run_until_complete(go())
        loop.run_until_complete(loop.shutdown_default_executor())
        return out
    finally:
        loop.close()


def gateway_sample(res, rng, fmt, main, good, bak_good, p_bak, count):
    bak = main + ".bak"
    for _ in range(count):
        k = rng.randrange(len(good))
        mdata = rng.choice([good[:k], b"\x00" * len(good), b"", None])
        bdata = rng.choice([None, bak_good, bak_good[: rng.randrange(len(bak_good))]])
        pu.put(main, mdata)
        pu.put(bak, bdata)
        for p in (pu.tmp_name(main),):
            pu.put(p, None)
        flavour = "sync" if _ % 2 == 0 else "async"
        with pu.fake_timers() as FT:
            gw = pu.make_gateway("2.2", persistence_file=main, flavour=flavour)
            exc = None
            scheduled = [False]
            try:
                if flavour == "sync":
                    gw.start_persistence()
                else:
                    scheduled[0] = start_async(gw)
            except BaseException as e:  # noqa: BLE001
                exc = type(e).__name__
            got = pu.project(gw.sensors)
            want = p_bak if bdata == bak_good else "-"
            res.evaluations += 1
            res.count(f"{fmt}:start_persistence:{flavour}")
            case = {"fmt": fmt, "via": "start_persistence", "flavour": flavour,
                    "main_len": None if mdata is None else len(mdata),
                    "backup_len": None if bdata is None else len(bdata)}
            if flavour == "async" and not exc and got == want and not scheduled[0]:
                res.oracle_failures.append({"key": {"kind": "start_persistence-not-scheduled", "fmt": fmt},
                                            "what": "start_persistence() did not schedule the periodic save",
                                            "replay": case})
                continue
            if flavour == "async" and not exc and got == want:
                continue
            if exc:
                res.oracle_failures.append({"key": {"kind": "start_persistence-raises", "fmt": fmt, "exc": exc},
                                            "what": f"start_persistence() raised {exc}", "replay": case})
            elif got != want:
                res.oracle_failures.append({"key": {"kind": "start_persistence-wrong-network", "fmt": fmt},
                                            "what": f"start_persistence() of the {flavour} gateway loaded "
                                                    f"{'nothing beside an intact backup' if got == '-' else 'neither the intact backup nor nothing'} "
                                                    f"(main file: {'absent' if mdata is None else str(len(mdata)) + ' damaged bytes'})",
                                            "replay": case})
            elif not (FT.instances and FT.instances[-1].started):
                res.oracle_failures.append({"key": {"kind": "start_persistence-not-scheduled", "fmt": fmt},
                                            "what": "start_persistence() did not schedule the periodic save",
                                            "replay": case})


def replay(payload):
    print(payload)
    r = payload.get("replay", {})
    seed = payload.get("seed", 0)
    if "fmt" not in r:
        return 0
    rng = random.Random(int(os.environ.get("VERIF_SEED", "0")) * 7919 + 13)
    work = tempfile.mkdtemp(prefix="verif-c13-")
    try:
        fmt = r["fmt"]
        # regenerate the same files (same seed, same order: json first, then pickle)
        states = None
        for f in pu.FORMATS:
            states = gen_states(rng, max(3, r.get("state", 0) + 1))
            if f == fmt:
                break
        sensors = states[r.get("state", 0)]
        good = pu.save_bytes(sensors, work, fmt)
        main = os.path.join(work, f"state.{fmt}")
        if r.get("via") == "start_persistence":
            other = backup_network()
            bak_good = pu.save_bytes(other, work, fmt)
            pu.put(main, None if r["main_len"] is None else (good[:r["main_len"]] if r["main_len"] < len(good) else b"\x00" * r["main_len"]))
            pu.put(main + ".bak", None if r["backup_len"] is None else bak_good[:r["backup_len"]])
            flavour = r.get("flavour", "sync")
            exc = None
            with pu.fake_timers():
                gw = pu.make_gateway("2.2", persistence_file=main, flavour=flavour)
                try:
                    gw.start_persistence() if flavour == "sync" else start_async(gw)
                except BaseException as e:  # noqa: BLE001
                    exc = type(e).__name__
            pu.put(os.path.join(work, f"b.{fmt}"), bak_good)
            want = pu.project(pu.fresh_load(os.path.join(work, f"b.{fmt}"))[1]) if r["backup_len"] == len(bak_good) else "-"
            got = pu.project(gw.sensors)
            print(f"start_persistence() of the {flavour} gateway: raised {exc}; loaded {got[:300]!r}; expected {want[:300]!r}")
            return 1 if exc or got != want else 0
        k = r.get("k", 0)
        kind = r.get("main", r.get("damage", "trunc"))
        data = good[:k] if kind == "trunc" else (b"\x00" * len(good) if kind == "zero" else good)
        pu.put(main, data)
        print("parser:", parse_class(main, fmt))
        exc, loaded = start(main)
        print("start-up:", exc, pu.project(loaded))
        return 1 if exc else 0
    finally:
        pu.rmtree(work)
