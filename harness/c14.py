"""C14 — a clean stop loses nothing."""
from . import gwfam, stopwin

THEOREMS = ["MySensors.C14.change_marks_dirty", "MySensors.C14.clean_invariant",
            "MySensors.C14.clean_stop_loses_nothing", "MySensors.C14.clean_stop_loses_nothing_fresh",
            "MySensors.C14.stop_writes"]
ASSUMPTIONS = [
    "stop() is the model's atomic `stop` step for lines handled before it; the shutdown window itself (lines the "
    "pump handles while stop() runs) is Model/StopOrder.lean: stop()'s own actions are disconnect then final "
    "save, a reply goes out only while connected; tied to the code by recording that order inside the real "
    "stop() of both flavours and by handling real id requests before stop, at the disconnect, at the final save "
    "and after stop (harness/stopwin.py); every generated history also has its last line before a stop handled "
    "at the moment of the disconnect",
    "the file written by a successful save reproduces the persisted projection on load (C11) and the save "
    "itself is atomic (C12); here persistence is the abstract 'disk := persisted projection'",
    "Model/Gateway.lean mirrors __init__.py / handler.py / sensor.py / ota.py (sampled by the correspondence)",
]
CFG = {"kinds": ["base", "base", "tcp", "mqtt", "base-nocb", "mqtt-nocb", "base-raisecb", "tcp-raisecb"], "quick": 260, "thorough": 6000, "persist": ["json", "pickle"], "lengths": [10, 20, 35],
       "bias": {"save": 2.5, "restart": 3, "idreq": 3}, "malformed": 0.1}


def _stop_restart(version, hist):
    return [("X",), ("R",)]


def _save_then_same_then_stop(version, hist):
    # a periodic save, the last op once more (a change carried by the same kind of message), then stop + restart
    last = [op for op in hist if op[0] == "L"][-1:]
    return [("K",)] + last + [("X",), ("R",)]


CFG["search_suffixes"] = [_stop_restart, _save_then_same_then_stop]


def falsy_after_save(rng, version, hist):
    """After a periodic save, the last thing a node reports before the stop is a value that is falsy in Python
    (battery level 0, an empty sketch name / version / description, a value "0" or ""): it is a change like
    any other and has to be in the file after stop()."""
    if rng.random() < 0.6:
        return hist
    node, child = rng.choice([1, 3, 12]), rng.choice([0, 1, 4])
    last = rng.choice([f"{node};255;3;0;0;0\n", f"{node};255;3;0;11;\n", f"{node};255;3;0;12;\n",
                       f"{node};{child};1;0;2;0\n", f"{node};{child};1;0;24;\n", f"{node};{child};0;0;3;\n",
                       f"{node};255;3;0;0;100\n"])
    script = [("L", f"{node};255;0;0;17;{version}\n"), ("L", f"{node};{child};0;0;3;lamp\n"),
              ("L", f"{node};255;3;0;0;7\n"), ("L", f"{node};255;3;0;11;sketch\n"), ("L", f"{node};255;3;0;12;1.0\n"),
              ("L", f"{node};{child};1;0;2;1\n"), ("L", f"{node};{child};1;0;24;text\n"), ("K",), ("L", last),
              ("X",), ("R",)]
    return list(hist) + script


CFG["post"] = [falsy_after_save]


def relevant(hist, obs):
    return any(o[0] == "R" for o in hist)


def run(tier, seed, driver):
    res = gwfam.run_family("C14", tier, seed, driver, CFG, relevant)
    stopwin.part(res, "C14", driver, tier)
    res.rule = ("state-aware random histories over all versions/kinds with json or pickle persistence, save ticks "
                "and stop+restart cycles at random positions; corpus first; non-trivial = contains a restart; "
                "distinct by op script")
    return res


def replay(payload):
    if payload.get("replay", {}).get("op") == "stop-window":
        return stopwin.replay(payload["replay"])
    return gwfam.replay_family("C14", payload)
