"""C14 — a clean stop loses nothing."""
from . import gwfam, stopwin

THEOREMS = ["MySensors.C14.change_marks_dirty", "MySensors.C14.clean_invariant",
            "MySensors.C14.clean_stop_loses_nothing", "MySensors.C14.clean_stop_loses_nothing_fresh",
            "MySensors.C14.stop_writes"]
ASSUMPTIONS = [
    "stop() is the model's atomic `stop` step for lines handled before it; the shutdown window itself (lines the "
    "pump handles while stop() runs) is Model/StopOrder.lean: stop()'s own actions are disconnect then final "
    "save, a reply goes out only while connected; tied to the code by recording that order inside the real "
    "stop() of both flavours and by handling real id requests before stop, at the disconnect, at the final save "
    "and after stop (harness/stopwin.py); every generated history also has its last line before a stop handled "
    "at the moment of the disconnect",
    "the file written by a successful save reproduces the persisted projection on load (C11) and the save "
    "itself is atomic (C12); here persistence is the abstract 'disk := persisted projection'",
    "Model/Gateway.lean mirrors __init__.py / handler.py / sensor.py / ota.py (sampled by the correspondence)",
]
CFG = {"kinds": ["base", "base", "tcp", "mqtt", "base-nocb", "mqtt-nocb", "base-raisecb", "tcp-raisecb"], "quick": 260, "thorough": 6000, "persist": ["json", "pickle"], "lengths": [10, 20, 35],
       "bias": {"save": 2.5, "restart": 3, "idreq": 3}, "malformed": 0.1}


def _stop_restart(version, hist):
    return [("X",), ("R",)]


def _save_then_same_then_stop(version, hist):
    # a periodic save, the last op once more (a change carried by the same kind of message), then stop + restart
    last = [op for op in hist if op[0] == "L"][-1:]
    return [("K",)] + last + [("X",), ("R",)]


CFG["search_suffixes"] = [_stop_restart, _save_then_same_then_stop]


def falsy_after_save(rng, version, hist):
    """After a periodic save, the last thing a node reports before the stop is a value that is falsy in Python
    (battery level 0, an empty sketch name / version / description, a value "0" or ""): it is a change like
    any other and has to be in the file after stop()."""
    if rng.random() < 0.6:
        return hist
    node, child = rng.choice([1, 3, 12]), rng.choice([0, 1, 4])
    last = rng.choice([f"{node};255;3;0;0;0\n", f"{node};255;3;0;11;\n", f"{node};255;3;0;12;\n",
                       f"{node};{child};1;0;2;0\n", f"{node};{child};1;0;24;\n", f"{node};{child};0;0;3;\n",
                       f"{node};255;3;0;0;100\n"])
    script = [("L", f"{node};255;0;0;17;{version}\n"), ("L", f"{node};{child};0;0;3;lamp\n"),
              ("L", f"{node};255;3;0;0;7\n"), ("L", f"{node};255;3;0;11;sketch\n"), ("L", f"{node};255;3;0;12;1.0\n"),
              ("L", f"{node};{child};1;0;2;1\n"), ("L", f"{node};{child};1;0;24;text\n"), ("K",), ("L", last),
              ("X",), ("R",)]
    return list(hist) + script


CFG["post"] = [falsy_after_save]


def relevant(hist, obs):
    return any(o[0] == "R" for o in hist)


SURROGATE_LINES = ["1;255;0;0;17;2.2\n", "1;3;0;0;36;label caf\udce9\n", "1;3;1;0;47;door \ud83d open\n",
                   "1;255;3;0;11;K\udcfcche\n", "1;255;3;0;12;1.\udc80\n", "1;255;3;0;0;77\n"]


def surrogate_stop(flavour, fmt, workdir):
    """(what the gateway held when stop() was called, what a fresh start loads, exception of stop() or None)"""
    import asyncio
    import os
    from . import persist_util as pu
    path = os.path.join(workdir, f"sur-{flavour}.{fmt}")
    gw, _conn = stopwin.make(flavour, path)
    for line in SURROGATE_LINES[:3]:
        gw.tasks.transport.send(gw.logic(line))
    try:
        gw.tasks.persistence.save_sensors()           # a periodic save (its failure is logged, not raised)
    except Exception:  # noqa: BLE001
        pass
    for line in SURROGATE_LINES[3:]:
        gw.tasks.transport.send(gw.logic(line))
    held, exc = pu.project_reset(gw.sensors), None
    try:
        if flavour == "sync":
            gw.stop()
        else:
            loop = asyncio.new_event_loop()
            try:
                loop.run_until_complete(gw.stop())
                loop.run_until_complete(loop.shutdown_default_executor())
            finally:
                loop.close()
    except Exception as e:  # noqa: BLE001
        exc = f"{type(e).__name__}: {e}"
    err, loaded = pu.fresh_load(path)
    return held, ("load-raised:" + type(err).__name__ if err is not None else pu.project(loaded)), exc


def surrogate_part(res):
    """Text with unpaired surrogate code points (handed over by a client that decoded bytes leniently; not text
    the Lean model can hold, so judged on the real code only): a clean stop still loses nothing."""
    import shutil
    import tempfile
    work = tempfile.mkdtemp(prefix="verif-c14-")
    try:
        for flavour in ("sync", "async"):
            for fmt in ("json", "pickle"):
                held, loaded, exc = surrogate_stop(flavour, fmt, work)
                res.evaluations += 1
                res.count("unpaired-surrogate-text:" + fmt)
                if exc is not None or held != loaded:
                    res.oracle_failures.append({
                        "key": {"kind": "surrogate-text", "what": "stop-raised" if exc else "lost"},
                        "replay": {"op": "surrogate-text", "flavour": flavour, "fmt": fmt},
                        "what": f"{flavour} gateway, {fmt}: the network holds text with unpaired surrogates; stop() "
                                + (f"raised {exc}" if exc else "returned") + f"; a fresh start loads {loaded[:300]!r}, "
                                f"the gateway held {held[:300]!r}"})
    finally:
        shutil.rmtree(work, ignore_errors=True)


def run(tier, seed, driver):
    res = gwfam.run_family("C14", tier, seed, driver, CFG, relevant)
    stopwin.part(res, "C14", driver, tier)
    surrogate_part(res)
    # the thread-based MQTT gateway with lines still queued when stop() is called: what the poll loop does with
    # them afterwards must not leave the gateway holding (and answering from) what the file does not have
    from .c06 import mqtt_backlog_part
    mqtt_backlog_part(res, tier, driver)
    res.rule = ("state-aware random histories over all versions/kinds with json or pickle persistence, save ticks "
                "and stop+restart cycles at random positions; corpus first; non-trivial = contains a restart; "
                "distinct by op script")
    return res


def replay(payload):
    if payload.get("replay", {}).get("op") == "stop-window":
        return stopwin.replay(payload["replay"])
    if payload.get("replay", {}).get("op") == "mqtt-backlog":
        from . import c06
        return c06.replay(payload)
    if payload.get("replay", {}).get("op") == "surrogate-text":
        import shutil
        import tempfile
        work = tempfile.mkdtemp(prefix="verif-c14-")
        try:
            held, loaded, exc = surrogate_stop(payload["replay"]["flavour"], payload["replay"]["fmt"], work)
        finally:
            shutil.rmtree(work, ignore_errors=True)
        print("held  :", held, "\nloaded:", loaded, "\nstop() raised:", exc)
        return 1 if exc is not None or held != loaded else 0
    return gwfam.replay_family("C14", payload)
