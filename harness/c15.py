"""C15 — periodic saving heals itself.  The real save scheduler of both flavours is driven tick
by tick (threading.Timer replaced by a recording fake; the asyncio flavour runs on an event loop
whose `asyncio.sleep`, as seen from mysensors.task, blocks on a gate the harness opens), with a
fault at every file operation / a refused permission check / a message handled at the n-th object
visited by the dump, at every tick position of a 4-tick schedule.  After each tick: armed?,
need_save, what a fresh start-up would load; compared with the model (driver SCHED) and judged
directly by the oracle."""
import asyncio
import os
import shutil
import random
import tempfile
import types

from . import common
from . import persist_util as pu
from .common import Result, digest

THEOREMS = [
    "MySensors.C15.tick_rearms", "MySensors.C15.schedule_stays_armed", "MySensors.C15.first_tick_arms",
    "MySensors.C15.tick_mainOk", "MySensors.C15.runEv_mainOk", "MySensors.C15.failing_op_loadable",
    "MySensors.C15.failing_tick", "MySensors.C15.denied_tick", "MySensors.C15.ok_tick_writes",
    "MySensors.C15.mutated_during_ok_dump", "MySensors.C15.tick_clean", "MySensors.C15.runEv_clean",
    "MySensors.C15.heals", "MySensors.C15.start_clean", "MySensors.C15.failures_keep_mark",
    "MySensors.C15.unfixed_scheduler_counterexample",
]
ASSUMPTIONS = [
    "real timer threads, executor threads and the 10 s period are not modelled: only the re-arming logic "
    "(a new Timer / the next loop round after every outcome) and the need_save protocol; a tick is the "
    "firing of the pending fake Timer (sync) or the release of the patched asyncio.sleep (async)",
    "a message handled 'during' a dump is delivered synchronously from inside the n-th call of the JSON "
    "encoder hook / Sensor.__getstate__ (the granularity at which another thread can interleave under "
    "the GIL is finer; the model's outcome classes — dump raises / dump completes with some snapshot — "
    "do not depend on it)",
    "failures are exceptions of class Exception (OSError, RuntimeError); no crash happens between ticks "
    "(crashes are C12)",
    "file store as in C12 (Model/Fs.lean)",
]
TRUSTED = ["harness/persist_util.py FsShim, FakeTimer; harness/c15.py gate-controlled asyncio.sleep"]

IO_OPS = ["openTmp", "write", "flush", "fsync", "close", "renMainBak", "renTmpMain", "rmBak"]

BASE_LINES = ["1;255;0;0;17;2.2\n", "1;0;0;0;6;temp\n", "1;0;1;0;0;20.5\n", "2;255;0;0;17;2.0\n",
              "2;3;0;0;3;light\n", "2;3;1;0;2;1\n"]


def msg_lines(i):
    """the i-th ordinary state change between two ticks"""
    if i == 1:
        return ["1;255;0;0;17;2.2\n", "1;0;0;0;6;temp\n", f"1;0;1;0;0;{i}.5\n"]
    return [f"1;0;1;0;0;{i}.5\n"]


def mutation_lines(kind, i):
    if kind == "node":
        return [f"{90 + i};255;0;0;17;2.2\n"]
    if kind == "idreq":
        return ["255;255;3;0;3;\n"]          # a node that appears through id assignment (no callback, no alert)
    if kind == "child":
        return ["1;255;0;0;17;2.2\n", f"1;{10 + i};0;0;6;late\n"]
    vt = [24, 25, 26, 27, 28, 47, 1, 4, 6, 8, 9, 10, 12, 13, 14, 17, 18][i % 17]   # accept the payload "77"
    return ["1;255;0;0;17;2.2\n", "1;0;0;0;6;temp\n", f"1;0;1;0;{vt};77\n"]   # a new value type on child 0


class Mutator:
    """Feeds lines to the gateway from inside the n-th object visit of the dump."""

    def __init__(self, gw, fmt, n, lines):
        self.gw, self.fmt, self.n, self.lines = gw, fmt, n, lines
        self.count = 0
        self.fired = False
        self.before = None

    def _visit(self):
        self.count += 1
        if self.count == self.n and not self.fired:
            self.fired = True
            self.before = pu.project_nodes(self.gw.sensors)
            for l in self.lines:
                self.gw.logic(l)

    def __enter__(self):
        import mysensors.persistence as mp
        import mysensors.sensor as ms
        if self.fmt == "json":
            self._orig = mp.MySensorsJSONEncoder.default
            orig, me = self._orig, self

            def default(enc, o):
                me._visit()
                return orig(enc, o)
            mp.MySensorsJSONEncoder.default = default
        else:
            self._orig = ms.Sensor.__getstate__
            orig, me = self._orig, self

            def getstate(obj):
                me._visit()
                return orig(obj)
            ms.Sensor.__getstate__ = getstate
        return self

    def __exit__(self, *exc):
        import mysensors.persistence as mp
        import mysensors.sensor as ms
        if self.fmt == "json":
            mp.MySensorsJSONEncoder.default = self._orig
        else:
            ms.Sensor.__getstate__ = self._orig
        return False


class Scenario:
    """One schedule on the real code; both flavours share the observation code."""

    def __init__(self, work, fmt, flavour, disk, plan, idx, alias=False):
        self.fmt, self.flavour, self.disk, self.plan, self.alias = fmt, flavour, disk, plan, alias
        self.dir = os.path.join(work, f"s{idx}")
        self.load_dir = os.path.join(work, f"l{idx}")
        os.makedirs(self.dir)
        os.makedirs(self.load_dir)
        self.main = os.path.join(self.dir, f"state.{fmt}")
        # the path the user configures: the file itself, or a symbolic link to it that lives elsewhere
        self.conf = self.main
        self.alias_dir = None
        if alias:
            self.alias_dir = os.path.join(work, f"a{idx}")
            os.makedirs(self.alias_dir)
            self.conf = os.path.join(self.alias_dir, f"state.{fmt}")
            os.symlink(os.path.join("..", f"s{idx}", f"state.{fmt}"), self.conf)
        self.obs = []          # per event: dict
        self.model_events = []
        self.versions = []     # projection of the network after every change
        self.nmsg = 0
        self.nmut = 0
        self.sleeps = 0

    # -- helpers -------------------------------------------------------------------------
    def prepare_disk(self, work):
        if self.disk == "good":
            gw0 = pu.make_gateway("2.2")
            for l in BASE_LINES:
                gw0.logic(l)
            pu.put(self.main, pu.save_bytes(gw0.sensors, work, self.fmt, name="base"))
        _, s0 = self.loadable()
        self.versions = [pu.project(s0)]

    def loadable(self):
        """what a start-up would load now: a fresh load on a copy of the directories (links kept as links)"""
        pu.rmtree(self.load_dir)
        os.makedirs(self.load_dir)
        for d in (self.dir, self.alias_dir):
            if d is not None:
                shutil.copytree(d, os.path.join(self.load_dir, os.path.basename(d)), symlinks=True)
        conf = os.path.join(self.load_dir, os.path.basename(os.path.dirname(self.conf)), os.path.basename(self.conf))
        exc, sensors = pu.fresh_load(conf)
        return exc, sensors

    def shim_for(self, fault):
        if fault[0] == "io":
            return pu.FsShim(mode="fail", only=pu.op_matcher(fault[1], self.main))
        if fault[0] == "denied":
            return pu.FsShim(deny_access=True)
        return pu.FsShim()

    def observe(self, gw, event, armed, rounds, shim=None, mut=None):
        pers = gw.tasks.persistence
        exc, sensors = self.loadable()
        proj = pu.project(sensors)
        cur = pu.project_reset(gw.sensors)
        if not self.versions or self.versions[-1] != cur:
            self.versions.append(cur)
        cls = "raised" if exc else next((str(i) for i in range(len(self.versions) - 1, -1, -1)
                                         if self.versions[i] == proj), "other")
        self.obs.append({"event": event, "armed": armed, "need_save": bool(pers.need_save), "load": cls,
                         "rounds": rounds, "cur": len(self.versions) - 1,
                         "renamed": bool(shim and any(o[0] == "rename" and o[1] == os.path.basename(pu.tmp_name(self.main))
                                                      for o in shim.ops)),
                         "fault_fired": bool(shim and shim.fired) or bool(mut and mut.fired),
                         "loaded_nodes": pu.project_nodes(sensors), "mut_before": mut.before if mut else None,
                         "mut_after": pu.project_nodes(gw.sensors) if mut else None})

    def apply_msg(self, gw):
        self.nmsg += 1
        for l in msg_lines(self.nmsg):
            gw.logic(l)
        self.model_events.append("msg")

    # -- sync ----------------------------------------------------------------------------
    def run_sync(self, work):
        self.prepare_disk(work)
        with pu.fake_timers() as FT:
            gw = pu.make_gateway("2.2", persistence_file=self.conf, flavour="sync")
            for pos, fault in enumerate(self.plan):
                if pos > 0:
                    self.apply_msg(gw)
                    self.observe(gw, "msg", self.armed_sync(FT), len(FT.instances))
                before = len(FT.instances)
                shim = self.shim_for(fault)
                mut = None
                try:
                    with shim.installed():
                        if fault[0] == "mut":
                            self.nmut += 1
                            mut = Mutator(gw, self.fmt, fault[2], mutation_lines(fault[1], self.nmut))
                            with mut:
                                self.fire_sync(gw, FT, pos)
                        else:
                            self.fire_sync(gw, FT, pos)
                    escaped = None
                except Exception as exc:  # noqa: BLE001
                    escaped = type(exc).__name__
                self.record_tick(gw, fault, shim, mut, self.armed_sync(FT) and len(FT.instances) == before + 1,
                                 len(FT.instances), escaped)
            # stop(): cancels the pending timer and saves once more
            gw.tasks.stop()
            self.after_stop(gw, self.armed_sync(FT))

    @staticmethod
    def armed_sync(FT):
        return bool(FT.instances) and FT.instances[-1].started and not FT.instances[-1].cancelled and \
            not FT.instances[-1].fired and all(t is FT.instances[-1] or t.fired or t.cancelled for t in FT.instances)

    def fire_sync(self, gw, FT, pos):
        if pos == 0:
            gw.start_persistence()
        else:
            FT.instances[-1].fire()

    # -- async ---------------------------------------------------------------------------
    def run_async(self, work):
        self.prepare_disk(work)
        import mysensors.task as mt
        sc = self
        loop = asyncio.new_event_loop()
        old_asyncio = mt.asyncio

        class FakeAsyncio:
            def __getattr__(self, name):
                return getattr(asyncio, name)

            async def sleep(self, delay):
                sc.sleeps += 1
                sc.clock += delay
                sc.sleeping.set()
                await sc.gate.wait()
                sc.gate.clear()

        async def wait_round():
            # the next round has been reached when the save task sleeps again; when the task is gone (an
            # exception escaped it) no round will ever come, and waiting out the limit for every later tick of
            # every scenario would only make the verdict slow
            deadline = loop.time() + 5.0
            while not sc.sleeping.is_set():
                if not sc.armed_async() or loop.time() > deadline:
                    return False
                await asyncio.sleep(0.001)
            sc.sleeping.clear()
            return True

        async def main():
            sc.sleeping, sc.gate, sc.clock = asyncio.Event(), asyncio.Event(), 0.0
            gw = pu.make_gateway("2.2", persistence_file=sc.conf, flavour="async")
            for pos, fault in enumerate(sc.plan):
                if pos > 0:
                    sc.apply_msg(gw)
                    sc.observe(gw, "msg", sc.armed_async(), sc.sleeps)
                shim = sc.shim_for(fault)
                mut = None
                escaped = None
                try:
                    with shim.installed():
                        if fault[0] == "mut":
                            sc.nmut += 1
                            mut = Mutator(gw, sc.fmt, fault[2], mutation_lines(fault[1], sc.nmut))
                            mut.__enter__()
                        try:
                            if pos == 0:
                                await gw.start_persistence()
                            else:
                                sc.gate.set()
                            reached = await wait_round()
                        finally:
                            if mut:
                                mut.__exit__()
                except Exception as exc:  # noqa: BLE001
                    escaped = type(exc).__name__
                    reached = False
                sc.record_tick(gw, fault, shim, mut, reached and sc.armed_async(), sc.sleeps, escaped)
            try:
                await asyncio.wait_for(gw.tasks.stop(), 5.0)
            except Exception as exc:  # noqa: BLE001
                sc.obs.append({"event": "stop", "escaped": type(exc).__name__})
            sc.after_stop(gw, sc.armed_async())

        mt.asyncio = FakeAsyncio()
        try:
            loop.run_until_complete(main())
        finally:
            mt.asyncio = old_asyncio
            loop.run_until_complete(loop.shutdown_default_executor())
            loop.close()

    @staticmethod
    def armed_async():
        cur = asyncio.current_task()
        return any(t is not cur and not t.done() for t in asyncio.all_tasks())

    # -- common --------------------------------------------------------------------------
    def record_tick(self, gw, fault, shim, mut, armed, rounds, escaped):
        if fault[0] == "io":
            ev = "io:" + fault[1]
        elif fault[0] == "mut":
            renamed = any(o[0] == "rename" and o[1] == os.path.basename(pu.tmp_name(self.main)) for o in shim.ops)
            changed = mut.fired and mut.before != pu.project_nodes(gw.sensors)
            ev = ("mok" if renamed else "merr") if changed else "ok"
        else:
            ev = fault[0]
        self.model_events.append(ev)
        self.observe(gw, ev, armed, rounds, shim, mut)
        self.obs[-1]["escaped"] = escaped
        self.obs[-1]["fault"] = list(fault)

    def after_stop(self, gw, armed):
        exc, sensors = self.loadable()
        self.stop_obs = {"armed": armed, "need_save": bool(gw.tasks.persistence.need_save),
                         "saved_current": exc is None and pu.project(sensors) == pu.project_reset(gw.sensors)}


def model_line(sc):
    return f"SCHED {sc.flavour} {sc.disk} " + " ".join(sc.model_events)


def impl_events(sc):
    out = []
    snap_raw = None
    for o in sc.obs:
        if "armed" not in o:
            continue
        load = o["load"]
        if o["event"] == "mok":
            snap_raw = load if snap_consistent(o) else None
        if snap_raw is not None and load == snap_raw and load != "raised":
            load = "snap"      # the file written under a concurrent message: "some snapshot" in the model
        else:
            snap_raw = None
        out.append(f"{int(o['armed'])},{int(o['need_save'])},{load},{o['rounds']},{o['cur']}")
    return " ".join(out)


def snap_consistent(o):
    """every loaded node is that node's complete version from before or after the concurrent message"""
    before, after = o["mut_before"] or {}, o["mut_after"] or {}
    for k, p in o["loaded_nodes"].items():
        if p != before.get(k) and p != after.get(k):
            return False
    return all(k in o["loaded_nodes"] for k in before)


def norm_model(sc, out):
    toks = []
    for t in out.split(" "):
        a, n, load, r, c = t.split(",")
        if load == "emptyNet":
            load = "0"
        toks.append(",".join([a, n, load, r, c]))
    return " ".join(toks)


def oracle(sc, res):
    """C15 judged on the real observations alone."""
    def fail(kind, what, o):
        res.oracle_failures.append({
            "key": {"kind": kind, "flavour": sc.flavour, "event": o.get("event"), "fault": (o.get("fault") or [None])[0]},
            "what": what, "replay": replay_of(sc)})
    last_loadable = "0"
    for i, o in enumerate(sc.obs):
        if "armed" not in o:
            fail("stop-raised", f"stop() raised {o.get('escaped')}", o)
            continue
        ev = o["event"]
        if ev == "msg":
            if not o["need_save"]:
                fail("msg-not-marked", "a handled message did not mark the state unsaved", o)
            continue
        if o.get("escaped"):
            fail("tick-raised", f"an exception ({o['escaped']}) escaped the scheduled save", o)
        if not o["armed"]:
            fail("not-rearmed", f"after a scheduled save with outcome '{ev}' no next save is armed", o)
        failing = ev.startswith("io:") and o["fault_fired"] or ev == "merr"
        if failing or ev == "denied":
            if not o["need_save"]:
                fail("failed-save-clears-mark", f"need_save is False after a failed save ({ev})", o)
            ok_loads = {last_loadable}
            if ev == "io:rmBak":
                ok_loads.add(str(o["cur"]))
            if o["load"] not in ok_loads:
                fail("failed-save-damages-file", f"after a failed save ({ev}) a start-up would load "
                     f"'{o['load']}' instead of the previous state '{last_loadable}'", o)
        elif ev == "mok":
            if not o["need_save"]:
                fail("lost-update", "a message handled during a successful dump left need_save False", o)
            if not (snap_consistent(o) and o["load"] != "raised"):
                fail("mixed-file", "the file written while the network changed is not loadable as complete nodes", o)
        else:   # ok (or an io fault on an operation this save does not perform)
            if o["load"] != str(o["cur"]):
                fail("ok-save-not-current", f"after a successful save a start-up would load '{o['load']}', "
                     f"not the current state '{o['cur']}'", o)
            if o["need_save"]:
                fail("ok-save-keeps-mark", "need_save still True after a successful save", o)
        last_loadable = o["load"]
    st = getattr(sc, "stop_obs", None)
    if st is not None:
        if st["armed"]:
            res.oracle_failures.append({"key": {"kind": "stop-leaves-armed", "flavour": sc.flavour},
                                        "what": "stop() left a save armed", "replay": replay_of(sc)})
        if not st["saved_current"]:
            res.oracle_failures.append({"key": {"kind": "stop-not-saved", "flavour": sc.flavour},
                                        "what": "after stop() the file does not hold the current state",
                                        "replay": replay_of(sc)})


def replay_of(sc):
    return {"fmt": sc.fmt, "flavour": sc.flavour, "disk": sc.disk, "plan": [list(f) for f in sc.plan], "alias": sc.alias}


def plans(rng, tier):
    """4-tick schedules: one fault at each position (all others ok), plus random multi-fault ones."""
    out = []
    faults = [("io", op) for op in IO_OPS] + [("denied",)]
    nmax = 3 if tier == "quick" else 8
    for kind in ("node", "child", "value", "idreq"):
        for n in range(1, nmax + 1):
            faults.append(("mut", kind, n))
    for f in faults:
        for pos in range(4):
            plan = [("ok",)] * 4
            plan[pos] = f
            out.append(plan)
    out.append([("ok",)] * 4)
    for _ in range(10 if tier == "quick" else 80):
        out.append([rng.choice(faults + [("ok",)] * 4) for _ in range(rng.choice([4, 4, 6]))])
    return out


def run_scenario(work, fmt, flavour, disk, plan, idx, alias=False):
    sc = Scenario(work, fmt, flavour, disk, plan, idx, alias)
    if flavour == "sync":
        sc.run_sync(work)
    else:
        sc.run_async(work)
    pu.rmtree(sc.dir)
    pu.rmtree(sc.load_dir)
    if sc.alias_dir:
        pu.rmtree(sc.alias_dir)
    return sc


def run(tier, seed, driver):
    res = Result()
    rng = random.Random(seed * 7919 + 15)
    work = tempfile.mkdtemp(prefix="verif-c15-")
    scs = []
    try:
        idx = 0
        allplans = plans(rng, tier)
        for fmt in pu.FORMATS:
            for flavour in ("sync", "async"):
                for pi, plan in enumerate(allplans):
                    disk = "good" if (pi + (fmt == "json")) % 2 == 0 or tier == "thorough" else "none"
                    disks = ["good", "none"] if tier == "thorough" else [disk]
                    runs = [(dk, False) for dk in disks]
                    if len(plan) == 4 and any(f[0] == "io" and f[1].startswith(("ren", "rm")) for f in plan):
                        runs.append(("good", True))      # the configured path is a symbolic link to the file
                    for dk, alias in runs:
                        idx += 1
                        try:
                            sc = run_scenario(work, fmt, flavour, dk, plan, idx, alias)
                        except Exception as exc:  # noqa: BLE001
                            res.oracle_failures.append({
                                "key": {"kind": "scenario-raised", "flavour": flavour, "exc": type(exc).__name__},
                                "what": f"the scheduled-save scenario raised {type(exc).__name__}: {exc}",
                                "replay": {"fmt": fmt, "flavour": flavour, "disk": dk, "plan": [list(f) for f in plan]}})
                            continue
                        scs.append(sc)
    finally:
        pu.rmtree(work)
    lines, impls = [], []
    for sc in scs:
        oracle(sc, res)
        lines.append(model_line(sc))
        impls.append(impl_events(sc))
        res.evaluations += sum(1 for o in sc.obs if o.get("event") != "msg")
        for o in sc.obs:
            if "armed" in o and o["event"] != "msg":
                res.count(f"{sc.flavour}:{o['event'].split(':')[0]}" + (":" + o["event"].split(":")[1] if ":" in o["event"] else ""))
        if any(o.get("event") not in ("ok", "msg") for o in sc.obs):
            res.distinct.add(digest([sc.fmt, sc.flavour, sc.disk, sc.model_events]))
    if driver is not None and lines:
        try:
            out = driver.run(lines)
        except Exception as exc:  # noqa: BLE001
            res.corr_diffs.append({"name": "sched-driver", "case": "driver", "model": str(exc), "impl": ""})
            out = None
        if out is not None:
            for sc, line, m, i in zip(scs, lines, out, impls):
                mm = norm_model(sc, m) if m not in ("-", "bad-op") else m
                if mm != i:
                    res.corr_diffs.append({"name": "sched", "case": f"{sc.fmt} {line}", "model": mm, "impl": i})
                    if len(res.corr_diffs) > 20:
                        break
            res.traces_validated = len(lines)
    res.rule = ("both formats × both flavours × 4-tick schedules (tick 0 = start_persistence) with a state-changing "
                "message between ticks: one fault at each tick position for every fault in {OSError at open, write, "
                "flush, fsync, close, rename main→bak, rename tmp→main, remove bak; refused permission check; a message "
                "adding a node / a child / a value type handled at the n-th object visited by the dump}, the all-ok "
                "schedule, and random multi-fault schedules of 4–6 ticks; initial files: none / a good file. "
                "per-tick observation: (armed, need_save, class of what a start-up would load, rounds, version). "
                "non-trivial = a schedule with at least one fault; distinct by (format, flavour, files, event list)")
    for sc in scs[:1] + scs[len(scs) // 2: len(scs) // 2 + 2]:
        res.sample({"fmt": sc.fmt, "model_line": model_line(sc), "impl": impl_events(sc)})
    return res


def replay(payload):
    print(payload)
    r = payload.get("replay", {})
    if "plan" not in r:
        return 0
    work = tempfile.mkdtemp(prefix="verif-c15-")
    res = Result()
    try:
        sc = run_scenario(work, r["fmt"], r["flavour"], r["disk"], [tuple(f) for f in r["plan"]], 1, bool(r.get("alias")))
    finally:
        pu.rmtree(work)
    oracle(sc, res)
    print("events:", sc.model_events)
    print("impl  :", impl_events(sc))
    try:
        print("model :", norm_model(sc, common.Driver().run([model_line(sc)])[0]))
    except Exception as exc:  # noqa: BLE001
        print("model : (driver unavailable)", exc)
    print("oracle failures:", [f["what"] for f in res.oracle_failures])
    return 1 if res.oracle_failures else 0
