"""C16 — sending races safely with connection loss and shutdown.

The real, unmodified `SyncTransport.send`, `Transport.disconnect`,
`BaseMySensorsProtocol._connection_lost / connection_lost / connection_made` run on real threads
under a deterministic cooperative scheduler (harness/coop.py).  Subclasses make every read/write
of `Transport.protocol` and `protocol.transport`, every `write()`/`close()` of the fake
connection and every callback a scheduling point — exactly the step granularity of the Lean
model (Model/Transport.lean).

correspondence   (a) the access sequence of every thread run alone == the model's program
                 (b) every interleaving (lexicographic DFS over the enabled threads of the real
                     execution, independent of the model) == the model's `run` on that schedule:
                     thread statuses / exception kinds, write attempts, final cells, callbacks,
                     enabled set; number of maximal schedules == the model's `allRuns`
                 (c) the same for `Transport.send` of the pinned commit (regression witness)
                 (d) the real SyncTasks queue + `_poll_queue` pump against several producers
oracle           no exception escapes `send`; at most one `write` call; what is written is the
                 complete message, on a connection open at that step; queue: sent ++ queued ==
                 append order, each job once.
"""
import collections
import itertools
import random
import subprocess
import threading
import types

from . import common
from .common import Result, digest
from .coop import Coop, Kill, HarnessHang

THEOREMS = [
    "MySensors.C16.send_safe_general", "MySensors.C16.send_never_raises",
    "MySensors.C16.send_terminates", "MySensors.C16.send_returns",
    "MySensors.C16.at_most_once", "MySensors.C16.written_or_dropped",
    "MySensors.C16.sender_alone_writes_once", "MySensors.C16.sender_alone_handles_oserror",
    "MySensors.C16.explored_two_thread", "MySensors.C16.explored_two_thread_all_schedules",
    "MySensors.C16.pinned_send_raises",
    "MySensors.C16.queue_fifo", "MySensors.C16.queue_exactly_once", "MySensors.C16.queue_complete",
    "MySensors.C16.queue_drains",
    "MySensors.C16.adjacent_disconnect_loss_race_witness",
    "MySensors.C16.adjacent_double_reconnect_witness",
    "MySensors.C16.adjacent_late_clear_witness",
]
ASSUMPTIONS = [
    "CPython threads: the atomic steps are the individual reads/writes of Transport.protocol and "
    "protocol.transport, write()/close() calls on the connection object, callback calls, and "
    "deque.append/popleft/__bool__ (atomic under the GIL); everything between two of them is "
    "thread-local.  The harness instruments exactly these points on the unmodified methods; a "
    "preemption inside one of them is not explored.",
    "write() on a connection another thread has closed raises an OSError subclass "
    "(serial.PortNotOpenError for ReaderThread.write, OSError(EBADF) for TCPTransport.write) and "
    "writes nothing; write() on an open connection writes the whole message (sendall / blocking "
    "serial write, serialised by ReaderThread._lock).  The fake connection implements exactly this.",
    "real thread scheduling, OS sockets and pyserial's reader thread are replaced by the "
    "deterministic scheduler and fake connection objects; ReaderThread.close()'s join(2) is not modelled",
    "one sender at a time (SyncTransport._lock serialises senders; the pump is the only sender)",
]

MSG = "1;1;1;0;2;1\n"
STARTS = ["connected", "broken", "notconnected", "noproto"]
OTHERS = ["nothing", "hook0", "hook1", "full0", "full1", "disc", "hook0+made", "hook1+made",
          "full0+made", "full1+made", "made", "hook0+disc", "hook1+disc"]
KINDS = ["send", "hook0", "hook1", "full0", "full1", "disc", "made"]


class Ctx:
    """One execution: the scheduler plus everything the fakes record."""

    def __init__(self, timeout=10.0):
        self.coop = Coop(timeout=timeout)
        self.attempts = []      # (conn name, was open)
        self.writes = []        # (conn name, bytes)
        self.lost = 0
        self.made = 0
        self.reconn = 0

    def point(self, tag):
        self.coop.park(tag)


class FakeSerialHandle:
    def __init__(self, conn):
        self.conn = conn

    def close(self):
        self.conn.ctx.point("sclose." + self.conn.name)
        self.conn.is_open = False

    def __repr__(self):
        return f"<serial {self.conn.name}>"


# which OSError subclass a failing write raises, and whether the first write on an OPEN connection
# fails with it after a partial write (set only by the error-class sweep of run(); the scenarios
# compared with the model use the defaults)
CONN_OPTS = {"err": None, "flaky": False}
# the reconnect callback is the real SyncTransport.connect (thread creation faked), not the counting stub
REAL_CONNECT = [False]


class FakeConn:
    """Stands for a ReaderThread / TCPTransport object: write() fails with OSError once closed."""

    def __init__(self, ctx, name, is_open=True):
        self.ctx = ctx
        self.name = name
        self.is_open = is_open
        self.serial = FakeSerialHandle(self)
        self.err = CONN_OPTS["err"] or OSError
        self.flaky = CONN_OPTS["flaky"] and name == "c0"

    def write(self, data):
        self.ctx.point("write." + self.name)
        if not self.is_open:
            self.ctx.attempts.append((self.name, False))
            raise self.err(9, "Bad file descriptor")
        self.ctx.attempts.append((self.name, True))
        if self.flaky:
            # the operating system took part of the command and then reported an error
            self.flaky = False
            self.ctx.writes.append((self.name, bytes(data)[:3] + b"..."))
            raise self.err(11, "injected write error on an open connection")
        self.ctx.writes.append((self.name, bytes(data)))

    def close(self):
        self.ctx.point("close." + self.name)
        self.is_open = False

    def __repr__(self):
        return f"<conn {self.name}>"


def make_classes(send_impl=None):
    """Instrumented subclasses; `send_impl` replaces Transport.send (pinned-commit witness)."""
    from mysensors.transport import SyncTransport, BaseMySensorsProtocol

    class ITransport(SyncTransport):
        _ctx = None

        def _get_p(self):
            if self._ctx is not None:
                self._ctx.point("R.tp")
            return self.__dict__.get("_p")

        def _set_p(self, value):
            if self._ctx is not None:
                self._ctx.point("W.tp")
            self.__dict__["_p"] = value

        protocol = property(_get_p, _set_p)

        def connect(self):
            # conn_lost_callback of the sync flavour; the real one starts the connect thread
            self._ctx.point("cb")
            self._ctx.reconn += 1

    if send_impl is not None:
        ITransport.send = send_impl

    if REAL_CONNECT[0]:
        class ITransportReal(ITransport):
            """keeps SyncTransport.connect; every access to a `connect_task` attribute is a scheduling point"""
            connect = SyncTransport.connect

            def _get_ct(self):
                if self._ctx is not None:
                    self._ctx.point("R.ct")
                return self.__dict__.get("_ct")

            def _set_ct(self, value):
                if self._ctx is not None:
                    self._ctx.point("W.ct")
                self.__dict__["_ct"] = value

            connect_task = property(_get_ct, _set_ct)
        ITransport = ITransportReal

    class IProtocol(BaseMySensorsProtocol):
        _ctx = None

        def _get_t(self):
            if self._ctx is not None:
                self._ctx.point("R.pt")
            return self.__dict__.get("_t")

        def _set_t(self, value):
            if self._ctx is not None:
                self._ctx.point("W.pt")
            self.__dict__["_t"] = value

        transport = property(_get_t, _set_t)

    return ITransport, IProtocol


_PINNED = {}


def pinned_send():
    """Transport.send of the pinned commit, taken from git (None when unavailable)."""
    if "fn" in _PINNED:
        return _PINNED["fn"]
    fn = None
    try:
        src = subprocess.run(["git", "-C", common.REPO, "show", "4d311f5:mysensors/transport.py"],
                             capture_output=True, text=True, timeout=20)
        if src.returncode == 0 and "def send" in src.stdout:
            ns = {"__name__": "pinned_transport"}
            exec(compile(src.stdout, "pinned_transport.py", "exec"), ns)  # noqa: S102 - repo source
            fn = ns["Transport"].send
    except Exception:  # noqa: BLE001
        fn = None
    _PINNED["fn"] = fn
    return fn


class FakeThreading:
    """stands in for `threading` inside mysensors.transport while the real connect() runs: a connect thread
    is an object whose start() counts a reconnect attempt and, like the real one, refuses a second start"""

    def __init__(self, ctx):
        shim = self

        class Thread:
            def __init__(self, target=None, args=(), **_kw):
                self.started = False
                shim.ctx.point("tnew")

            def start(self):
                shim.ctx.point("tstart")
                if self.started:
                    raise RuntimeError("threads can only be started once")
                self.started = True
                shim.ctx.reconn += 1

            def is_alive(self):
                return self.started

            def join(self, *_a):
                return None
        self.ctx = ctx
        self.Thread = Thread
        self.Lock = threading.Lock
        self.Event = threading.Event
        self.RLock = threading.RLock
        self.current_thread = threading.current_thread


class World:
    """Objects of one execution in a given start state, and its threads."""

    def __init__(self, start, thread_kinds, sender="send"):
        self.ctx = Ctx()
        impl = pinned_send() if sender == "pinned" else None
        ITransport, IProtocol = make_classes(impl)
        ctx = self.ctx

        def on_lost(_gw, _exc):
            ctx.point("onlost")
            ctx.lost += 1

        def on_made(_gw):
            ctx.point("onmade")
            ctx.made += 1

        self.gateway = types.SimpleNamespace(on_conn_lost=on_lost, on_conn_made=on_made)
        self.transport = ITransport(self.gateway, lambda t: None)
        self.proto = IProtocol(self.gateway, self.transport.connect)
        self.c0 = FakeConn(ctx, "c0", is_open=(start == "connected"))
        self.c1 = FakeConn(ctx, "c1", is_open=True)
        self.transport.protocol = None if start == "noproto" else self.proto
        self.proto.transport = self.c0 if start in ("connected", "broken") else None
        self.transport._ctx = ctx
        self.proto._ctx = ctx
        self._unpatch = None
        if REAL_CONNECT[0]:
            import mysensors.transport as m_transport
            real_threading = m_transport.threading
            m_transport.threading = FakeThreading(ctx)
            self._unpatch = lambda: setattr(m_transport, "threading", real_threading)
        self.guarded = []
        self.threads = []
        for k in thread_kinds:
            self.threads.append(self.ctx.coop.spawn(self._body(k), k))
            self.guarded.append(k == "madeg")
        for th in self.threads:
            self.ctx.coop.prime(th)

    def _body(self, kind):
        tr, pr = self.transport, self.proto
        if kind in ("send", "pinned"):
            return lambda: tr.send(MSG)
        if kind == "hook0":
            return lambda: pr._connection_lost(None)
        if kind == "hook1":
            return lambda: pr._connection_lost(OSError("lost"))
        if kind == "full0":
            return lambda: pr.connection_lost(None)
        if kind == "full1":
            return lambda: pr.connection_lost(OSError("lost"))
        if kind == "disc":
            return tr.disconnect
        if kind in ("made", "madeg"):
            return lambda: pr.connection_made(self.c1)
        raise ValueError(kind)

    def enabled(self):
        out = []
        for i, th in enumerate(self.threads):
            if th.done:
                continue
            if self.guarded[i] and th.tag == "W.pt" and not th.trace and self.ctx.reconn == 0:
                continue    # the reconnect thread exists only after conn_lost_callback()
            out.append(i)
        return out

    def step(self, i):
        self.ctx.coop.resume(self.threads[i])

    def observe(self):
        ctx = self.ctx
        sts = ",".join(th.status for th in self.threads)
        att = ",".join(f"{c}:{1 if ok else 0}" for c, ok in ctx.attempts) or "-"
        tp = self.transport.__dict__.get("_p")
        pt = self.proto.__dict__.get("_t")
        en = self.enabled()
        return (f"st={sts} att={att} tp={1 if tp is not None else 0} pt={pt.name if pt else 'None'} "
                f"o0={1 if self.c0.is_open else 0} o1={1 if self.c1.is_open else 0} lost={ctx.lost} "
                f"made={ctx.made} rc={ctx.reconn} q={0 if en else 1} en="
                + "".join("1" if i in en else "0" for i in range(len(self.threads))))

    def close(self):
        try:
            self.ctx.coop.shutdown()
        finally:
            if self._unpatch is not None:
                self._unpatch()


def other_threads(other):
    return {"nothing": [], "hook0": ["hook0"], "hook1": ["hook1"], "full0": ["full0"], "full1": ["full1"],
            "disc": ["disc"], "hook0+made": ["hook0", "madeg"], "hook1+made": ["hook1", "madeg"],
            "full0+made": ["full0", "madeg"], "full1+made": ["full1", "madeg"], "made": ["made"],
            "hook0+disc": ["hook0", "disc"], "hook1+disc": ["hook1", "disc"]}[other]


def solo(kind, start, sender="send"):
    w = World(start, ["pinned" if (kind == "send" and sender == "pinned") else kind], sender=sender)
    try:
        th = w.threads[0]
        n = 0
        while not th.done and n < 60:
            w.step(0)
            n += 1
        return ",".join(th.trace) or "-", th.status
    finally:
        w.close()


def execute(start, other, prefix, sender="send"):
    """Run `prefix`, then always the lowest enabled thread, until nothing can move.
    Returns (path, enabled set before every step, observation, world data for the oracle)."""
    w = World(start, [sender] + other_threads(other), sender=sender)
    try:
        path, ens = [], []
        k = 0
        while True:
            en = w.enabled()
            if not en:
                break
            if k < len(prefix):
                i = prefix[k]
                if i not in en:
                    raise HarnessHang(f"schedule {prefix} picks thread {i} which cannot move (enabled {en})")
            else:
                i = en[0]
            ens.append(en)
            path.append(i)
            w.step(i)
            k += 1
            if k > 80:
                raise HarnessHang("run does not terminate")
        obs = w.observe()
        data = {"attempts": list(w.ctx.attempts), "writes": list(w.ctx.writes),
                "sender": w.threads[0].status, "statuses": [t.status for t in w.threads],
                "reconn": w.ctx.reconn, "made": w.ctx.made,
                "pt": (w.proto.__dict__.get("_t").name if w.proto.__dict__.get("_t") else None)}
        return path, ens, obs, data
    finally:
        w.close()


def next_prefix(path, ens):
    for d in range(len(path) - 1, -1, -1):
        bigger = [j for j in ens[d] if j > path[d]]
        if bigger:
            return path[:d] + [bigger[0]]
    return None


def all_schedules(start, other, sender="send", cap=None):
    """Lexicographic DFS over the enabled threads of the real execution."""
    prefix = []
    n = 0
    while prefix is not None:
        path, ens, obs, data = execute(start, other, prefix, sender)
        yield path, obs, data
        n += 1
        if cap is not None and n >= cap:
            return
        prefix = next_prefix(path, ens)


def real_connection_contract(res):
    """Transport.send (real, uninstrumented) over the real connection classes of the threaded gateways:
    gateway_tcp.TCPTransport on a socketpair and pyserial's ReaderThread on a loop:// port, each usable,
    closed on our side, and (TCP) closed by the peer.  The reader threads are not started (ReaderThread.join
    is stubbed on the instance), so nothing here depends on timing."""
    import socket
    import serial
    import serial.threaded
    from mysensors.gateway_tcp import TCPTransport
    from mysensors.transport import BaseMySensorsProtocol, Transport
    fails = []
    for flavour, state in (("tcp", "open"), ("tcp", "closed"), ("tcp", "peer-closed"), ("tcp", "peer-reset"),
                           ("serial", "open"), ("serial", "closed")):
        reconn, lost = [], []
        gwns = types.SimpleNamespace(on_conn_lost=lambda *_a: lost.append(1), on_conn_made=lambda *_a: None)
        tr = Transport(gwns, lambda _t: None)
        proto = BaseMySensorsProtocol(gwns, lambda: reconn.append(1))
        peer = None
        if flavour == "tcp":
            sock, peer = socket.socketpair()
            conn = TCPTransport(sock, lambda: proto, lambda: None)
            raw = sock
        else:
            raw = serial.serial_for_url("loop://", timeout=0)
            conn = serial.threaded.ReaderThread(raw, lambda: proto)
        conn.join = lambda *_a: None          # the reader thread was never started
        proto.transport = conn
        tr.protocol = proto
        if state == "closed":
            raw.close()
        elif state == "peer-closed":
            peer.close()
        elif state == "peer-reset":
            import struct
            peer.setsockopt(socket.SOL_SOCKET, socket.SO_LINGER, struct.pack("ii", 1, 0))
            peer.close()
        outcome = "ret"
        try:
            tr.send(MSG)
        except BaseException as exc:  # noqa: BLE001
            outcome = type(exc).__name__
        got = None
        if state == "open":
            try:
                got = peer.recv(200) if flavour == "tcp" else raw.read(200)
            except OSError as exc:
                got = repr(exc)
        res.count(f"real-conn:{flavour}:{state}:{outcome}")
        res.distinct.add(digest(["real-conn", flavour, state]))
        key = {"kind": "real-connection-contract", "flavour": flavour, "state": state}
        rep = {"op": "real-conn", "flavour": flavour, "state": state}
        if outcome != "ret":
            fails.append({"key": key, "replay": rep,
                          "what": f"Transport.send over a real {flavour} connection ({state}) raised {outcome} "
                                  f"into its caller (the message pump)"})
        elif state == "open" and got != MSG.encode():
            fails.append({"key": key, "replay": rep,
                          "what": f"Transport.send over a usable real {flavour} connection delivered {got!r}, "
                                  f"not the whole command"})
        elif state == "closed" and reconn != [1]:
            fails.append({"key": key, "replay": rep,
                          "what": f"write on a closed real {flavour} connection did not end in exactly one "
                                  f"reconnect request (got {len(reconn)})"})
        for obj in (raw, peer):
            try:
                if obj is not None:
                    obj.close()
            except OSError:
                pass
    return fails


class CoopLock:
    """a lock whose waiting is a scheduling point (a parked holder must not block the whole schedule)"""

    def __init__(self, ctx):
        self.ctx = ctx
        self.held = False

    def acquire(self, *_a, **_k):
        while self.held:
            self.ctx.point("lock")
        self.held = True
        return True

    def release(self):
        self.held = False

    def __enter__(self):
        self.acquire()
        return self

    def __exit__(self, *exc):
        self.release()
        return False


class TimedCoopLock(CoopLock):
    """threading.Lock as the library may use it: acquire(timeout=t) gives up after a few turns of waiting and
    returns False; release() of a lock that is not held raises RuntimeError; release() by a thread that does
    not own the lock is allowed (threading.Lock does not check the owner)"""

    def __init__(self, ctx, patience):
        super().__init__(ctx)
        self.patience = patience

    def acquire(self, blocking=True, timeout=-1):
        waited = 0
        while self.held:
            if not blocking or (timeout is not None and timeout >= 0 and waited >= self.patience):
                return False
            self.ctx.point("lock")
            waited += 1
        self.held = True
        return True

    def release(self):
        if not self.held:
            raise RuntimeError("release unlocked lock")
        self.held = False

    def locked(self):
        return self.held


def two_senders(res, rng, tier, schedule=None):
    """SyncTransport.send from two threads at once — the pump and a user thread that sends directly — on a
    connection whose write takes its time.  Outside the interleaving model (which has one sender, the lock
    being what makes that so): judged on the real code only.  Neither send may raise, no command may be
    written twice, and a command is written whole."""
    from mysensors.transport import BaseMySensorsProtocol, SyncTransport
    fails = []
    msgs = ["1;1;1;0;47;21.5 °C ünï\n", "2;1;1;0;2;0\n"]       # (commands carry whatever text the controller set)
    for trial in range(1 if schedule is not None else 80 if tier == "quick" else 2000):
        ctx = Ctx(timeout=2.0)
        writes = []

        class SlowConn:
            closed = False

            def write(self, data):
                ctx.point("w-begin")
                if self.closed:
                    raise OSError(9, "Bad file descriptor")
                ctx.point("w-mid")
                ctx.point("w-end")
                writes.append(data.decode())

            def close(self):
                self.closed = True
        gwns = types.SimpleNamespace(on_conn_lost=lambda *_a: None, on_conn_made=lambda *_a: None)
        tr = SyncTransport(gwns, lambda _t: None, timeout=1.0)
        tr.connect = lambda: None
        tr._lock = TimedCoopLock(ctx, patience=(trial % 3) + 1)
        proto = BaseMySensorsProtocol(gwns, lambda: None)
        proto.transport = SlowConn()
        tr.protocol = proto
        try:
            threads = [ctx.coop.spawn(lambda m=m: tr.send(m), name) for m, name in zip(msgs, ("pump", "user"))]
            for th in threads:
                ctx.coop.prime(th)
            sched = []
            for step in range(60):
                live = [i for i, th in enumerate(threads) if not th.done]
                if not live:
                    break
                i = schedule[step] if schedule is not None and step < len(schedule) else rng.choice(live)
                if i not in live:
                    i = live[0]
                sched.append(i)
                ctx.coop.resume(threads[i])
            statuses = [th.status for th in threads]
        except HarnessHang:
            res.count("two-senders:infeasible")
            continue
        finally:
            ctx.coop.shutdown()
        res.evaluations += 1
        res.count("two-senders")
        res.distinct.add(digest(["2s", sched]))
        bad = None
        raised = [(n, st) for n, st in zip(("pump", "user"), statuses) if st not in ("ret", "run", "done")]
        if raised:
            bad = f"send on the {raised[0][0]} thread ended with {raised[0][1]}"
        elif any(writes.count(m) > 1 for m in msgs) or any(w not in msgs for w in writes):
            bad = f"what was written: {writes}"
        if bad:
            fails.append({"key": {"kind": "two-senders"}, "replay": {"op": "two-senders", "schedule": sched, "trial": trial},
                          "what": f"two threads in SyncTransport.send on a slow connection: {bad} (schedule {sched}, "
                                  f"a timed acquire gives up after {(trial % 3) + 1} turns)"})
            if len(fails) > 3:
                break
    return fails


class PointDeque(collections.deque):
    """a deque of plain values whose every access is a scheduling point; iteration behaves as the real one
    does (it raises when the deque changes size between two steps)"""
    ctx = None

    def append(self, item):
        self.ctx.point("q.append")
        super().append(item)

    def appendleft(self, item):
        self.ctx.point("q.appendleft")
        super().appendleft(item)

    def popleft(self):
        self.ctx.point("q.popleft")
        return super().popleft()

    def pop(self):
        self.ctx.point("q.pop")
        return super().pop()

    def clear(self):
        self.ctx.point("q.clear")
        super().clear()

    def __bool__(self):
        self.ctx.point("q.bool")
        return len(self) > 0

    def __len__(self):
        return collections.deque.__len__(self)

    def __iter__(self):
        size = collections.deque.__len__(self)
        i = 0
        while i < size:
            self.ctx.point("q.next")
            if collections.deque.__len__(self) != size:
                raise RuntimeError("deque mutated during iteration")
            yield collections.deque.__getitem__(self, i)
            i += 1
        self.ctx.point("q.next")
        if collections.deque.__len__(self) != size:
            raise RuntimeError("deque mutated during iteration")

    def copy(self):
        self.ctx.point("q.copy")
        return collections.deque(collections.deque.__iter__(self))


def sleeper_queue(schedule):
    """The queue of commands withheld for one sleeping node is filled from the controller's thread
    (`set_child_value` -> `is_sensor` -> `_route_message`) and emptied by the pump's thread when the node wakes up.
    One wake-up against one controller call under the given schedule.  Returns (statuses, commands released to
    the pump, commands still withheld, what was withheld before)."""
    from mysensors.gateway_serial import SerialGateway
    ctx = Ctx(timeout=3.0)
    gw = SerialGateway("/dev/verif-none", protocol_version="2.2")
    gw.tasks.transport.protocol.transport = PlainConn()
    for line in ("1;255;0;0;17;2.2\n", "1;0;0;0;3;\n", "1;0;1;0;2;1\n", "1;255;3;0;32;500\n",
                 "1;0;2;0;2;\n", "1;255;3;0;6;\n"):
        gw.logic(line)
    node = gw.sensors[1]
    before = list(node.queue)
    pq = PointDeque(before)
    pq.ctx = ctx
    node.queue = pq
    released = []
    gw.tasks.add_job = lambda func, *args: released.append(func(*args))
    try:
        threads = [ctx.coop.spawn(lambda: gw.logic("1;255;3;0;32;501\n"), "pump"),
                   ctx.coop.spawn(lambda: gw.set_child_value(1, 9, 2, "1"), "controller")]
        for th in threads:
            ctx.coop.prime(th)
        for step in range(80):
            live = [i for i, th in enumerate(threads) if not th.done]
            if not live:
                break
            i = schedule[step] if step < len(schedule) else live[0]
            ctx.coop.resume(threads[i if i in live else live[0]])
        statuses = [th.status for th in threads]
    finally:
        ctx.coop.shutdown()
    return statuses, [str(x) for x in released], list(collections.deque.__iter__(pq)), before


def sleeper_queue_part(res, tier):
    fails = []
    for sched in itertools.product((0, 1), repeat=9 if tier == "quick" else 12):
        try:
            statuses, released, held, before = sleeper_queue(list(sched))
        except HarnessHang:
            res.count("sleeper-queue:infeasible")
            continue
        res.evaluations += 1
        res.count("sleeper-queue")
        want = before + ["1;255;3;0;19;\n"]
        got = released + held
        bad = None
        raised = [(n, st) for n, st in zip(("pump", "controller"), statuses) if st not in ("ret", "done")]
        if raised and raised[0][1] != "ValueError":      # (the controller call for an unknown child may be refused)
            bad = f"the {raised[0][0]} thread ended with {raised[0][1]}"
        elif sorted(got) != sorted(want):
            bad = f"withheld {before}, one more queued by the controller: released {released}, still withheld {held}"
        elif [c for c in got if c in before] != before:
            bad = f"order changed: released {released}, still withheld {held}, withheld before {before}"
        if bad:
            fails.append({"key": {"kind": "sleeper-queue"}, "replay": {"op": "sleeper-queue", "schedule": list(sched)},
                          "what": f"a sleeping node wakes up while the controller queues a command for it "
                                  f"(schedule {list(sched)}): {bad}"})
            if len(fails) >= 3:
                break
    return fails


def mqtt_pump(res):
    """The pump of the thread-based MQTT gateway (the real poll loop on a real thread) with a publish callback
    that fails in every way a client library does: every queued command reaches the callback once, in queue
    order, and the loop is still running afterwards."""
    import time as real_time
    from mysensors.gateway_mqtt import MQTTGateway
    from .c17 import UserError
    kinds = [lambda: RuntimeError("client is not connected"), TimeoutError, lambda: ValueError(7), ConnectionError,
             lambda: OSError(5, "Input/output error"), lambda: KeyError("mid"), UserError, lambda: Exception(),
             lambda: UnicodeEncodeError("utf-8", "x", 0, 1, "surrogates not allowed"), AssertionError,
             lambda: AttributeError("'NoneType' object has no attribute 'publish'"), lambda: LookupError("no route")]
    seen, died = [], []

    def pub(topic, payload, qos, retain):
        seen.append(topic)
        if len(seen) % 2:
            raise kinds[(len(seen) // 2) % len(kinds)]()
    gw = MQTTGateway(pub, lambda *a: None, protocol_version="2.2")
    cmds = [f"{n};1;1;0;2;{n % 2}\n" for n in range(1, 25)]
    for c in cmds:
        gw.tasks.add_job(str, c)

    def loop():
        try:
            gw.tasks._poll_queue()
        except BaseException as exc:  # noqa: BLE001
            died.append(f"{type(exc).__name__}: {exc}")
    th = threading.Thread(target=loop, daemon=True)
    th.start()
    deadline = real_time.time() + 5.0
    while real_time.time() < deadline and th.is_alive() and (gw.tasks.queue or len(seen) < len(cmds)):
        real_time.sleep(0.01)
    alive = th.is_alive()
    gw.tasks._stop_event.set()
    th.join(2.0)
    res.evaluations += 1
    res.count("mqtt-pump")
    want = [f"/{n}/1/1/0/2" for n in range(1, 25)]
    bad = None
    if died or not alive:
        bad = f"the poll loop ended ({died[0] if died else 'returned'}) after {len(seen)} of {len(cmds)} commands"
    elif seen != want:
        bad = f"the callback saw {len(seen)} publishes, first difference at {next((i for i, (a, b) in enumerate(zip(seen, want)) if a != b), min(len(seen), len(want)))}"
    if bad:
        return [{"key": {"kind": "mqtt-pump"}, "replay": {"op": "mqtt-pump"},
                 "what": f"thread-based MQTT gateway, publish callback raising every other time (twelve kinds of exception): {bad}"}]
    return []


def tcp_write_vs_disconnect(res, rng, tier):
    """Transport.send over the real TCPTransport while the user disconnects: the operating system takes the
    command in two pieces (a scheduling point in between); the peer must see the whole command or nothing."""
    import socket
    from mysensors.gateway_tcp import TCPTransport
    from mysensors.transport import BaseMySensorsProtocol, Transport
    fails = []
    for trial in range(60 if tier == "quick" else 1500):
        ctx = Ctx(timeout=2.0)
        a, b = socket.socketpair()
        b.setblocking(False)

        class SockWrap:
            def __init__(self, sock):
                self.sock = sock

            def sendall(self, data):
                half = len(data) // 2
                self.sock.sendall(data[:half])
                ctx.point("mid-sendall")
                self.sock.sendall(data[half:])

            def __getattr__(self, name):
                return getattr(self.sock, name)
        gwns = types.SimpleNamespace(on_conn_lost=lambda *_a: None, on_conn_made=lambda *_a: None)
        tr = Transport(gwns, lambda _t: None)
        proto = BaseMySensorsProtocol(gwns, lambda: None)
        conn = TCPTransport(SockWrap(a), lambda: proto, lambda: None)
        conn.join = lambda *_a: None
        conn._lock = CoopLock(ctx)
        proto.transport = conn
        tr.protocol = proto
        try:
            threads = [ctx.coop.spawn(lambda: tr.send(MSG), "send"), ctx.coop.spawn(tr.disconnect, "disc")]
            for th in threads:
                ctx.coop.prime(th)
            sched = []
            for _ in range(120):
                live = [i for i, th in enumerate(threads) if not th.done]
                if not live:
                    break
                i = rng.choice(live)
                sched.append(i)
                ctx.coop.resume(threads[i])
            statuses = [th.status for th in threads]
            got = b""
            try:
                while True:
                    piece = b.recv(4096)
                    if not piece:
                        break
                    got += piece
            except OSError:
                pass
        except HarnessHang:
            res.count("tcp-write-disconnect:infeasible")
            continue
        finally:
            ctx.coop.shutdown()
            for sock in (a, b):
                try:
                    sock.close()
                except OSError:
                    pass
        res.count("tcp-write-disconnect:" + ("whole" if got == MSG.encode() else "nothing" if not got else "partial"))
        res.distinct.add(digest(["twd", sched]))
        bad = None
        if statuses[0] not in ("ret", "run", "done"):
            bad = f"send ended with {statuses[0]}"
        elif got not in (b"", MSG.encode()):
            bad = f"the peer received the truncated command {got!r}"
        if bad:
            fails.append({"key": {"kind": "tcp-write-vs-disconnect"}, "replay": {"op": "tcp-write-disconnect", "schedule": sched},
                          "what": f"disconnect() while a send is writing to the real TCPTransport: {bad} (schedule {sched})"})
            if len(fails) > 3:
                break
    return fails


def judge(data):
    """Property C16 on one real execution.  None or (kind, description)."""
    if data["sender"] not in ("ret",):
        return ("send-raised", f"send ended with {data['sender']}")
    if len(data["attempts"]) > 1:
        return ("write-twice", f"write() called {len(data['attempts'])} times")
    if len(data["writes"]) > 1:
        return ("written-twice", "message written twice")
    for name, payload in data["writes"]:
        if payload != MSG.encode():
            return ("partial-write", f"wrote {payload!r}")
    for (name, ok), wr in zip([a for a in data["attempts"] if a[1]], data["writes"]):
        if wr[0] != name:
            return ("write-log-mismatch", "write log does not match the successful attempts")
    return None


# ---------------------------------------------------------------------------------------
# queue: real SyncTasks + _poll_queue against several producers
# ---------------------------------------------------------------------------------------

class IDeque(collections.deque):
    ctx = None
    order = None

    argless_tag = "?"

    def _tag(self, item):
        return item[1][0] if item[1] else self.argless_tag

    def append(self, item):
        self.ctx.point("append")
        self.order.append(self._tag(item))
        super().append(item)

    # putting something in at the other end, or in the middle, is an access like any other; `order` keeps the
    # order of the calls (what "queue order" means for commands queued from several threads)
    def appendleft(self, item):
        self.ctx.point("appendleft")
        self.order.append(self._tag(item))
        super().appendleft(item)

    def insert(self, index, item):
        self.ctx.point("insert")
        self.order.append(self._tag(item))
        super().insert(index, item)

    def extend(self, items):
        for item in items:
            self.append(item)

    def extendleft(self, items):
        for item in items:
            self.appendleft(item)

    def popleft(self):
        self.ctx.point("pop")
        return super().popleft()

    def __bool__(self):
        self.ctx.point("bool")
        return len(self) > 0

    # every other way of looking at or emptying the shared deque is a scheduling point too (the code as it
    # is uses none of them; a rewrite of the pump that does can be interleaved with the producers)
    def __iter__(self):
        self.ctx.point("iter")
        return iter(list(collections.deque.__iter__(self)))

    def clear(self):
        self.ctx.point("clear")
        return super().clear()

    def copy(self):
        self.ctx.point("copy")
        return collections.deque(collections.deque.__iter__(self))

    def pop(self):
        self.ctx.point("popright")
        return super().pop()

    def __getitem__(self, index):
        self.ctx.point("getitem")
        return super().__getitem__(index)


class PlainConn:
    def __init__(self):
        self.writes = []
        self.ctx = None          # set only by the stop() sweep: a scheduling point right before the write

    def write(self, data):
        if self.ctx is not None:
            self.ctx.point("wr")
        self.writes.append(data.decode())

    def close(self):
        pass


class _TimeShim:
    def __init__(self, ctx):
        self.ctx = ctx

    def sleep(self, _secs):
        self.ctx.point("slp")

    def time(self):
        return 0.0


def coop_event_class(ctx, points=True):
    """threading.Event for the code under test while the scheduler runs its threads: set and clear are
    atomic steps with a scheduling point in front of them (not in the sweep with a stop() thread, where the
    point would cut stop() in two and let a start() from another user thread run in the middle of it: two
    calls the property does not race against each other), is_set is a plain read; wait() without the flag
    parks the thread, which makes progress again only once another thread has set the flag (a timed wait
    gives up after one turn)."""
    class CoopEvent:
        def __init__(self):
            self.flag = False

        def set(self):
            if points:
                ctx.point("evset")
            self.flag = True

        def clear(self):
            if points:
                ctx.point("evclear")
            self.flag = False

        def is_set(self):
            return self.flag

        isSet = is_set

        def wait(self, timeout=None):
            if self.flag:
                return True
            if timeout is not None:
                ctx.point("slp")
                return self.flag
            while not self.flag:
                ctx.point("blocked")
            return True
    return CoopEvent


def queue_run(counts, sched, with_stop=False, drain=False, keepalive=False):
    """counts: jobs per producer; sched: list of 'u' (pump), producer index, or 's' (the thread calling
    stop(), only with_stop).  keepalive: the gateway is a TCP gateway and the last producer is its reader
    thread, whose one job is the version request check_connection() queues when the keep-alive is due."""
    import mysensors.task as task_mod
    from mysensors.gateway_serial import SerialGateway
    ctx = Ctx(timeout=0.4 if with_stop else 10.0)
    real_threading = task_mod.threading
    wanted = []

    class FakeThread:
        def __init__(self, target=None, args=(), **_kw):
            self.target = target

        def start(self):
            wanted.append(self.target)

    class Proxy:
        Event = coop_event_class(ctx, points=not with_stop)

        def __getattr__(self, name):
            if name == "Thread" and with_stop:
                return FakeThread
            return getattr(real_threading, name)
    task_mod.threading = Proxy()
    try:
        if keepalive:
            import mysensors.gateway_tcp as tcp_mod
            gw = tcp_mod.TCPGateway("127.0.0.1", 5003)
        else:
            gw = SerialGateway("/dev/verif-none")
    except BaseException:
        task_mod.threading = real_threading
        raise
    real_tcp_time = None
    if keepalive:
        # the keep-alive is due (more than reconnect_timeout since the last one), the link is not given up yet
        due = gw.tcp_check_timer + float(gw.tasks.transport.reconnect_timeout) + 1.0
        real_tcp_time = tcp_mod.time
        tcp_mod.time = types.SimpleNamespace(time=lambda: due, sleep=lambda _s: None)
    conn = PlainConn()
    if with_stop:
        conn.ctx = ctx
    gw.tasks.transport.protocol.transport = conn
    # the library's own queue object, instrumented: same class arguments (a bound, if it has one) and content
    own = gw.tasks.queue
    dq = IDeque(collections.deque.__iter__(own), getattr(own, "maxlen", None)) if isinstance(own, collections.deque) else IDeque()
    dq.ctx = ctx
    dq.order = []
    dq.argless_tag = f"{len(counts) - 1}.0"
    gw.tasks.queue = dq
    old_time = getattr(task_mod, "time", None)
    if old_time is not None:
        task_mod.time = _TimeShim(ctx)
    try:
        def producer(i):
            def body():
                if keepalive and i == len(counts) - 1:
                    gw.check_connection()
                    return
                for k in range(counts[i]):
                    gw.tasks.add_job(lambda tag: tag + "\n", f"{i}.{k}")
            return body

        prods = [ctx.coop.spawn(producer(i), f"p{i}") for i in range(len(counts))]
        pump = ctx.coop.spawn(gw.tasks._poll_queue, "pump")
        stopper = ctx.coop.spawn(gw.tasks.stop, "stop") if with_stop else None
        restarter, pump2 = None, []
        if with_stop:
            # 'r': the user starts the stopped gateway again; the poll thread start() creates is run under the
            # scheduler as well ('v')
            gw.tasks.transport.connect = lambda: None
            restarter = ctx.coop.spawn(gw.tasks.start, "restart")
        for th in prods + [pump] + ([stopper, restarter] if with_stop else []):
            ctx.coop.prime(th)
        for a in sched:
            if a == "v":
                th = pump2[0] if pump2 else None
            else:
                th = pump if a == "u" else stopper if a == "s" else restarter if a == "r" else prods[a]
            if th is not None and not th.done:
                ctx.coop.resume(th)
            while wanted:
                new_pump = ctx.coop.spawn(wanted.pop(0), "pump2")
                ctx.coop.prime(new_pump)
                pump2.append(new_pump)
        executed = list(sched)
        if drain:
            # the producers append whatever they have left, then the pump gets six turns per job and a few
            # more (C16.queue_drains: three per job empty the queue from any state the pump can be in)
            for i, th in enumerate(prods):
                turns = 0
                while not th.done and turns < 8 * counts[i] + 8:
                    ctx.coop.resume(th)
                    executed.append(i)
                    turns += 1
            for _ in range(6 * sum(counts) + 12):
                if pump.done:
                    break
                ctx.coop.resume(pump)
                executed.append("u")
        sent = [dq.argless_tag if keepalive and w.strip() == "0;255;3;0;2;" else w.strip() for w in conn.writes]
        queued = [dq._tag(item) for item in collections.deque.__iter__(dq)]
        tag = pump.tag if not pump.done else "done"
        return {"sent": sent, "queue": queued, "order": list(dq.order), "pump": tag, "executed": executed,
                "producers_done": all(th.done for th in prods),
                "pump_status": pump.status, "stop_status": stopper.status if with_stop else None,
                "pump2_status": pump2[0].status if pump2 else None,
                "restart_status": restarter.status if restarter else None}
    finally:
        if old_time is not None:
            task_mod.time = old_time
        if real_tcp_time is not None:
            tcp_mod.time = real_tcp_time
        task_mod.threading = real_threading
        ctx.coop.shutdown()


def judge_queue(counts, r, drained=False):
    if r["pump_status"] not in ("run",):
        return ("pump-died", f"pump ended with {r['pump_status']}")
    if drained and not r.get("producers_done", True):
        return ("producer-blocked", "a producer did not get through add_job in eight turns per job")
    if drained and (r["queue"] or len(r["sent"]) != sum(counts)):
        sent = set(r["sent"])
        missing = [f"{i}.{k}" for i, n in enumerate(counts) for k in range(n) if f"{i}.{k}" not in sent]
        return ("job-never-sent", f"all producers are done and the pump has had six turns per job and more: "
                                  f"{len(r['sent'])} of {sum(counts)} queued commands were sent, {len(r['queue'])} are "
                                  f"still queued, never sent: {missing[:8]}{' ...' if len(missing) > 8 else ''} "
                                  f"(the pump is at '{r['pump']}')")
    if r["sent"] + r["queue"] != r["order"]:
        return ("not-fifo", f"sent+queue {r['sent'] + r['queue']} != append order {r['order']}")
    if len(set(r["order"])) != len(r["order"]):
        return ("duplicate", "a job was appended twice")
    for i, n in enumerate(counts):
        mine = [j for j in r["order"] if j.startswith(f"{i}.")]
        if mine != [f"{i}.{k}" for k in range(len(mine))]:
            return ("producer-order", f"producer {i} order {mine}")
    return None


def judge_queue_stop(r):
    """With a user thread calling stop() in the mix: nobody dies, and what was sent is in queue order, each
    command at most once (commands still queued at the stop need not be sent)."""
    if r["pump_status"] not in ("run", "ret", "done"):
        return ("pump-died", f"pump ended with {r['pump_status']}")
    if r["stop_status"] not in ("run", "ret", "done", "new"):
        return ("stop-raised", f"stop() ended with {r['stop_status']}")
    if r.get("pump2_status") not in (None, "run", "ret", "done", "new"):
        return ("pump-died", f"the poll thread of the second start() ended with {r['pump2_status']}")
    if r.get("restart_status") not in (None, "run", "ret", "done", "new"):
        return ("start-raised", f"start() ended with {r['restart_status']}")
    if len(set(r["sent"])) != len(r["sent"]):
        return ("sent-twice", f"a command was sent twice: {r['sent']}")
    in_order = [j for j in r["order"] if j in set(r["sent"])]
    if r["sent"] != in_order:
        return ("not-queue-order", f"sent {r['sent']} but queued in the order {r['order']}")
    return None


def show_jobs(l):
    return ",".join(l) or "-"


# ---------------------------------------------------------------------------------------

def run(tier, seed, driver):
    res = Result()
    rng = random.Random(seed * 7919 + 16)
    ops, impl, cases = [], [], []

    # (a) solo access sequences
    for kind in KINDS:
        for start in STARTS:
            seq, status = solo(kind, start)
            ops.append(f"TRSOLO {kind} {start}")
            impl.append(seq)
            cases.append(("solo", kind, start))
            res.count("solo")
            res.distinct.add(digest(["solo", kind, start, seq]))
    if pinned_send() is not None:
        seq, status = solo("send", "connected", sender="pinned")
        ops.append("TRSOLO pinned connected")
        impl.append(seq)
        cases.append(("solo", "pinned", "connected"))
    res.sample({"solo send/broken": solo("send", "broken")[0], "solo disc/connected": solo("disc", "connected")[0]})

    # (b) all interleavings
    three = {"hook0+made", "hook1+made", "full0+made", "full1+made", "hook0+disc", "hook1+disc"}
    cap3 = 250 if tier == "quick" else 2500
    nrand3 = (60 if tier == "quick" else 1500) * common.effort(tier)
    counts = {}
    adjacent = {"disconnect_raised": 0, "double_reconnect": 0, "late_clear": 0}
    exhaustive = True
    for start in STARTS:
        for other in OTHERS:
            cap = cap3 if other in three else None
            n = 0
            for path, obs, data in all_schedules(start, other, cap=cap):
                n += 1
                sc = ",".join(map(str, path)) or "-"
                ops.append(f"TRRUN send {start} {other} {sc}")
                impl.append(obs)
                cases.append(("run", start, other, path))
                res.count("schedules")
                res.count("outcome:" + ("written" if data["writes"] else "dropped"))
                res.distinct.add(digest([start, other, path]))
                bad = judge(data)
                if bad:
                    res.oracle_failures.append({
                        "key": {"kind": bad[0], "start": start, "other": other},
                        "what": f"{bad[1]} (start={start}, against={other}, schedule={path})",
                        "replay": {"op": "run", "sender": "send", "start": start, "other": other, "schedule": path}})
                if "disc" in other and len(data["statuses"]) == 3 and data["statuses"][2] == "AttributeError":
                    adjacent["disconnect_raised"] += 1
                if data["reconn"] >= 2:
                    adjacent["double_reconnect"] += 1
                if data["made"] >= 1 and data["pt"] is None and "made" in other:
                    adjacent["late_clear"] += 1
            if cap is not None and n >= cap:
                exhaustive = False
                # plus random schedules of the capped scenarios
                for _ in range(nrand3):
                    pre = [rng.randrange(3) for _ in range(rng.randrange(2, 14))]
                    try:
                        path, ens, obs, data = execute(start, other, _feasible(start, other, pre))
                    except HarnessHang:
                        continue
                    sc = ",".join(map(str, path)) or "-"
                    ops.append(f"TRRUN send {start} {other} {sc}")
                    impl.append(obs)
                    cases.append(("run", start, other, path))
                    res.count("schedules")
                    res.distinct.add(digest([start, other, path]))
                    bad = judge(data)
                    if bad:
                        res.oracle_failures.append({
                            "key": {"kind": bad[0], "start": start, "other": other},
                            "what": f"{bad[1]} (start={start}, against={other}, schedule={path})",
                            "replay": {"op": "run", "sender": "send", "start": start, "other": other, "schedule": path}})
            else:
                counts[(start, other)] = n
                ops.append(f"TRCOUNT send {start} {other}")
                impl.append(str(n))
                cases.append(("count", start, other))
    res.exhaustive = exhaustive
    res.extra["adjacent_races_observed"] = adjacent

    # (c) pinned-commit send: the model and the old code agree that it raises
    pinned_raised = 0
    if pinned_send() is not None:
        for other in (["hook0", "hook1"] if tier == "quick" else ["hook0", "hook1", "disc"]):
            n = 0
            for path, obs, data in all_schedules("connected", other, sender="pinned"):
                n += 1
                sc = ",".join(map(str, path)) or "-"
                ops.append(f"TRRUN pinned connected {other} {sc}")
                impl.append(obs)
                cases.append(("pinned", "connected", other, path))
                res.count("pinned-schedules")
                if data["sender"] == "AttributeError":
                    pinned_raised += 1
            ops.append(f"TRCOUNT pinned connected {other}")
            impl.append(str(n))
            cases.append(("count-pinned", other))
        res.extra["pinned_commit_send_raised_AttributeError_in"] = pinned_raised
    else:
        res.assumptions.append("pinned commit not available from git: regression witness (c) skipped")

    # (c') error classes: a failing write may raise any OSError subclass, on a closed connection or on an
    # open one after a partial write; judged by the oracle only (the model has one kind of write error)
    err_classes = [BlockingIOError, BrokenPipeError, ConnectionResetError, ConnectionAbortedError,
                   TimeoutError, InterruptedError, PermissionError]
    for err in err_classes:
        for flaky, start in ((False, "broken"), (True, "connected")):
            CONN_OPTS["err"], CONN_OPTS["flaky"] = err, flaky
            try:
                for other in ("nothing", "hook0", "hook1", "disc", "made"):
                    for path, obs, data in all_schedules(start, other, cap=60 if tier == "quick" else 2000):
                        res.count("error-class-schedules")
                        res.distinct.add(digest(["err", err.__name__, flaky, other, path]))
                        bad = None
                        if data["sender"] != "ret":
                            bad = ("send-raised", f"send ended with {data['sender']}")
                        elif len(data["attempts"]) > 1:
                            bad = ("write-twice", f"write() called {len(data['attempts'])} times")
                        if bad:
                            res.oracle_failures.append({
                                "key": {"kind": bad[0], "error": err.__name__, "flaky": flaky, "other": other},
                                "what": f"{bad[1]} when write raises {err.__name__} on "
                                        f"{'an open connection after a partial write' if flaky else 'a closed connection'} "
                                        f"(against={other}, schedule={path})",
                                "replay": {"op": "run", "sender": "send", "start": start, "other": other,
                                           "schedule": path, "write_error": err.__name__, "flaky": flaky}})
            finally:
                CONN_OPTS["err"], CONN_OPTS["flaky"] = None, False

    # (c4) the reconnect callback is the real SyncTransport.connect: a sender whose write fails and a
    # reader that loses the connection both ask for a reconnect; neither may raise (oracle only)
    REAL_CONNECT[0] = True
    try:
        for start, other in (("broken", "hook1"), ("broken", "full1"), ("connected", "hook1"), ("broken", "hook0")):
            sched_iter = all_schedules(start, other, cap=400 if tier == "quick" else 6000)
            while True:
                try:
                    path, obs, data = next(sched_iter)
                except StopIteration:
                    break
                except HarnessHang as exc:
                    res.oracle_failures.append({
                        "key": {"kind": "send-never-returns", "start": start, "other": other},
                        "what": f"with the real SyncTransport.connect as reconnect callback a thread blocked for good "
                                f"(start={start}, against={other}): {exc}",
                        "replay": {"op": "run", "sender": "send", "start": start, "other": other, "schedule": [],
                                   "real_connect": True}})
                    break
                res.count("real-connect-schedules")
                res.distinct.add(digest(["rc", start, other, path]))
                bad = [st for st in data["statuses"] if st not in ("ret", "run", "new", "done")]
                if bad:
                    res.oracle_failures.append({
                        "key": {"kind": "reconnect-raised", "start": start, "other": other, "exc": bad[0]},
                        "what": f"a thread ended with {bad[0]} when a failing send and a connection loss both request "
                                f"a reconnect through the real SyncTransport.connect (start={start}, against={other}, "
                                f"schedule={path})",
                        "replay": {"op": "run", "sender": "send", "start": start, "other": other, "schedule": path,
                                   "real_connect": True}})
    finally:
        REAL_CONNECT[0] = False

    for bad in tcp_write_vs_disconnect(res, rng, tier):
        res.oracle_failures.append(bad)
    for bad in two_senders(res, rng, tier):
        res.oracle_failures.append(bad)
    for bad in mqtt_pump(res):
        res.oracle_failures.append(bad)
    for bad in sleeper_queue_part(res, tier):
        res.oracle_failures.append(bad)

    # (c'') the real connection objects honour the contract the fakes stand for: write() on a usable
    # connection hands over the whole command, on a dead one it raises an OSError (which send() absorbs)
    for bad in real_connection_contract(res):
        res.oracle_failures.append(bad)

    # (d) queue
    qcases = []
    small = [(2, 1), (1, 1, 1)]
    depth = 6 if tier == "quick" else 8
    for cnts in small:
        syms = ["u"] + list(range(len(cnts)))
        for L in range(depth + 1):
            for sched in itertools.product(syms, repeat=L):
                qcases.append((cnts, list(sched)))
    nrand = (150 if tier == "quick" else 3000) * common.effort(tier)
    for _ in range(nrand):
        np_ = rng.randrange(1, 5)
        cnts = tuple(rng.randrange(0, 4) for _ in range(np_))
        L = rng.randrange(5, 40)
        sched = [("u" if rng.random() < 0.55 else rng.randrange(np_)) for _ in range(L)]
        qcases.append((cnts, sched))
    if tier == "quick":
        rng.shuffle(qcases)
        qcases = qcases[:1500]
    # a backlog: the pump is held up (a slow write, a handler that takes its time) while producers queue
    # hundreds of commands; everything queued is sent once the pump runs again (index 0 is a drained case)
    qcases.insert(0, ((400, 300), [0] * 400 + [1] * 300 + ["u"] * 5))
    qcases.insert(3, ((1000,), [0] * 1000))
    hung = 0
    for qi, (cnts, sched) in enumerate(qcases):
        drained = qi % 3 == 0
        # every fifth case: a TCP gateway whose reader thread finds the keep-alive due (one more producer with
        # one job, the version request); its turns replace those of the last producer
        keepalive = qi % 5 == 4 and len(cnts) >= 2
        if keepalive:
            cnts = tuple(cnts[:-1]) + (1,)
        try:
            r = queue_run(list(cnts), sched, drain=drained, keepalive=keepalive)
            before, sched = sched, r["executed"]
        except HarnessHang as exc:
            # a thread stopped moving somewhere that is not one of the instrumented accesses (it waits on
            # something no other thread of the schedule will provide)
            hung += 1
            res.oracle_failures.append({
                "key": {"kind": "queue-thread-blocked"},
                "what": f"a pump / producer thread blocked for good on the schedule {sched} with jobs {cnts}: {exc}",
                "replay": {"op": "queue", "counts": list(cnts), "schedule": sched, "drained": drained,
                           "keepalive": keepalive}})
            if hung >= 3:
                break
            continue
        sc = ",".join("u" if a == "u" else f"p{a}" for a in sched) or "-"
        ops.append(f"QRUN {','.join(map(str, cnts))} {sc}")
        pc = {"bool": "c", "pop": "pop", "slp": "slp"}.get(r["pump"], r["pump"])
        impl.append(f"sent={show_jobs(r['sent'])} queue={show_jobs(r['queue'])} pc={pc} raised=0"
                    if r["pump_status"] == "run" else f"pump {r['pump_status']}")
        cases.append(("queue", cnts, sched))
        res.count("queue-schedules" + (":drained" if drained else ""))
        if r["sent"]:
            res.distinct.add(digest(["q", cnts, sched]))
        bad = judge_queue(cnts, r, drained)
        if bad:
            res.oracle_failures.append({"key": {"kind": "queue-" + bad[0]}, "what": bad[1],
                                        "replay": {"op": "queue", "counts": list(cnts), "schedule": before,
                                                   "drained": drained, "keepalive": keepalive}})
    # (d') the same queue with a user thread calling stop() somewhere in the schedule (oracle only)
    scases = []
    for cnts in [(3,), (2, 1)]:
        syms = ["u", "s"] + list(range(len(cnts)))
        for L in range(2, 6 if tier == "quick" else 8):
            for sched in itertools.product(syms, repeat=L):
                if "s" in sched:
                    scases.append((cnts, list(sched)))
    for _ in range((300 if tier == "quick" else 6000) * common.effort(tier)):
        np_ = rng.randrange(1, 4)
        cnts = tuple(rng.randrange(1, 4) for _ in range(np_))
        L = rng.randrange(6, 30)
        sched = [rng.choice(["u", "u", "s"] + list(range(np_))) for _ in range(L)]
        scases.append((cnts, sched))
        # stop, start again, and both poll threads (the old one may not have noticed the stop yet)
        k = rng.randrange(1, L)
        sched2 = [rng.choice(["u", "u"] + list(range(np_))) for _ in range(k)] + ["s", "r"] + \
                 [rng.choice(["u", "v", "v"] + list(range(np_))) for _ in range(L - k)]
        scases.append((cnts, sched2))
    if tier == "quick":
        rng.shuffle(scases)
        scases = scases[:1500]
    blocked = 0
    for cnts, sched in scases:
        try:
            r = queue_run(list(cnts), sched, with_stop=True)
        except HarnessHang:
            # the schedule asks a thread to move that is waiting for a lock a parked thread holds: not a
            # schedule the real threads can follow
            blocked += 1
            res.count("queue-stop-infeasible")
            if blocked > 40:
                break
            continue
        res.count("queue-stop-schedules")
        if r["sent"]:
            res.distinct.add(digest(["qs", cnts, sched]))
        bad = judge_queue_stop(r)
        if bad:
            res.oracle_failures.append({"key": {"kind": "queue-stop-" + bad[0]}, "what": bad[1] + f" (schedule {sched})",
                                        "replay": {"op": "queue-stop", "counts": list(cnts), "schedule": sched}})
    res.evaluations = len(ops)
    res.rule = ("threads: send, _connection_lost(None/exc), connection_lost(None/exc), disconnect, "
                "connection_made; 4 start states x 13 opposing thread sets; every maximal interleaving at "
                "shared-access granularity (three-thread sets: first 250/2500 in DFS order plus 60/1500 random "
                "schedules when there are more; all others exhaustive and counted against the model); queue: all "
                "schedules up to length 6/8 for (2,1) and (1,1,1) producers + random up to 4 producers; oracle-only sweeps: "
                "seven OSError subclasses raised by write() on a closed connection and on an open one after a partial "
                "write; the real SyncTransport.connect as reconnect callback (thread creation faked); Transport.send "
                "over the real TCPTransport (socketpair) and pyserial ReaderThread (loop://) usable / closed / "
                "peer-closed / peer-reset; send against disconnect over the real TCPTransport with the command taken in two "
                "pieces; queue schedules with a thread calling stop(); "
                "non-trivial = distinct (scenario, schedule)")
    if driver is not None:
        try:
            model = driver.run(ops)
        except Exception as exc:  # noqa: BLE001
            res.corr_diffs.append({"name": "transport-driver", "case": "driver", "model": str(exc), "impl": ""})
            model = None
        if model is not None:
            for op, a, b, c in zip(ops, model, impl, cases):
                if c[0] == "queue":
                    a = a.replace("pc=c1", "pc=c").replace("pc=c2", "pc=c")
                if a != b:
                    res.corr_diffs.append({"name": "transport-" + c[0], "case": op[:300], "model": a, "impl": b})
                    if len(res.corr_diffs) > 20:
                        break
            res.traces_validated = len(ops)
    res.sample({"scenario": "connected x hook1", "schedules": counts.get(("connected", "hook1"))})
    res.sample({"scenario": "connected x disc", "schedules": counts.get(("connected", "disc"))})
    return res


def _feasible(start, other, pre):
    """Turn a random index list into a prefix the real execution can follow (skip picks that
    cannot move), by running it once."""
    w = World(start, ["send"] + other_threads(other))
    try:
        out = []
        for i in pre:
            en = w.enabled()
            if not en:
                break
            if i in en:
                out.append(i)
                w.step(i)
        return out
    finally:
        w.close()


def replay(payload):
    r = payload.get("replay", payload)
    print(payload.get("what", ""))
    if r.get("op") == "tcp-write-disconnect":
        res = Result()
        bad = tcp_write_vs_disconnect(res, random.Random(16), "quick")
        print(res.histogram)
        print("oracle:", bad[:1])
        return 1 if bad else 0
    if r.get("op") == "sleeper-queue":
        statuses, released, held, before = sleeper_queue(r["schedule"])
        print("threads:", statuses, " withheld before:", before, " released:", released, " still withheld:", held)
        ok = all(st in ("ret", "done", "ValueError") for st in statuses) and \
            sorted(released + held) == sorted(before + ["1;255;3;0;19;\n"])
        return 0 if ok else 1
    if r.get("op") == "mqtt-pump":
        bad = mqtt_pump(Result())
        print("oracle:", bad[:1])
        return 1 if bad else 0
    if r.get("op") == "two-senders":
        res = Result()
        bad = two_senders(res, random.Random(16), "quick")
        print("oracle:", bad[:1])
        return 1 if bad else 0
    if r.get("op") == "real-conn":
        res = Result()
        bad = [f for f in real_connection_contract(res) if f["replay"] == r]
        print(res.histogram)
        print("oracle:", bad)
        return 1 if bad else 0
    if r.get("op") == "run" and r.get("real_connect"):
        REAL_CONNECT[0] = True
        try:
            path, ens, obs, data = execute(r["start"], r["other"], r["schedule"], r.get("sender", "send"))
        except HarnessHang as exc:
            print("a thread blocked for good:", exc)
            return 1
        finally:
            REAL_CONNECT[0] = False
        print("schedule:", path)
        print("thread outcomes:", data["statuses"])
        return 1 if any(st not in ("ret", "run", "new", "done") for st in data["statuses"]) else 0
    if r.get("op") == "run" and r.get("write_error"):
        import builtins
        CONN_OPTS["err"], CONN_OPTS["flaky"] = getattr(builtins, r["write_error"]), bool(r.get("flaky"))
        try:
            path, ens, obs, data = execute(r["start"], r["other"], r["schedule"], r.get("sender", "send"))
        finally:
            CONN_OPTS["err"], CONN_OPTS["flaky"] = None, False
        print("schedule:", path)
        print("impl :", obs)
        print("send ended with:", data["sender"], " write attempts:", data["attempts"])
        return 1 if data["sender"] != "ret" or len(data["attempts"]) > 1 else 0
    if r.get("op") == "run":
        path, ens, obs, data = execute(r["start"], r["other"], r["schedule"], r.get("sender", "send"))
        print("schedule:", path)
        print("impl :", obs)
        print("oracle:", judge(data))
        sc = ",".join(map(str, path)) or "-"
        print("model:", common.Driver().run([f"TRRUN {r.get('sender', 'send')} {r['start']} {r['other']} {sc}"])[0])
    elif r.get("op") == "queue-stop":
        out = queue_run(r["counts"], r["schedule"], with_stop=True)
        print("impl :", out)
        bad = judge_queue_stop(out)
        print("oracle:", bad)
        return 1 if bad else 0
    elif r.get("op") == "queue":
        try:
            out = queue_run(r["counts"], r["schedule"], drain=bool(r.get("drained")), keepalive=bool(r.get("keepalive")))
        except HarnessHang as exc:
            print("a thread blocked for good:", exc)
            return 1
        print("impl :", out)
        verdict = judge_queue(r["counts"], out, bool(r.get("drained")))
        print("oracle:", verdict)
        sc = ",".join("u" if a == "u" else f"p{a}" for a in out["executed"]) or "-"
        print("model:", common.Driver().run([f"QRUN {','.join(map(str, r['counts']))} {sc}"])[0])
        if verdict:
            return 1
    return 0
