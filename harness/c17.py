"""C17 — MQTT topics and commands map one-to-one.

Correspondence: the Lean model (`Model/Mqtt.lean`: parseMqtt / mqttSend / subscribeAll / startSubs /
stepSubs over the gateway model) against the real `AsyncMQTTGateway` and `MQTTGateway`
(`transport.recv`, `transport.send`, `handle_subscription`, `init_topics`, `_handle_presentation`).
Oracle: a direct transcription of the property on the real code's observations.
"""
import itertools
import os
import random
import shutil
import tempfile

from . import common
from .common import Result, enc_str, digest
from . import gw as G
from . import c03

THEOREMS = [
    "MySensors.C17.accept_iff", "MySensors.C17.accept_result", "MySensors.C17.accept_levels_unique",
    "MySensors.C17.reject_short", "MySensors.C17.roundtrip", "MySensors.C17.roundtrip_message",
    "MySensors.C17.qos_iff_ack", "MySensors.C17.received_ack_iff_qos", "MySensors.C17.publish_shape",
    "MySensors.C17.publish_injective", "MySensors.C17.send_publishes_iff",
    "MySensors.C17.callbacks_total", "MySensors.C17.subscription_qos_zero",
    "MySensors.C17.start_covers", "MySensors.C17.subscriptions_cover",
]
ASSUMPTIONS = [
    "MQTT payloads and topics reach the library as Python str (HA and the README's paho wrapper "
    "decode them); a bytes payload would be rendered by str(payload) as \"b'..'\" and is outside the model",
    "callbacks are modelled by whether they raise an Exception subclass; BaseException "
    "(KeyboardInterrupt, SystemExit) is not caught by the code's `except Exception` and is outside the property",
    "subscription coverage is stated for start states whose node/child objects are stored under their "
    "own ids (what the library itself creates and what its persistence writes; C11) and for persistence "
    "enabled or an empty tree at start: init_topics only walks the tree when persistence is on",
    "the broker delivers to recv() only what matches a subscription; the model judges every topic string",
]

ALPHA = "a1-/"


# prefixes beyond the exhaustive grid: look like five message levels (the D10 shape), repeat
# themselves, contain MQTT wildcards, ';' or non-ASCII
EXTRA_PREFIXES = ["1/2/3/0/4", "1/1/1/1/1", "7/8/1/0/2", "1/2/3/0/4/1/2/3/0/4", "a/b/c/d/e/f", "0/0/0/0/0",
                  "mysensors-in", "home/ünï", "+/+", "#", "a;b", "1/2/3/0", "2/3/0/4", "/1/2/3/0/4", "1/2/3/0/4/"]


def prefixes(maxlen):
    out = [""]
    for n in range(1, maxlen + 1):
        out += ["".join(t) for t in itertools.product(ALPHA, repeat=n)]
    return out + EXTRA_PREFIXES


class UserError(Exception):
    """an exception class of the user's own, whose text form is not available"""

    def __str__(self):
        raise TypeError("no text form")

    __repr__ = __str__


def make_real(flavour, in_prefix, out_prefix, version="2.2", retain=True, pub_raises=False, sub_raises=False):
    """A real MQTT gateway with recording callbacks and a captured add_job."""
    from mysensors.gateway_mqtt import AsyncMQTTGateway, MQTTGateway
    rec = {"pubs": [], "subs": [], "jobs": [], "raised": 0}

    def fail(where):
        # what a user's MQTT client raises: with a message, without any argument, with arguments that are
        # not text, an OSError with errno, a lookup error, an exception class of the user's own
        rec["raised"] += 1
        kinds = [lambda: RuntimeError(where + " callback raised"), TimeoutError, lambda: ValueError(7), ConnectionError,
                 lambda: OSError(5, "Input/output error"), lambda: KeyError(where), UserError,
                 lambda: UnicodeDecodeError("utf-8", b"\xff", 0, 1, "invalid start byte"), lambda: Exception()]
        raise kinds[rec["raised"] % len(kinds)]()

    def pub(topic, payload, qos, retain_):
        rec["pubs"].append((topic, payload, qos, retain_))
        if pub_raises:
            fail("pub")

    def sub(topic, cb, qos):
        rec["subs"].append((topic, qos))
        if sub_raises:
            fail("sub")

    cls = AsyncMQTTGateway if flavour == "async" else MQTTGateway
    gw = cls(pub, sub, in_prefix=in_prefix, out_prefix=out_prefix, retain=retain, protocol_version=version)

    def add_job(func, *args):
        rec["jobs"].append((getattr(func, "__name__", "?"), args))
    gw.tasks.add_job = add_job
    return gw, rec


# ------------------------------------------------------------------------------------------
# part A: topic acceptance
# ------------------------------------------------------------------------------------------

def topic_cases(p, rng):
    """(name, topic) pairs built to collide with the prefix."""
    lv = p.split("/")
    own5 = (lv + ["1", "2", "3", "0", "4"])[-5:] if p else ["1", "2", "3", "0", "4"]
    tail5 = (["1", "2", "3", "0", "4"] + lv)[-5:]
    swapped = (("b" if p[0] != "b" else "c") + p[1:]) if p else "x"
    cases = [
        ("own", p + "/1/2/3/0/4"),
        ("nosep", p + "1/2/3/0/4"),
        ("bare5", "1/2/3/0/4"),
        ("prefix-only", p),
        ("four", p + "/1/2/3/0"),
        ("six", p + "/1/2/3/0/4/5"),
        ("levels-from-prefix", p + "/" + "/".join(own5)),
        ("levels-end-like-prefix", p + "/" + "/".join(tail5)),
        ("prefix-twice", p + "/" + p + "/1/2/3/0/4"),
        ("other-prefix-same-length", swapped + "/1/2/3/0/4"),
        ("prefix-cut", p[1:] + "/1/2/3/0/4"),
        ("prefix-cut-end", p[:-1] + "/1/2/3/0/4"),
        ("empty-level", p + "//2/3/0/4"),
        ("trailing-slash", p + "/1/2/3/0/4/"),
        ("leading-slash", "/" + p + "/1/2/3/0/4"),
        ("alpha-levels", p + "/a/1/-/1/a"),
        ("random", "".join(rng.choice(ALPHA + "/") for _ in range(rng.randrange(0, 14)))),
    ]
    return cases


def spec_recv(p, topic, payload, qos):
    """The property's own statement: accepted iff topic = prefix + "/" + five levels without '/'."""
    head = p + "/"
    if not topic.startswith(head):
        return None
    levels = topic[len(head):].split("/")
    if len(levels) != 5:
        return None
    ack = "1" if (qos is not None and qos > 0) else "0"
    return ";".join(levels[:3] + [ack, levels[4], payload])


QOS = [0, 1, 2, None, -1]
PAYLOADS = ["", "pl", "21.5", "a;b", "x/y", " t ", "ünï", "1;2;3;0;4", "on\n"]


def part_recv(res, rng, driver, tier):
    maxlen = 5 if tier == "quick" else 6
    cases = []
    k = 0
    for p in prefixes(maxlen):
        for name, topic in topic_cases(p, rng):
            qos = QOS[k % len(QOS)]
            payload = PAYLOADS[(k // 3) % len(PAYLOADS)]
            k += 1
            cases.append((p, name, topic, payload, qos))
    # all qos x payload on a few prefixes
    for p in ["", "a", "1/2/3/0/4", "a/b", "/", "1", "-/-"]:
        for qos in QOS:
            for payload in PAYLOADS:
                cases.append((p, "own", p + "/7/8/1/0/2", payload, qos))
    impl = []
    gws = {}
    for (p, name, topic, payload, qos) in cases:
        outs = []
        for flavour in ("async", "sync"):
            key = (flavour, p)
            if key not in gws:
                gws[key] = make_real(flavour, p, "out")
            gw, rec = gws[key]
            rec["jobs"].clear()
            try:
                gw.tasks.transport.recv(topic, payload, qos)
            except Exception as exc:  # noqa: BLE001
                rec["jobs"].clear()
                raised = G.exc_kind(exc)
                res.oracle_failures.append({"key": {"kind": "mqtt-recv-raised", "exc": raised, "case": name},
                                            "what": f"in_prefix={p!r}: recv({topic!r}) raised {raised}",
                                            "replay": {"part": "recv", "prefix": p, "topic": topic, "payload": payload, "qos": qos}})
            if not rec["jobs"]:
                outs.append(None)
            else:
                fname, args = rec["jobs"][0]
                outs.append(args[0] if fname == "logic" and len(rec["jobs"]) == 1 and len(args) == 1 else ("?", fname, args))
            # the mapping is a function of the delivery alone: the same delivery again (a command published
            # twice, a node reporting an unchanged value, a poll repeated) is accepted or rejected the same way
            first = list(rec["jobs"])
            rec["jobs"].clear()
            try:
                gw.tasks.transport.recv(topic, payload, qos)
            except Exception:  # noqa: BLE001   (reported above for the first delivery)
                pass
            if list(rec["jobs"]) != first:
                res.oracle_failures.append({
                    "key": {"kind": "mqtt-recv-depends-on-history", "case": name},
                    "what": f"in_prefix={p!r}: {flavour} gateway, the delivery ({topic!r}, {payload!r}, qos {qos}) handed "
                            f"{first!r} to the pump the first time and {list(rec['jobs'])!r} when delivered again",
                    "replay": {"part": "recv", "prefix": p, "topic": topic, "payload": payload, "qos": qos, "twice": True}})
            rec["jobs"].clear()
        if outs[0] != outs[1]:
            res.oracle_failures.append({"key": {"kind": "mqtt-recv-flavours-differ", "case": name},
                                        "what": f"async and sync MQTT gateways map {topic!r} differently",
                                        "replay": {"part": "recv", "prefix": p, "topic": topic, "payload": payload, "qos": qos}})
        got = outs[0]
        impl.append(got)
        want = spec_recv(p, topic, payload, qos)
        res.count("recv:" + ("accepted" if got is not None else "rejected"))
        res.count("recv-case:" + name + (":acc" if got is not None else ":rej"))
        if got is not None:
            res.distinct.add(digest(("recv", p, topic, payload, qos)))
        if got != want:
            res.oracle_failures.append({
                "key": {"kind": "mqtt-accept-mismatch", "case": name, "spec_accepts": want is not None,
                        "impl_accepts": got is not None},
                "what": f"in_prefix={p!r} topic={topic!r}: property says {want!r}, recv handed {got!r} to logic",
                "replay": {"part": "recv", "prefix": p, "topic": topic, "payload": payload, "qos": qos}})
    ops = [f"MQRECV {enc_str(p)} {enc_str(t)} {enc_str(pl)} {'N' if q is None else q}" for (p, _, t, pl, q) in cases]
    compare(res, driver, "mqtt-recv", ops, ["none" if g is None else "some:" + enc_str(g) for g in impl],
            [{"part": "recv", "prefix": p, "topic": t, "payload": pl, "qos": q} for (p, _, t, pl, q) in cases])
    res.evaluations += len(cases)
    res.sample({"recv": {"in_prefix": "1/2/3/0/4", "topic": "1/2/3/0/4/1/2/3/0/4"},
                "impl": spec_recv("1/2/3/0/4", "1/2/3/0/4/1/2/3/0/4", "pl", 1)})
    return len(prefixes(maxlen))


def compare(res, driver, name, ops, impl, cases):
    if driver is None:
        return
    try:
        model = driver.run(ops)
    except Exception as exc:  # noqa: BLE001
        res.corr_diffs.append({"name": name + "-driver", "case": "driver", "model": str(exc), "impl": ""})
        return
    n = 0
    for op, a, b, c in zip(ops, model, impl, cases):
        if a != b:
            n += 1
            if n <= 5:
                res.corr_diffs.append({"name": name, "case": c, "model": a[:300], "impl": b[:300]})
    res.traces_validated += len(ops)


# ------------------------------------------------------------------------------------------
# part B: send and the round trip
# ------------------------------------------------------------------------------------------

def carryable(p):
    return ";" not in p and (p == "" or not p[-1].isspace())


def messages_for(p, rng):
    """Header tuples chosen to collide with the prefix levels, plus payload variety."""
    digits = [int(x) for x in p.split("/") if x.isdigit()] or [1]
    d = lambda i: digits[i % len(digits)]
    msgs = [
        (d(0), d(1), 1, 0, d(2), "pl"),
        (1, 2, 3, 0, 4, ""),
        (d(0), 255, 3, 1, 4, "x/y"),
        (0, 0, 0, 1, 0, "21.5"),
        (254, 254, 2, 0, 56, "a b"),
        (rng.randrange(256), rng.randrange(256), rng.randrange(5), rng.randrange(2), rng.randrange(60),
         rng.choice(["on", "ünï", "1/2/3/0/4", "+", "#", "%s", "1,2,3"])),
        # text MQTT carries and the serial wire would not: line breaks and other blanks inside the payload
        (d(0), d(1), 1, rng.randrange(2), 47, rng.choice(["line one\nline two", "a\r\nb", "tab\there", "x\n\ny",
                                                         "\nleading", "v\x0bt", "form\x0cfeed", "nel\x85x"])),
    ]
    return msgs


RAW_LINES = [None, "", "\n", "abc", "1;2;3;1;4;a;b\n", "1;2;3;0;4", " 1;+2;1;-1;٤;zz", "1;2;1;5;4; x \n",
             "1;2;3;0;4;tail \n", "1;2;3;0;x;p\n", ";;;;;\n", "1;2;3;0;4;\r\n", "1_0;2;3;0;4;u\n",
             "1;2;3;0;" + "9" * 30 + ";big\n"]


def real_send(gw, rec, line):
    rec["pubs"].clear()
    rec["jobs"].clear()
    queue = getattr(gw.tasks, "queue", None)
    if queue is not None:
        queue.clear()
    try:
        gw.tasks.transport.send(line)
    except Exception as exc:  # noqa: BLE001
        return ("raised", G.exc_kind(exc))
    if rec["jobs"] or queue:
        # sending is the end of the line: a send that puts work back into the pump (a retry of a failed
        # publish, say) keeps the pump busy with that one command for as long as the callback keeps failing
        return ("raised", f"send-queued-work:{len(rec['jobs']) + len(queue or ())}")
    return ("ok", list(rec["pubs"]))


def send_line(r, line):
    """canonical text compared with the model's MQSEND output"""
    kind, pubs = r
    if kind == "raised":
        return "ended=raised"
    if not pubs:
        from mysensors.message import Message
        if not line:
            return "skipped ended=returned"
        return "dropped ended=returned"
    (t, pl, q, rt) = pubs[0]
    return f"pub {enc_str(t)} {enc_str(pl)} {q} {1 if rt else 0} ended=returned"


def part_send(res, rng, driver, tier):
    maxlen = 5 if tier == "quick" else 6
    from mysensors.message import Message
    cases = []   # (in_prefix/out_prefix, retain, raises, line)
    plist = prefixes(maxlen)
    for i, p in enumerate(plist):
        for m in messages_for(p, rng):
            line = Message(node_id=m[0], child_id=m[1], type=m[2], ack=m[3], sub_type=m[4], payload=m[5]).encode()
            cases.append((p, i % 2 == 0, i % 3 == 0, line, m))
    for p in ["", "a", "1/2/3/0/4", "/"]:
        for line in RAW_LINES:
            for raises in (False, True):
                cases.append((p, True, raises, line, None))
        for pl in PAYLOADS + ["trail\t", "x\x1c", "　"]:
            cases.append((p, True, False, f"3;4;1;0;2;{pl}\n", None))
    impl = []
    for idx, (p, retain, raises, line, m) in enumerate(cases):
        flavour = "async" if idx % 2 == 0 else "sync"
        gw, rec = make_real(flavour, p, p, retain=retain, pub_raises=raises)
        r = real_send(gw, rec, line)
        if m is None:
            gw2, rec2 = make_real("sync" if flavour == "async" else "async", p, p, retain=retain, pub_raises=raises)
            r2 = real_send(gw2, rec2, line)
            if r2 != r:
                res.oracle_failures.append({"key": {"kind": "mqtt-send-flavours-differ"},
                                            "what": f"async and sync MQTT transports publish {line!r} differently",
                                            "replay": {"part": "send", "prefix": p, "line": line, "raises": raises}})
        impl.append(send_line(r, line))
        res.count("send:" + impl[-1].split(" ")[0])
        if r[0] == "raised":
            res.oracle_failures.append({"key": {"kind": "mqtt-send-raised", "exc": r[1], "pub_raises": raises},
                                        "what": f"transport.send({line!r}) raised {r[1]}",
                                        "replay": {"part": "send", "prefix": p, "line": line, "raises": raises}})
            continue
        if m is None:
            continue
        # the property on a well-formed command: exactly one publish, which maps back
        pubs = r[1]
        want_topic = f"{p}/{m[0]}/{m[1]}/{m[2]}/{m[3]}/{m[4]}"
        fail = None
        if len(pubs) != 1:
            fail = f"{len(pubs)} publishes for one command"
        else:
            t, pl, q, rt = pubs[0]
            if t != want_topic or rt != retain or q != m[3] or (q > 0) != (m[3] == 1):
                fail = f"published {pubs[0]!r}, expected topic {want_topic!r} qos {m[3]}"
            elif carryable(m[5]):
                if pl != m[5]:
                    fail = f"payload {pl!r} published for {m[5]!r}"
                else:
                    rec["jobs"].clear()
                    gw.tasks.transport.recv(t, pl, q)     # in_prefix == out_prefix here
                    if len(rec["jobs"]) != 1:
                        fail = "own topic not accepted on the way back"
                    else:
                        back = Message(rec["jobs"][0][1][0])
                        got = (back.node_id, back.child_id, back.type, back.ack, back.sub_type, back.payload)
                        if got != m:
                            fail = f"round trip gave {got!r}"
                    res.distinct.add(digest(("rt", p, m)))
        if fail:
            res.oracle_failures.append({"key": {"kind": "mqtt-roundtrip", "what": fail.split(" ")[0]},
                                        "what": f"prefix {p!r} message {m!r}: {fail}",
                                        "replay": {"part": "send", "prefix": p, "line": line, "raises": raises}})
    ops = [f"MQSEND {enc_str(p)} {1 if retain else 0} {1 if raises else 0} " +
           ("N" if line is None else enc_str(line)) for (p, retain, raises, line, _) in cases]
    compare(res, driver, "mqtt-send", ops, impl,
            [{"part": "send", "prefix": p, "line": line, "raises": raises} for (p, _, raises, line, _) in cases])
    res.evaluations += len(cases)
    res.sample({"send": "1;2;3;1;4;hello\\n", "out_prefix": "a/b", "impl": send_line(
        real_send(*make_real("async", "a/b", "a/b"), "1;2;3;1;4;hello\n"), "x")})


# ------------------------------------------------------------------------------------------
# part C: subscriptions over histories; part D: raising callbacks
# ------------------------------------------------------------------------------------------

class MqttGW(G.RealGW):
    """RealGW of kind mqtt whose pub/sub callbacks may raise after recording."""

    def __init__(self, *a, pub_raises=False, sub_raises=False, **kw):
        self.pub_raises = pub_raises
        self.sub_raises = sub_raises
        self.sub_log = []       # every sub_callback call, with process boundaries
        super().__init__(*a, **kw)

    def _make(self):
        super()._make()
        tr = self.gw.tasks.transport
        pub0, sub0 = tr._pub_callback, tr._sub_callback

        def pub(topic, payload, qos, retain):
            pub0(topic, payload, qos, retain)
            if self.pub_raises:
                raise RuntimeError("pub callback raised")

        def sub(topic, cb, qos):
            sub0(topic, cb, qos)
            self.sub_log.append((topic, qos))
            if self.sub_raises:
                raise RuntimeError("sub callback raised")
        tr._pub_callback = pub
        tr._sub_callback = sub


def with_starts(hist):
    out = [("START",)]
    for op in hist:
        out.append(op)
        if op[0] == "R":
            out.append(("START",))
    return out


_SPEC = []


def _spec():
    if not _SPEC:
        _SPEC.append(c03.load_spec())
    return _SPEC[0]


def run_sub_history(hist, version, persist, prefix, pub_raises=False, sub_raises=False):
    """Returns (sub calls, per-op observations, coverage failure or None, escaped exception or None)."""
    workdir = tempfile.mkdtemp(prefix="verif-c17-") if persist != "none" else None
    try:
        rg = MqttGW(version, "mqtt", persist, workdir, in_prefix=prefix, out_prefix=prefix,
                    pub_raises=pub_raises, sub_raises=sub_raises)
        # every other history: a second MQTT gateway of the same protocol version lives in the process (another
        # broker or prefix, built after this one); what this gateway subscribes to is its own business
        neighbour = make_real("sync" if len(hist) % 4 else "async", "other/in", "other/out", version) \
            if len(hist) % 2 == 0 else None
        since = 0
        obs = []
        cov = None
        esc = None
        presented = set()      # children a known node presented with a line the reference accepts
        spec = _spec()
        for i, op in enumerate(hist):
            if op[0] == "L":
                f = op[1].rstrip().split(";")
                try:
                    n, c, t, a, st = (int(x) for x in f[:5])
                    if len(f) == 6 and t == 0 and c != 255 and n in rg.gw.sensors \
                            and c03.spec_accepts(spec, version, n, c, t, a, st, f[5]) is True:
                        presented.add((n, c))
                except ValueError:
                    pass
            if op[0] == "START":
                since = len(rg.sub_log)
                try:
                    rg.gw.init_topics()
                except Exception as exc:  # noqa: BLE001
                    esc = esc or (i, G.exc_kind(exc))
                obs.append("start")
            else:
                if op[0] == "R":
                    since = len(rg.sub_log)
                o = rg.apply(op)
                obs.append(o.line())
                if o.exc and esc is None:
                    esc = (i, o.exc)
            if op[0] == "R":
                presented = {(sid, cid) for sid, s_ in rg.gw.sensors.items() for cid in s_.children}
                continue          # the new process has not started yet
            have = {t for (t, _) in rg.sub_log[since:]}
            need = [prefix + "/+/+/0/+/+", prefix + "/+/+/3/+/+"]
            for sid, s in rg.gw.sensors.items():
                for cid in s.children:
                    need += [f"{prefix}/{sid}/{cid}/1/+/+", f"{prefix}/{sid}/{cid}/2/+/+", f"{prefix}/{sid}/+/4/+/+"]
            for sid, cid in sorted(presented):
                need += [f"{prefix}/{sid}/{cid}/1/+/+", f"{prefix}/{sid}/{cid}/2/+/+"]
            missing = [t for t in need if t not in have]
            if missing and cov is None:
                cov = (i, missing[0])
        if neighbour is not None and cov is None and (neighbour[1]["subs"] or neighbour[1]["pubs"]):
            cov = (len(hist), f"the other gateway in the process was used: subscribed {neighbour[1]['subs'][:2]}, "
                              f"published {neighbour[1]['pubs'][:2]}")
        return list(rg.sub_log), obs, cov, esc
    finally:
        if workdir:
            shutil.rmtree(workdir, ignore_errors=True)


def hist_tokens(hist):
    return " ".join("START" if op[0] == "START" else "O:" + G.op_wire(op).replace(" ", ":") for op in hist)


def shrink_hist(hist, pred):
    """delta-debugging over ops (keeps the leading START)"""
    cur = list(hist)
    n = 2
    while len(cur) > 2 and n <= len(cur):
        chunk = max(1, len(cur) // n)
        reduced = False
        for i in range(1, len(cur), chunk):
            cand = cur[:i] + cur[i + chunk:]
            if pred(cand):
                cur = cand
                reduced = True
                break
        if not reduced:
            if chunk == 1:
                break
            n = min(len(cur), n * 2)
    return cur


def part_subs(res, rng, driver, tier):
    nh = (60 if tier == "quick" else 900) * common.effort(tier)
    ops, impl, cases = [], [], []
    for h in range(nh):
        version = rng.choice(G.VERSIONS)
        persist = rng.choice(["json", "pickle", "json", "none"])
        prefix = rng.choice(["", "p", "a/b", "1/2/3/0/4", "/", "mysensors-in", "1", "a/1/-"])
        hist = G.gen_history(rng, version, rng.choice([15, 30, 45]), persist=persist != "none", ota=False,
                             sleep=True, malformed=0.1)
        if persist == "none" and rng.random() < 0.5:
            k = rng.randrange(len(hist))
            hist = hist[:k] + [("R",)] + hist[k:]
        hist = with_starts(hist)
        raising = h % 3 == 2
        subs, obs, cov, esc = run_sub_history(hist, version, persist, prefix, pub_raises=raising, sub_raises=raising)
        replay = {"part": "subs", "version": version, "persist": persist, "prefix": prefix, "raising": raising,
                  "history": [list(op) for op in hist]}
        res.count("subs-history:" + persist + (":raising" if raising else ""))
        res.count("sub_callback calls", len(subs))
        if len(subs) > 2:
            res.distinct.add(digest(subs))
        if cov:
            small = shrink_hist(hist, lambda c: run_sub_history(c, version, persist, prefix, raising, raising)[2] is not None)
            replay["history"] = [list(op) for op in small]
            res.oracle_failures.append({
                "key": {"kind": "mqtt-subscription-missing", "level": cov[1][len(prefix):].split("/")[3],
                        "persist": persist != "none", "after": small[-1][0] if small else "?"},
                "what": f"after op {cov[0]} the topic {cov[1]!r} of a known child is not subscribed",
                "replay": replay})
        if raising:
            # the same history with quiet callbacks must look the same, and nothing may escape
            subs2, obs2, _, esc2 = run_sub_history(hist, version, persist, prefix)
            if esc and not esc2:
                res.oracle_failures.append({"key": {"kind": "mqtt-callback-exception-escaped", "exc": esc[1]},
                                            "what": f"a raising pub/sub callback made op {esc[0]} raise {esc[1]}",
                                            "replay": replay})
            elif subs != subs2 or obs != obs2:
                res.oracle_failures.append({"key": {"kind": "mqtt-callback-exception-changed-behaviour"},
                                            "what": "a raising pub/sub callback changed the state, the publishes or the subscriptions",
                                            "replay": replay})
        ops.append(f"MQHIST {version} {persist} {enc_str(prefix)} {1 if raising else 0} " + hist_tokens(hist))
        impl.append("|".join(f"{enc_str(t)}:{q}" for (t, q) in subs) or "-")
        cases.append(replay)
    compare(res, driver, "mqtt-subscriptions", ops, impl, cases)
    res.evaluations += nh
    res.sample({"subs-history": {"prefix": cases[0]["prefix"], "persist": cases[0]["persist"],
                                 "ops": len(cases[0]["history"])}, "impl": impl[0][:160]})


def part_handle_subscription(res, rng, driver):
    """handle_subscription directly: qos from the second-to-last level, raising callback on
    some topics only, a bare string instead of a list."""
    ops, impl, cases = [], [], []
    topic_sets = [["/+/+/0/+/+", "/+/+/3/+/+"], ["/1/2/1/+/+", "/1/2/2/+/+", "/1/+/4/+/+"], ["/1/2/3/1/4"],
                  ["/1/2/3/2/x", "/a/b"], ["/x/٢/y"], ["/1/2/3/ 1 /4"], ["/1/2/3/1_0/4"], [], ["x", "/1/2"]]
    for p in ["", "p", "a/b", "1/2", "/"]:
        for ts in topic_sets:
            for raises in (False, True):
                gw, rec = make_real("async" if raises else "sync", p, p, sub_raises=raises)
                try:
                    # a single topic may be passed as a bare string
                    gw.tasks.transport.handle_subscription(ts[0] if len(ts) == 1 and raises else list(ts))
                    ended = "returned"
                except Exception:  # noqa: BLE001
                    ended = "raised"
                got = "|".join(f"{enc_str(t)}:{q}" for (t, q) in rec["subs"]) or "-"
                impl.append(f"{got} ended={ended}")
                ops.append(f"MQSUB {enc_str(p)} {1 if raises else 0} " + " ".join(enc_str(t) for t in ts))
                cases.append({"part": "handle_subscription", "prefix": p, "topics": ts, "raises": raises})
                if ts and ts[0] == "x":
                    continue      # a topic without '/' is outside what the gateway generates (IndexError when the prefix has none either)
                if ended == "raised" or len(rec["subs"]) != len(ts):
                    res.oracle_failures.append({
                        "key": {"kind": "mqtt-subscribe-callback-stopped", "raises": raises},
                        "what": f"handle_subscription({ts!r}) ended {ended} after {len(rec['subs'])} of {len(ts)} topics",
                        "replay": cases[-1]})
    compare(res, driver, "mqtt-handle-subscription", ops, impl, cases)
    res.evaluations += len(ops)


def started_gateway(flavour, prefix):
    """The real start() of an MQTT gateway that already knows a node with a child (restored, or presented
    before), with a subscribe callback that takes its time as a client library does.  Returns the topics
    requested by the time start() has returned, and what went wrong or None."""
    import asyncio
    import time as real_time
    from mysensors.gateway_mqtt import AsyncMQTTGateway, MQTTGateway
    subs = []

    def slow_sub(topic, callback, qos):
        real_time.sleep(0.02)
        subs.append(topic)
    cls = MQTTGateway if flavour == "sync" else AsyncMQTTGateway
    work = tempfile.mkdtemp(prefix="verif-c17-")
    gw = cls(lambda *a: None, slow_sub, in_prefix=prefix, out_prefix="out", protocol_version="2.2",
             persistence=True, persistence_file=os.path.join(work, "net.json"))
    gw.logic("7;255;0;0;17;2.2\n")
    gw.logic("7;3;0;0;6;t\n")
    del subs[:]
    problem = None
    try:
        return _started(gw, flavour, subs)
    finally:
        shutil.rmtree(work, ignore_errors=True)


def _started(gw, flavour, subs):
    import asyncio
    problem = None
    try:
        if flavour == "sync":
            gw.start()
            seen = list(subs)
            gw.stop()
        else:
            loop = asyncio.new_event_loop()
            try:
                loop.run_until_complete(gw.start())
                seen = list(subs)
                loop.run_until_complete(gw.stop())
                loop.run_until_complete(loop.shutdown_default_executor())
            finally:
                loop.close()
    except Exception as exc:  # noqa: BLE001
        seen, problem = list(subs), f"start() / stop() raised {type(exc).__name__}: {exc}"
    return seen, problem


def part_start(res):
    for flavour in ("sync", "async"):
        for prefix in ("", "home/gw"):
            seen, problem = started_gateway(flavour, prefix)
            res.evaluations += 1
            res.count("start:" + flavour)
            need = [f"{prefix}/+/+/0/+/+", f"{prefix}/+/+/3/+/+", f"{prefix}/7/3/1/+/+", f"{prefix}/7/3/2/+/+",
                    f"{prefix}/7/+/4/+/+"]
            missing = [t for t in need if t not in seen]
            if problem or missing:
                res.oracle_failures.append({
                    "key": {"kind": "mqtt-start", "flavour": flavour, "what": "raised" if problem else "not-subscribed"},
                    "replay": {"part": "start", "flavour": flavour, "prefix": prefix},
                    "what": f"{flavour} MQTT gateway, in_prefix={prefix!r}: " + (problem or
                            f"start() has returned and {missing} have not been subscribed to (requested so far: {seen})")})


def run(tier, seed, driver):
    res = Result()
    rng = random.Random(seed * 7919 + 17)
    part_start(res)
    np_ = part_recv(res, rng, driver, tier)
    part_send(res, rng, driver, tier)
    part_subs(res, rng, driver, tier)
    part_handle_subscription(res, rng, driver)
    res.exhaustive = True
    res.rule = (f"recv: exhaustive prefix grid over {{a,1,-,/}} up to length {5 if tier == 'quick' else 6} "
                f"({np_} prefixes) x 17 topic shapes built from the prefix (own topic, no separator, levels copied "
                "from the prefix, prefix twice, same-length other prefix, 4/6 levels, empty levels, random) with qos "
                "0/1/2/None/-1 and payloads incl. ';' '/' blanks, on AsyncMQTTGateway and MQTTGateway; send: the same "
                "grid x 6 header tuples colliding with the prefix digits + raw lines (None, empty, 7 fields, exotic "
                "ints, trailing blanks), with and without a raising pub callback, each followed by the way back "
                "through recv; subscriptions: generated histories (all versions, json/pickle/no persistence, restarts) "
                "through the real init_topics/_handle_presentation, a third with raising callbacks. "
                "non-trivial = accepted topic / completed round trip / history with presentation subscriptions")
    return res


def replay(payload):
    r = payload.get("replay", payload)
    print({k: v for k, v in payload.items() if k != "replay"})
    drv = common.Driver()
    part = r.get("part")
    if part == "recv":
        gw, rec = make_real("async", r["prefix"], "out")
        gw.tasks.transport.recv(r["topic"], r["payload"], r["qos"])
        got = rec["jobs"][0][1][0] if rec["jobs"] else None
        print("impl :", repr(got))
        if r.get("twice"):
            rc = 0
            for flavour in ("async", "sync"):
                gw2, rec2 = make_real(flavour, r["prefix"], "out")
                outs = []
                for _ in range(2):
                    rec2["jobs"].clear()
                    gw2.tasks.transport.recv(r["topic"], r["payload"], r["qos"])
                    outs.append(list(rec2["jobs"]))
                print(flavour, "first delivery:", outs[0], " second delivery:", outs[1])
                rc = 1 if outs[0] != outs[1] else rc
            return rc
        print("spec :", repr(spec_recv(r["prefix"], r["topic"], r["payload"], r["qos"])))
        q = "N" if r["qos"] is None else r["qos"]
        print("model:", drv.run([f"MQRECV {enc_str(r['prefix'])} {enc_str(r['topic'])} {enc_str(r['payload'])} {q}"]))
        return 0 if got == spec_recv(r["prefix"], r["topic"], r["payload"], r["qos"]) else 1
    if part == "start":
        seen, problem = started_gateway(r["flavour"], r["prefix"])
        print("subscribed when start() returned:", seen, " problem:", problem)
        need = [f"{r['prefix']}/+/+/0/+/+", f"{r['prefix']}/+/+/3/+/+", f"{r['prefix']}/7/3/1/+/+"]
        return 1 if problem or any(t not in seen for t in need) else 0
    if part == "send":
        gw, rec = make_real("async", r["prefix"], r["prefix"], pub_raises=r.get("raises", False))
        out = real_send(gw, rec, r["line"])
        print("impl :", out)
        line = "N" if r["line"] is None else enc_str(r["line"])
        print("model:", drv.run([f"MQSEND {enc_str(r['prefix'])} 1 {1 if r.get('raises') else 0} {line}"]))
        return 1 if out[0] == "raised" else 0
    if part == "subs":
        hist = [tuple(tuple(x) if isinstance(x, list) else x for x in op) for op in r["history"]]
        subs, obs, cov, esc = run_sub_history(hist, r["version"], r["persist"], r["prefix"], r["raising"], r["raising"])
        print("impl subs:", subs)
        print("coverage failure:", cov, "escaped:", esc)
        print("model:", drv.run([f"MQHIST {r['version']} {r['persist']} {enc_str(r['prefix'])} "
                                 f"{1 if r['raising'] else 0} " + hist_tokens(hist)]))
        return 1 if cov or esc else 0
    if part == "handle_subscription":
        gw, rec = make_real("async", r["prefix"], r["prefix"], sub_raises=r["raises"])
        gw.tasks.transport.handle_subscription(list(r["topics"]))
        print("impl:", rec["subs"])
        return 0
    print("unknown replay")
    return 2
