"""C18 — documented configuration is accepted and honoured; protocol version floor selection.

Real code: the six gateway classes are constructed in-process (constructors do no I/O and the
asyncio classes need no running loop), attributes are read back; `get_const(safe_is_version(x))`,
`Gateway(protocol_version=x)`, `Sensor.protocol_version` + `validate_child_state`, and
`Gateway.logic` on version-specific frames are run for the whole version grid.
Model: driver commands CHAIN / OPTS (constructor chain as keyword-set threading) and VER
(`isVersion` / `selectConst`).
Oracle: the documented floor rule computed with plain tuple comparison; the documented
attribute of every option; the README's own constructor examples.
"""
import ast
import inspect
import itertools
import json
import os
import random
import re
import shutil
import tempfile

from . import common
from .common import Result, digest, enc_str

THEOREMS = [
    "MySensors.C18.parse_render", "MySensors.C18.sectionsLt_iff", "MySensors.C18.is_version_iff",
    "MySensors.C18.floor", "MySensors.C18.floor_unique", "MySensors.C18.rejected_falls_back",
    "MySensors.C18.nonnumeric_falls_back",
    "MySensors.C18.v2_0", "MySensors.C18.v2_0_0", "MySensors.C18.v2_0_5", "MySensors.C18.v2_3",
    "MySensors.C18.v2_2_0", "MySensors.C18.v1_3", "MySensors.C18.v0_x", "MySensors.C18.v_ge_2_2",
    "MySensors.C18.pick_of_sublist", "MySensors.C18.options_masks", "MySensors.C18.options",
    "MySensors.C18.options_lands", "MySensors.C18.gateway_strict",
]
ASSUMPTIONS = [
    "awesomeversion 24.6.0 is modelled on [vV]?d+(.d+)* strings (any Unicode decimal digits, sections "
    "within the int digit limit) plus the words latest/dev/stable/beta; compared here on the whole "
    "version grid and a corpus of other strings (where only 'no exception, some table, 1.4 when "
    "rejected' is judged)",
    "Python keyword-argument binding (named parameter, **kwargs, kwargs.pop, cooperative super().__init__ "
    "along the MRO) is modelled as keyword-set threading; the chain description is compared with "
    "__mro__ / inspect.signature / the source of each __init__ and with 2^7 constructions per class",
    "constructors perform no I/O (checked: no thread, socket, serial port or file is opened by construction)",
]

CLASSES = ["SerialGateway", "AsyncSerialGateway", "TCPGateway", "AsyncTCPGateway", "MQTTGateway",
           "AsyncMQTTGateway"]
ALL_KEYS = ["event_callback", "protocol_version", "persistence", "persistence_file", "port", "baud", "host",
            "timeout", "reconnect_timeout", "pub_callback", "sub_callback", "in_prefix", "out_prefix", "retain"]
REQUIRED = {"SerialGateway": ["port"], "AsyncSerialGateway": ["port"], "TCPGateway": ["host"],
            "AsyncTCPGateway": ["host"], "MQTTGateway": ["pub_callback", "sub_callback"],
            "AsyncMQTTGateway": ["pub_callback", "sub_callback"]}
# the README's documented optional keywords per class (README.md sections Persistence, Protocol
# version, Serial gateway, TCP ethernet gateway, MQTT gateway -> mqtt.py)
COMMON = ["event_callback", "persistence", "persistence_file", "protocol_version"]
DOCUMENTED = {
    "SerialGateway": ["baud", "timeout", "reconnect_timeout"] + COMMON,
    "AsyncSerialGateway": ["baud", "timeout", "reconnect_timeout"] + COMMON,
    "TCPGateway": ["port", "timeout", "reconnect_timeout"] + COMMON,
    "AsyncTCPGateway": ["port", "timeout", "reconnect_timeout"] + COMMON,
    "MQTTGateway": ["in_prefix", "out_prefix", "retain"] + COMMON,
    "AsyncMQTTGateway": ["in_prefix", "out_prefix", "retain"] + COMMON,
}
CONSTS = ["1.4", "1.5", "2.0", "2.1", "2.2"]


def gw_module():
    import mysensors.mysensors as my
    return my


# ----------------------------------------------------------------------------------------
# the floor rule, independently (tuple comparison)

NUMERIC = re.compile(r"[vV]?(\d+(?:\.\d+)*)\.?")


def floor_of(x):
    """Expected table for a version value: '1.4' … '2.2'; None when the value is outside the
    numeric grammar and only robustness is judged; raises nothing."""
    s = str(x).strip()
    m = NUMERIC.fullmatch(s)
    if not m:
        if any(ch.isdigit() for ch in s) or s in ("latest", "dev", "stable", "beta"):
            return None
        return "1.4"
    parts = m.group(1).split(".")
    if any(len(p) > 4300 for p in parts):
        return "1.4"                      # cannot be converted: invalid, falls back
    t = tuple(int(p) for p in parts) + (0, 0)
    best = "1.4"
    for c in CONSTS:
        ct = tuple(int(p) for p in c.split(".")) + (0, 0)
        n = max(len(t), len(ct))
        if ct + (0,) * (n - len(ct)) <= t + (0,) * (n - len(t)):
            best = c
    return best


def const_name(mod):
    return mod.__name__.rsplit("_", 1)[1][0] + "." + mod.__name__[-1]


# ----------------------------------------------------------------------------------------
# constructor chain: description from the real classes

def own_inits(cls):
    return [k for k in cls.__mro__ if "__init__" in k.__dict__ and k is not object]


INTERNAL_PARAMS = {"self", "transport", "gateway", "connect", "protocol", "args", "kwargs"}


def stage_desc(k):
    sig = inspect.signature(k.__init__)
    var_kw = any(p.kind is p.VAR_KEYWORD for p in sig.parameters.values())
    named = [n for n, p in sig.parameters.items()
             if n not in INTERNAL_PARAMS and p.kind in (p.POSITIONAL_OR_KEYWORD, p.KEYWORD_ONLY)]
    src = inspect.getsource(k.__init__)
    pops = re.findall(r"kwargs\.pop\(\s*[\"'](\w+)[\"']", src)
    return f"{k.__name__}[{'**' if var_kw else ''}](" + ",".join(sorted(set(named) | set(pops))) + ")"


def transport_keys(cls):
    """How the leaf class calls its transport constructor: 'all' (**kwargs) or the named keys."""
    import textwrap
    tree = ast.parse(textwrap.dedent(inspect.getsource(cls.__init__)))
    for node in ast.walk(tree):
        if isinstance(node, ast.Call) and isinstance(node.func, ast.Name) and node.func.id.endswith("Transport"):
            if any(kw.arg is None for kw in node.keywords):
                return "all"
            names = [a.id for a in node.args if isinstance(a, ast.Name) and a.id in ALL_KEYS]
            names += [kw.arg for kw in node.keywords if kw.arg in ALL_KEYS]
            return ",".join(names)
    return "?"


def real_chain(name, gw):
    cls = getattr(gw_module(), name)
    tcls = type(gw.tasks.transport)
    return (">".join(stage_desc(k) for k in own_inits(cls)) + " | " +
            ">".join(stage_desc(k) for k in own_inits(tcls)) + " | " + transport_keys(cls) + " | " +
            ",".join(REQUIRED[name]))


# ----------------------------------------------------------------------------------------
# constructing the real classes

class Sentinel:
    def __init__(self, name):
        self.name = name

    def __call__(self, *a, **k):
        return None

    def __repr__(self):
        return f"<{self.name}>"


def values_a(tmp):
    """all-distinct sentinel values (where a key's value ends up can be found by identity)"""
    return {"event_callback": Sentinel("event"), "protocol_version": "2.1", "persistence": True,
            "persistence_file": os.path.join(tmp, "a", "state.json"), "port": "/dev/ttyFAKE7",
            "baud": 57600, "host": "198.51.100.7", "timeout": 7.25, "reconnect_timeout": 33.5,
            "pub_callback": Sentinel("pub"), "sub_callback": Sentinel("sub"), "in_prefix": "p-in",
            "out_prefix": "p-out", "retain": False}


def values_b(tmp):
    """a second representative set: falsy / default-like / other types"""
    return {"event_callback": None, "protocol_version": "2.0.0", "persistence": False,
            "persistence_file": os.path.join(tmp, "b.pickle"), "port": "COM3", "baud": 9600,
            "host": "2001:db8::abcd", "timeout": 0, "reconnect_timeout": 1, "pub_callback": Sentinel("pub2"),
            "sub_callback": Sentinel("sub2"), "in_prefix": "", "out_prefix": "x/y", "retain": True}


def tcp_port_value(vals):
    return 5123 if vals["retain"] is False else 1


def build(name, keys, vals):
    """Construct class `name` with keyword set `keys`.  Returns (gateway | None, error text)."""
    kw = {}
    for k in keys:
        v = vals[k]
        if k == "port" and "TCP" in name:
            v = tcp_port_value(vals)
        kw[k] = v
    try:
        return getattr(gw_module(), name)(**kw), None
    except TypeError as exc:
        m = re.search(r"(\w+)\.__init__\(\) got an unexpected keyword argument '(\w+)'", str(exc))
        if m:
            return None, f"TypeError {m.group(1)} {m.group(2)}"
        return None, "TypeError ? " + str(exc)[:80]
    except Exception as exc:  # noqa: BLE001
        return None, "raised " + type(exc).__name__ + " " + str(exc)[:80]


def read_attrs(name, gw):
    tr = gw.tasks.transport
    out = {"gateway.event_callback": gw.event_callback, "gateway.protocol_version": gw.protocol_version,
           "tasks.persistence": gw.tasks.persistence is not None,
           "tasks.persistence.persistence_file":
               gw.tasks.persistence.persistence_file if gw.tasks.persistence is not None else "<unobservable>",
           "transport.timeout": tr.timeout, "transport.reconnect_timeout": tr.reconnect_timeout,
           "const": const_name(gw.const)}
    if "Serial" in name:
        out["gateway.port"] = gw.port
        out["gateway.baud"] = gw.baud
    if "TCP" in name:
        out["gateway.server_address[0]"] = gw.server_address[0]
        out["gateway.server_address[1]"] = gw.server_address[1]
    if "MQTT" in name:
        out["transport._pub_callback"] = tr._pub_callback
        out["transport._sub_callback"] = tr._sub_callback
        out["transport.in_prefix"] = tr.in_prefix
        out["transport.out_prefix"] = tr.out_prefix
        out["transport._retain"] = tr._retain
    return out


DEFAULTS = {"gateway.event_callback": None, "gateway.protocol_version": "1.4", "tasks.persistence": False,
            "transport.timeout": 1.0, "transport.reconnect_timeout": 10.0, "gateway.baud": 115200,
            "gateway.server_address[1]": 5003, "transport.in_prefix": "", "transport.out_prefix": "",
            "transport._retain": True, "const": "1.4"}


def documented_attr(name, key):
    if key == "port":
        return "gateway.port" if "Serial" in name else "gateway.server_address[1]"
    return {"event_callback": "gateway.event_callback", "protocol_version": "gateway.protocol_version",
            "persistence": "tasks.persistence", "persistence_file": "tasks.persistence.persistence_file",
            "baud": "gateway.baud", "host": "gateway.server_address[0]", "timeout": "transport.timeout",
            "reconnect_timeout": "transport.reconnect_timeout", "pub_callback": "transport._pub_callback",
            "sub_callback": "transport._sub_callback", "in_prefix": "transport.in_prefix",
            "out_prefix": "transport.out_prefix", "retain": "transport._retain"}[key]


def landing(name, keys, vals, attrs):
    """key -> attribute names in which the given value is found (persistence: by effect)"""
    out = {}
    for k in keys:
        v = tcp_port_value(vals) if (k == "port" and "TCP" in name) else vals[k]
        if k == "persistence":
            hits = ["tasks.persistence"] if attrs["tasks.persistence"] == bool(v) else []
        else:
            hits = [a for a, x in attrs.items() if a not in ("const", "tasks.persistence") and
                    (x is v if isinstance(v, Sentinel) else (type(x) is type(v) and x == v))]
        out[k] = hits
    return out


def oracle_options(name, keys, vals, gw, err):
    """The property on one construction: accepted, every option in its documented attribute, the
    others at their defaults.  Returns a list of failure texts."""
    if gw is None:
        return [f"{name}({', '.join(keys)}) is not accepted: {err}"]
    fails = []
    attrs = read_attrs(name, gw)
    for k in keys:
        want = tcp_port_value(vals) if (k == "port" and "TCP" in name) else vals[k]
        a = documented_attr(name, k)
        if k == "persistence":
            if attrs[a] != bool(want):
                fails.append(f"{name}: persistence={want!r} has no effect")
        elif k == "persistence_file":
            if attrs["tasks.persistence"] and attrs[a] != want:
                fails.append(f"{name}: persistence_file not used ({attrs[a]!r})")
        elif attrs[a] is not want and attrs[a] != want:
            fails.append(f"{name}: {k}={want!r} not in {a} (found {attrs[a]!r})")
    if "protocol_version" in keys and attrs["const"] != floor_of(vals["protocol_version"]):
        fails.append(f"{name}: protocol_version={vals['protocol_version']!r} selects {attrs['const']}")
    for a, d in DEFAULTS.items():
        if a in attrs and not any(documented_attr(name, k) == a for k in keys):
            if a == "const" and "protocol_version" in keys:
                continue
            if attrs[a] != d:
                fails.append(f"{name}: {a} is {attrs[a]!r} although no option sets it (default {d!r})")
    return fails


# ----------------------------------------------------------------------------------------
# README examples

def readme_calls():
    """(source text, class name) of every `mysensors.<X>Gateway(...)` call in README python blocks"""
    path = os.path.join(common.REPO, "README.md")
    with open(path, encoding="utf-8") as fh:
        text = fh.read()
    out = []
    for block in re.findall(r"```py(?:thon)?\n(.*?)```", text, re.S):
        try:
            tree = ast.parse(block)
        except SyntaxError:
            continue
        for node in ast.walk(tree):
            if isinstance(node, ast.Call) and isinstance(node.func, ast.Attribute) and \
                    node.func.attr.endswith("Gateway") and isinstance(node.func.value, ast.Name) and \
                    node.func.value.id == "mysensors":
                out.append((ast.get_source_segment(block, node), node.func.attr))
    return out


def shape_of(src):
    tree = ast.parse(src, mode="eval").body
    pos = len(tree.args)
    pos_event = any(isinstance(a, ast.Name) and a.id == "event" for a in tree.args)
    return f"{pos} positional{' incl. event' if pos_event else ''}, keywords " + \
        ",".join(sorted(k.arg or "**" for k in tree.keywords))


def run_readme(res):
    calls = readme_calls()
    res.extra["readme_constructor_examples"] = len(calls)
    if not calls:
        res.oracle_failures.append({"key": {"kind": "readme-example", "class": "-", "shape": "none found"},
                                    "what": "no constructor example found in README.md python blocks",
                                    "replay": {"op": "readme"}})
    for src, cname in calls:
        event = Sentinel("event")
        ns = {"mysensors": gw_module(), "event": event}
        key = {"kind": "readme-example", "class": cname, "shape": shape_of(src)}
        res.evaluations += 1
        try:
            gw = eval(compile(ast.parse(src, mode="eval"), "<README>", "eval"), ns)  # noqa: S307
        except Exception as exc:  # noqa: BLE001
            res.oracle_failures.append({"key": key, "what": f"README example raises {type(exc).__name__}: "
                                        f"{str(exc)[:120]} — {src}", "replay": {"op": "readme", "src": src}})
            continue
        res.count("readme:constructed")
        res.distinct.add(digest(["readme", src]))
        if re.search(r"\bevent\b", src) and gw.event_callback is not event:
            res.oracle_failures.append({"key": key, "what": "README example mentions `event` but "
                                        f"gateway.event_callback is {gw.event_callback!r} — {src}",
                                        "replay": {"op": "readme", "src": src}})


# ----------------------------------------------------------------------------------------
# version grid

def version_values():
    grid = []
    for major in range(0, 4):
        for minor in range(0, 13):
            grid.append(f"{major}.{minor}")
            for patch in range(0, 4):
                grid.append(f"{major}.{minor}.{patch}")
    strings = ["", " ", "abc", "None", "latest", "dev", "stable", "beta", "Latest", "v1.5", "V2.0", "v.1.4",
               " 2.1 ", "\t2.2\n", "1.4.", "2.", "2", "1", "3", "0", "01.4", "2.00", "1.04", "1.4.0.0",
               "2.0.0.0.1", "٢.٠", "١.٤", "2.0.0-beta", "2.2.0-rc.1", "2.4.0-alpha", "0x10", "1..4", ".", ".1",
               "1,4", "1.4a", "2.0b1", "-1.4", "+2.0", "1_0.0", "vv1.4", "1.4..", "22.4", "2024.1.1",
               "2.2.99999999999999999999", "99999999999999999999.0", "2.0;1", "2.0\x00", "é.漢",
               "2." + "1" * 4300, "2." + "1" * 4301, "2.2." + "1" * 4301, "1." + "5" * 4301, "0." + "5" * 4301,
               "3." + "1" * 4301, "1" * 4301, "1.4." + "0" * 4301]
    others = [2, 1, 3, 0, -1, 14, 2.0, 2.2, 2.1, 1.5, 1.4, 1.3, 2.25, 1e3, float("nan"), float("inf"), None, True,
              False, b"2.0", (2, 0), [2, 0], {"v": 2}, 2 + 0j]
    return grid, strings, others


OVERLONG = {"2." + "1" * 4301, "2.2." + "1" * 4301, "1." + "5" * 4301, "3." + "1" * 4301, "1" * 4301,
            "1.4." + "0" * 4301}


def value_key(x):
    s = x if isinstance(x, str) else f"{type(x).__name__}:{x!r}"
    return s if len(s) <= 40 else s[:12] + f"...({len(s)} chars)"


def real_select(x):
    from mysensors.const import get_const
    from mysensors.validation import safe_is_version
    try:
        return const_name(get_const(safe_is_version(x)))
    except Exception as exc:  # noqa: BLE001
        return "raised " + type(exc).__name__


def real_gateway_const(x):
    from mysensors import Gateway
    try:
        return const_name(Gateway(protocol_version=x).const)
    except Exception as exc:  # noqa: BLE001
        return "raised " + type(exc).__name__


def real_is_version(x):
    import voluptuous as vol
    from mysensors.validation import is_version
    try:
        is_version(x)
        return "true"
    except vol.Invalid:
        return "false"
    except Exception as exc:  # noqa: BLE001
        return "raised " + type(exc).__name__


PROBES = [  # (frame, lowest version that defines it)
    ("1;255;3;0;32;500", "2.2"),     # I_PRE_SLEEP_NOTIFICATION
    ("1;255;3;0;22;10", "2.0"),      # I_HEARTBEAT_RESPONSE
    ("1;255;3;0;20;", "2.0"),        # I_DISCOVER
    ("1;255;3;0;15;x", "1.5"),       # I_REQUEST_SIGNING
    ("1;1;1;0;40;ff00aa", "1.5"),    # V_RGB
    ("1;1;1;0;47;hi", "2.0"),        # V_TEXT
    ("1;1;1;0;39;1.5", "1.4"),       # V_CURRENT
]


def behaviour(x):
    """Which version-specific frames a gateway / node with version value x accepts."""
    import voluptuous as vol
    from mysensors import Gateway
    from mysensors.message import Message
    from mysensors.sensor import Sensor
    out = {}
    try:
        Gateway(protocol_version=x)
        gw = gw_module().SerialGateway("/dev/ttyFAKE7", protocol_version=x)   # no I/O before start()
    except Exception as exc:  # noqa: BLE001
        return {"gateway": "raised " + type(exc).__name__}
    acc = []
    for frame, _ in PROBES:
        try:
            Message(frame).validate(gw.protocol_version)
            acc.append(True)
        except vol.Invalid:
            acc.append(False)
        except Exception as exc:  # noqa: BLE001
            acc.append("raised " + type(exc).__name__)
    out["gateway_validate"] = acc
    # through logic(): node presentation, child presentation of S_RGB_LIGHT (1.5+), V_RGB report,
    # heartbeat response (2.0+)
    try:
        gw.logic("1;255;0;0;17;2.0\n")
        gw.logic("1;1;0;0;26;\n")
        gw.logic("1;1;1;0;40;ff00aa\n")
        gw.logic("1;255;3;0;22;10\n")
        s = gw.sensors.get(1)
        out["logic_rgb"] = bool(s and 1 in s.children and s.children[1].values.get(40) == "ff00aa")
        out["logic_heartbeat"] = bool(s and s.heartbeat == 10)
    except Exception as exc:  # noqa: BLE001
        out["logic"] = "raised " + type(exc).__name__
    # the version a node presents: the same whatever the node presented before (a garbled or older value after a
    # good one falls back to 1.4 like a first presentation does)
    try:
        fresh = Sensor(1)
        fresh.protocol_version = x
        for earlier in ("2.2.0", "2.0", "1.5.1"):
            again = Sensor(1)
            again.protocol_version = earlier
            again.protocol_version = x
            if again.protocol_version != fresh.protocol_version:
                out["node_history"] = (f"after presenting {earlier} then this value the node's version is "
                                       f"{again.protocol_version!r}, a fresh node gets {fresh.protocol_version!r}")
    except Exception as exc:  # noqa: BLE001
        out["node_history"] = "raised " + type(exc).__name__
    # the version a node presents reaches the node object whichever of the two node types it presents as
    # (an ordinary node, sub-type 17, or a repeater, sub-type 18)
    if isinstance(x, str) and x and ";" not in x and "\n" not in x and x == x.strip():
        try:
            seen = {}
            for nid, ptype in ((3, 17), (4, 18)):
                gw.logic(f"{nid};255;0;0;{ptype};{x}\n")
                seen[ptype] = gw.sensors[nid].protocol_version if nid in gw.sensors else "not registered"
            fresh = Sensor(1)
            fresh.protocol_version = x
            registered = {v for v in seen.values() if v != "not registered"}
            if len(set(seen.values())) != 1 or (registered and registered != {fresh.protocol_version}):
                out["presented_version"] = (f"node presenting as type 17 / 18 with this version is recorded as "
                                            f"{seen[17]!r} / {seen[18]!r} (a node object given the value: "
                                            f"{fresh.protocol_version!r})")
        except Exception as exc:  # noqa: BLE001
            out["presented_version"] = "raised " + type(exc).__name__
    try:
        node = Sensor(1)
        node.protocol_version = x
        nacc = []
        for vt, val in ((40, "ff00aa"), (47, "hi"), (56, "0.5"), (39, "1.5")):
            try:
                node.validate_child_state(1, vt, val)
                nacc.append(True)
            except vol.Invalid:
                nacc.append(False)
        out["node_validate"] = nacc
    except Exception as exc:  # noqa: BLE001
        out["node"] = "raised " + type(exc).__name__
    return out


ROBUST_LINES = ["7;1;1;0;0;21.5\n", "7;255;3;0;0;55\n", "7;1;2;0;0;\n", "1;255;0;0;17;2.0\n", "1;1;0;0;6;\n",
                "1;1;1;0;0;2\n", "1;1;2;0;0;\n", "255;255;3;0;3;\n", "1;255;3;0;22;5\n", "1;255;3;0;32;5\n",
                "1;255;4;0;0;0100020050005000abcd\n", "9;255;4;0;2;010002000000\n", "1;255;3;0;6;0\n"]


def robustness(x):
    """None, or what went wrong when a gateway with this version value handles ordinary traffic."""
    try:
        gw = gw_module().SerialGateway("/dev/ttyFAKE7", protocol_version=x)
    except Exception:  # noqa: BLE001  (construction is judged elsewhere)
        return None
    for line in ROBUST_LINES:
        try:
            gw.logic(line)
        except Exception as exc:  # noqa: BLE001
            return f"raised {type(exc).__name__} on {line.strip()!r} (table {const_name(gw.const)})"
    try:
        gw.set_child_value(1, 1, 0, "3")
    except (ValueError, Exception) as exc:  # noqa: BLE001
        import voluptuous as vol
        if not isinstance(exc, (ValueError, vol.Invalid)):
            return f"raised {type(exc).__name__} on set_child_value (table {const_name(gw.const)})"
    return None


def expected_behaviour(fl):
    ge = lambda v: CONSTS.index(fl) >= CONSTS.index(v)  # noqa: E731
    return {"gateway_validate": [ge(v) for _, v in PROBES], "logic_rgb": ge("1.5"), "logic_heartbeat": ge("2.0"),
            "node_validate": [ge("1.5"), ge("2.0"), ge("2.0"), True]}


def model_ver_to_text(line):
    """driver VER output -> (is_version, table) or None"""
    if line == "unknown":
        return None
    ok, c = line.split(" ")
    return ok, c[-2] + "." + c[-1]


# ----------------------------------------------------------------------------------------

def run_versions(res, driver, tier):
    grid, strings, others = version_values()
    values = grid + strings + others
    real = [(real_is_version(x), real_select(x), real_gateway_const(x)) for x in values]
    model = None
    if driver is not None:
        try:
            model = driver.run(["VER " + enc_str(str(x)) for x in values])
        except Exception as exc:  # noqa: BLE001
            res.corr_diffs.append({"name": "version-driver", "case": "driver", "model": str(exc), "impl": ""})
    for i, x in enumerate(values):
        isv, sel, gsel = real[i]
        res.evaluations += 1
        in_grid = i < len(grid)
        res.count(("grid:" if in_grid else "other:") + sel)
        want = floor_of(x)
        key_shape = "grid" if in_grid else ("section over int digit limit" if isinstance(x, str) and x in OVERLONG else
                                            ("non-string" if not isinstance(x, str) else "string"))
        if sel.startswith("raised") or gsel.startswith("raised") or isv.startswith("raised"):
            res.oracle_failures.append({
                "key": {"kind": "version-raises", "shape": key_shape},
                "what": f"version value {value_key(x)} raises: is_version={isv} get_const={sel} Gateway()={gsel}",
                "replay": {"op": "version", "value": x if isinstance(x, str) else repr(x),
                           "is_str": isinstance(x, str)}})
            continue
        if sel != gsel:
            res.oracle_failures.append({"key": {"kind": "gateway-const-differs", "shape": key_shape},
                                        "what": f"{value_key(x)}: get_const={sel} Gateway.const={gsel}",
                                        "replay": {"op": "version", "value": str(x), "is_str": isinstance(x, str)}})
        if isv == "false" and sel != "1.4":
            res.oracle_failures.append({"key": {"kind": "rejected-not-1.4", "shape": key_shape},
                                        "what": f"{value_key(x)} is rejected by is_version but selects {sel}",
                                        "replay": {"op": "version", "value": str(x), "is_str": isinstance(x, str)}})
        if want is not None and sel != want:
            res.oracle_failures.append({"key": {"kind": "floor", "shape": key_shape},
                                        "what": f"version {value_key(x)} selects {sel}, the floor rule gives {want}",
                                        "replay": {"op": "version", "value": str(x), "is_str": isinstance(x, str)}})
        if want is None:
            res.count("unjudged-by-floor-rule:" + sel)
        if sel != "1.4" or in_grid:
            res.distinct.add(digest(["ver", str(x)]))
        if model is not None:
            mv = model_ver_to_text(model[i])
            if mv is None:
                res.count("model-unknown")      # outside the modelled domain: robustness only
            elif mv != (isv, sel):
                res.corr_diffs.append({"name": "version", "case": value_key(x), "model": model[i],
                                       "impl": f"{isv} {sel}"})
            if in_grid and mv is None:
                res.corr_diffs.append({"name": "version", "case": x, "model": "unknown on the grid", "impl": sel})
    if model is not None:
        res.traces_validated += len(values)
    # behaviour: the whole grid, and the other values whose floor is judged
    probe_values = grid + [x for x in strings + others if floor_of(x) is not None]
    if tier == "quick":
        probe_values = grid + [x for x in probe_values[len(grid):] if not (isinstance(x, str) and x in OVERLONG)][:40] + \
            [x for x in strings if x in OVERLONG]
    for x in probe_values:
        res.evaluations += 1
        got = behaviour(x)
        want = expected_behaviour(floor_of(x))
        if got != want:
            res.oracle_failures.append({"key": {"kind": "version-behaviour", "shape":
                                                ",".join(k for k in set(got) | set(want) if got.get(k) != want.get(k))},
                                        "what": f"version {value_key(x)} (floor {floor_of(x)}): accepts {got}, expected {want}",
                                        "replay": {"op": "behaviour", "value": str(x), "is_str": isinstance(x, str)}})
        else:
            res.count("behaviour:" + floor_of(x))
    # values the floor rule does not judge (pre-releases, keywords, …): whatever table they select, a gateway
    # configured with them must handle traffic without raising (its table and its version tests have to agree)
    for x in [v for v in strings + others if floor_of(v) is None and not (isinstance(v, str) and v in OVERLONG)]:
        res.evaluations += 1
        bad = robustness(x)
        res.count("robustness:" + ("raised" if bad else "ok"))
        if bad:
            res.oracle_failures.append({"key": {"kind": "version-robustness", "what": bad.split(" on ")[0]},
                                        "what": f"a gateway configured with protocol_version={value_key(x)} {bad}",
                                        "replay": {"op": "robustness", "value": str(x), "is_str": isinstance(x, str)}})
    res.extra["version_grid"] = len(grid)
    res.extra["version_other_values"] = len(strings) + len(others)
    res.sample({"version": "2.0.5", "impl": real_select("2.0.5"), "floor": floor_of("2.0.5")})
    res.sample({"version": "2.10", "impl": real_select("2.10"), "floor": floor_of("2.10")})
    res.sample({"version": "latest", "impl": real_select("latest"), "floor": "unjudged"})


def run_options(res, driver, tier, rng, tmp):
    ops, meta = [], []
    for name in CLASSES:
        docs = DOCUMENTED[name]
        req = REQUIRED[name]
        subsets = [list(c) for r in range(len(docs) + 1) for c in itertools.combinations(docs, r)]
        extra_sets = []
        undocumented = [k for k in ALL_KEYS if k not in docs and k not in req]
        for k in undocumented:
            extra_sets.append([k])
            extra_sets.append(docs[:3] + [k])
        n_rand = (40 if tier == "quick" else 1500) * common.effort(tier)
        for _ in range(n_rand):
            ks = [k for k in ALL_KEYS if k not in req and rng.random() < 0.35]
            rng.shuffle(ks)
            extra_sets.append(ks)
        if tier == "thorough":
            rest = [k for k in ALL_KEYS if k not in req]
            extra_sets += [list(c) for r in range(len(rest) + 1) for c in itertools.combinations(rest, r)]
        for vals_name, vals in (("A", values_a(tmp)), ("B", values_b(tmp))):
            for documented, sets in ((True, subsets), (False, extra_sets)):
                if not documented and vals_name == "B":
                    continue
                for s in sets:
                    keys = req + s
                    gw, err = build(name, keys, vals)
                    res.evaluations += 1
                    ops.append("OPTS " + name + "".join(" " + k for k in keys))
                    meta.append((name, keys, vals_name, vals, gw, err, documented))
    # chain descriptions
    chain_ops = ["CHAIN " + name for name in CLASSES]
    model = None
    if driver is not None:
        try:
            model = driver.run(ops + chain_ops)
        except Exception as exc:  # noqa: BLE001
            res.corr_diffs.append({"name": "options-driver", "case": "driver", "model": str(exc), "impl": ""})
    for i, (name, keys, vals_name, vals, gw, err, documented) in enumerate(meta):
        if documented:
            for f in oracle_options(name, keys, vals, gw, err):
                kind = "option-rejected" if gw is None else "option-no-effect"
                m = re.search(r"TypeError \w+ (\w+)$|: (\w+)=|: (\S+) is ", f)
                res.oracle_failures.append({"key": {"kind": kind, "class": name,
                                                    "option": next((g for g in (m.groups() if m else ()) if g), "?")},
                                            "what": f, "replay": {"op": "construct", "class": name, "keys": keys,
                                                                  "values": vals_name}})
        if gw is not None:
            res.count(("documented" if documented else "other") + ":constructed")
            if documented:
                res.distinct.add(digest([name, sorted(keys), vals_name]))
        else:
            res.count(("documented" if documented else "other") + ":" + (err or "?").split(" ")[0])
        if model is None:
            continue
        m = model[i]
        if gw is None:
            impl = err
        elif vals_name == "A":
            land = landing(name, keys, vals, read_attrs(name, gw))
            impl = "ok" + "".join(f" {k}>{','.join(land[k]) or '-'}" for k in keys)
            # order-insensitive comparison of the landing map; an unobservable persistence_file
            # (persistence off) is skipped
            mm = dict(p.split(">") for p in m.split(" ")[1:]) if m.startswith("ok") else None
            if mm is not None:
                same = set(mm) == set(keys) and all(
                    land[k] == [mm[k]] or (k == "persistence_file" and not read_attrs(name, gw)["tasks.persistence"])
                    for k in keys)
                if same:
                    continue
        else:
            impl = "ok"
            if m.startswith("ok"):
                continue
        if m != impl:
            res.corr_diffs.append({"name": "constructor-chain", "case": ops[i], "model": m, "impl": impl})
    if model is not None:
        res.traces_validated += len(ops)
        for j, name in enumerate(CLASSES):
            gw, err = build(name, REQUIRED[name], values_a(tmp))
            impl = real_chain(name, gw) if gw is not None else "construct failed: " + str(err)
            line = model[len(ops) + j]
            m_struct = " | ".join(line.split(" | ")[:4])
            if m_struct != impl:
                res.corr_diffs.append({"name": "constructor-chain-description", "case": name, "model": m_struct,
                                       "impl": impl})
            # the model's documented-option table is the README's
            m_doc = [p.split(">")[0] for p in line.split(" | ")[4].split(",")]
            if sorted(m_doc) != sorted(DOCUMENTED[name]):
                res.corr_diffs.append({"name": "documented-options", "case": name, "model": m_doc,
                                       "impl": DOCUMENTED[name]})
            res.traces_validated += 1
    res.extra["constructions"] = len(ops)
    res.sample({"construct": ops[len(ops) // 7], "model": model[len(ops) // 7] if model else None})


def check_no_io(res, tmp):
    """constructors must not open anything: patch the usual entry points and count calls"""
    import socket
    import threading
    import serial
    calls = []
    orig = (socket.socket, threading.Thread.start, serial.serial_for_url, open)
    import builtins

    def trap(name, fn):
        def inner(*a, **k):
            calls.append(name)
            return fn(*a, **k)
        return inner
    socket.socket = trap("socket", orig[0])
    threading.Thread.start = trap("thread", orig[1])
    serial.serial_for_url = trap("serial", orig[2])
    builtins.open = trap("open", orig[3])
    try:
        for name in CLASSES:
            build(name, REQUIRED[name] + DOCUMENTED[name], values_a(tmp))
    finally:
        socket.socket, threading.Thread.start, serial.serial_for_url, builtins.open = orig
    res.evaluations += len(CLASSES)
    if calls or os.path.exists(os.path.join(tmp, "a")):
        res.oracle_failures.append({"key": {"kind": "constructor-io", "what": sorted(set(calls))},
                                    "what": f"constructors performed I/O: {sorted(set(calls))}",
                                    "replay": {"op": "no-io"}})


def corpus_value(r):
    if "value_expr" in r:
        return eval(r["value_expr"], {"__builtins__": {}}, {"nan": float("nan"), "inf": float("inf")})  # noqa: S307
    x = r.get("value")
    if not r.get("is_str", True):
        x = eval(x, {"__builtins__": {}}, {"nan": float("nan"), "inf": float("inf")})  # noqa: S307
    return x


def judge_replay(r, tmp, verbose=False):
    """Run one stored replay against the real code; returns a list of failure texts."""
    op = r.get("op")
    say = print if verbose else (lambda *a, **k: None)
    if op == "construct":
        vals = values_a(tmp) if r.get("values") == "A" else values_b(tmp)
        gw, err = build(r["class"], r["keys"], vals)
        say("impl:", "constructed" if gw is not None else err)
        if gw is not None:
            say("attrs:", {k: repr(v)[:60] for k, v in read_attrs(r["class"], gw).items()})
        return oracle_options(r["class"], r["keys"], vals, gw, err)
    if op in ("version", "behaviour"):
        x = corpus_value(r)
        sel, gsel, isv = real_select(x), real_gateway_const(x), real_is_version(x)
        want = r.get("expect", floor_of(x))
        say("impl: is_version", isv, "get_const", sel, "Gateway.const", gsel, "expected", want)
        fails = []
        if "raised" in sel + gsel + isv:
            fails.append(f"version value {value_key(x)} raises: is_version={isv} get_const={sel} Gateway()={gsel}")
        elif want is not None and (sel != want or gsel != want):
            fails.append(f"version {value_key(x)} selects {sel} / {gsel}, expected {want}")
        if not fails and want is not None:
            got = behaviour(x)
            say("behaviour:", got)
            if got != expected_behaviour(want):
                fails.append(f"version {value_key(x)}: accepts {got}, expected {expected_behaviour(want)}")
        return fails
    if op == "robustness":
        bad = robustness(corpus_value(r))
        return [bad] if bad else []
    if op == "connect-wait":
        bad = connect_wait_probe(r["class"], r["timeout"], r["rt"])
        say("impl:", bad or "as configured")
        return [bad] if bad else []
    if op == "tcp-timing":
        bad = tcp_timing_probe(r["class"], r["timeout"], r["rt"])
        say("impl:", bad or "as configured")
        return [bad] if bad else []
    if op == "retain":
        bad = mqtt_retain_probe(r["class"], r["retain"], r.get("pin", "px/in"), r.get("pout", "px/out"))
        return [bad] if bad else []
    if op == "effect":
        bad = effect_probe(r["class"], r["callback"], r["ext"], tmp, r.get("spelling", "absolute"))
        return [bad] if bad else []
    if op == "readme":
        res = Result()
        run_readme(res)
        return [f["what"] for f in res.oracle_failures]
    if op == "no-io":
        res = Result()
        check_no_io(res, tmp)
        return [f["what"] for f in res.oracle_failures]
    return [f"unknown replay op {op!r}"]


def run_corpus(res, tmp):
    """minimised past failures: always run first"""
    import glob
    files = sorted(glob.glob(os.path.join(common.VERIF, "corpus", "C18", "*.json")))
    res.extra["corpus_replays"] = len(files)
    for path in files:
        with open(path, encoding="utf-8") as fh:
            entry = json.load(fh)
        res.evaluations += 1
        for f in judge_replay(entry.get("replay", {}), tmp):
            res.oracle_failures.append({"key": {"kind": "corpus-regression", "file": os.path.basename(path)},
                                        "what": f"{os.path.basename(path)}: {f}", "replay": entry.get("replay")})
        res.count("corpus:replayed")


def effect_probe(name, with_callback, ext, tmp, spelling="absolute"):
    """Options honoured by effect, not only stored: with persistence on, what the nodes report is in the
    file after the next save whether or not an event callback is configured; a configured callback sees
    every accepted message.  The file is named as an absolute path, as a bare file name in the working
    directory (what the documented default `mysensors.pickle` is) or relative with a directory part.
    Returns a failure text or None."""
    cwd = os.getcwd()
    os.makedirs(os.path.join(tmp, "sub"), exist_ok=True)
    os.chdir(tmp)
    try:
        return _effect_probe(name, with_callback, ext, tmp, spelling)
    finally:
        os.chdir(cwd)


def _effect_probe(name, with_callback, ext, tmp, spelling):
    events = []
    base = f"effect-{name}-{int(with_callback)}.{ext}"
    path = {"absolute": os.path.join(tmp, base), "bare": base, "relative": os.path.join("sub", base)}[spelling]
    for leftover in (path, path + ".bak"):
        if os.path.exists(leftover):
            os.remove(leftover)
    vals = dict(values_a(tmp), persistence=True, persistence_file=path, protocol_version="2.2",
                event_callback=events.append)
    keys = ["persistence", "persistence_file", "protocol_version"] + (["event_callback"] if with_callback else [])
    if "MQTT" in name:
        keys += ["pub_callback", "sub_callback"]
    elif "TCP" in name:
        keys += ["host"]
    else:
        keys += ["port"]
    gw, err = build(name, keys, vals)
    if gw is None:
        return f"{name}({', '.join(keys)}) is not accepted: {err}"
    lines = ["1;255;0;0;17;2.2\n", "1;1;0;0;6;probe\n", "1;1;1;0;0;21.5\n"]
    try:
        gw.logic(lines[0])
        gw.tasks.persistence.save_sensors()
        gw.logic(lines[1])
        gw.logic(lines[2])
        gw.tasks.persistence.save_sensors()
        gw2, err = build(name, keys, vals)
        gw2.tasks.persistence.safe_load_sensors()
        child = gw2.sensors[1].children.get(1) if 1 in gw2.sensors else None
        got = None if child is None else child.values.get(0)
    except Exception as exc:  # noqa: BLE001
        return f"{name} ({'with' if with_callback else 'without'} event_callback, .{ext}): probe raised {type(exc).__name__}: {exc}"
    if got != "21.5":
        return (f"{name} with persistence=True, persistence_file={path!r} and {'an' if with_callback else 'no'} event_callback: a value "
                f"reported after the first save is not in the file after the next save (restored {got!r})")
    if with_callback and len(events) != 3:
        return f"{name}: the configured event_callback saw {len(events)} of 3 accepted messages"
    return None


def mqtt_retain_probe(name, retain, pin="px/in", pout="px/out"):
    """in_prefix / out_prefix / retain honoured by effect: every command published carries the configured
    retain flag and the configured out prefix, whatever its payload.  Returns a failure text or None."""
    pubs, subs = [], []
    vals = dict(values_a("/nonexistent"), protocol_version="2.2", out_prefix=pout, in_prefix=pin,
                pub_callback=lambda topic, payload, qos, ret: pubs.append((topic, payload, qos, ret)),
                sub_callback=lambda topic, cb, qos: subs.append((topic, qos)))
    keys = ["pub_callback", "sub_callback", "protocol_version", "out_prefix", "in_prefix"]
    if retain is not None:
        vals["retain"] = retain
        keys.append("retain")
    gw, err = build(name, keys, vals)
    if gw is None:
        return f"{name}({', '.join(keys)}) is not accepted: {err}"
    want = True if retain is None else retain
    cmds = ["1;255;3;0;13;\n", "1;1;1;0;2;1\n", "1;1;2;0;0;\n", "7;255;3;0;19;\n", "1;1;1;1;47;text\n"]
    try:
        for c in cmds:
            gw.tasks.transport.send(c)
    except Exception as exc:  # noqa: BLE001
        return f"{name}: publishing raised {type(exc).__name__}: {exc}"
    if len(pubs) != len(cmds):
        return f"{name}(retain={retain!r}): {len(pubs)} of {len(cmds)} commands were published"
    for c, (topic, payload, qos, ret) in zip(cmds, pubs):
        if ret is not want and ret != want:
            return (f"{name}(retain={retain!r}) published {c.strip()!r} (payload {payload!r}) with retain={ret!r}, "
                    f"not the configured {want!r}")
        if not topic.startswith(pout + "/") or topic.count("/") != pout.count("/") + 5:
            return f"{name}(out_prefix={pout!r}) published {c.strip()!r} to {topic!r}"
    # the subscriptions the gateway asks for at start-up and for a presented child: under the configured
    # in-prefix, five levels, with the QoS a broker accepts for wildcard subscriptions of this kind (0)
    try:
        gw.init_topics()
        gw.logic("9;255;0;0;17;2.2\n")
        gw.logic("9;4;0;0;6;t\n")
    except Exception as exc:  # noqa: BLE001
        return f"{name}(in_prefix={pin!r}): subscribing raised {type(exc).__name__}: {exc}"
    if not subs:
        return f"{name}(in_prefix={pin!r}): no subscription was requested"
    for topic, qos in subs:
        if not topic.startswith(pin + "/") or topic.count("/") != pin.count("/") + 5 or qos != 0:
            return f"{name}(in_prefix={pin!r}): subscription to {topic!r} requested with QoS {qos!r}"
    # in_prefix by effect: exactly the topics made of the configured prefix and the five message levels are
    # taken in; what lies next to it, above it or deeper below it belongs to somebody else
    jobs = []
    gw.tasks.add_job = lambda func, *args: jobs.append(args)
    deliveries = [(f"{pin}/1/1/1/0/2", True), (f"{pout}/1/1/1/0/2", False), (f"{pin}/garage/1/1/1/0/2", False),
                  ("other/1/1/1/0/2", False), ("/1/1/1/0/2", False), (f"{pin}x/1/1/1/0/2", False),
                  (f"{pin.rsplit('/', 1)[0]}/1/1/1/0/2", "/" not in pin), (f"gw/{pin}/1/1/1/0/2", False),
                  (f"{pin}/7/255/3/0/0", True), (f"{pin}/{pin}/1/1/1/0/2", False),
                  (f"{pin.rstrip('/')}/1/1/1/0/2", not pin.endswith("/")), (f"{pin}//1/1/1/0/2", False)]
    for topic, mine in deliveries:
        del jobs[:]
        try:
            gw.tasks.transport.recv(topic, "1", 0)
        except Exception as exc:  # noqa: BLE001
            return f"{name}(in_prefix={pin!r}): a delivery on {topic!r} raised {type(exc).__name__}: {exc}"
        if bool(jobs) != mine:
            return (f"{name}(in_prefix={pin!r}): a delivery on {topic!r} was "
                    f"{'taken in as ' + repr(jobs[0]) if jobs else 'ignored'}")
    return None


def tcp_timing_probe(name, timeout, rt):
    """timeout / reconnect_timeout of the TCP classes by effect: `timeout` is handed to the socket layer, the
    keep-alive of check_connection() follows `reconnect_timeout` alone: nothing is asked before it has passed, a
    version request goes out once it has, and the link is given up after twice that much silence.  The clock
    of mysensors.gateway_tcp is a fake one.  Returns a failure text or None."""
    import mysensors.gateway_tcp as gtcp
    vals = dict(values_a("/nonexistent"), timeout=timeout, reconnect_timeout=rt, protocol_version="2.2")
    gw, err = build(name, ["host", "timeout", "reconnect_timeout", "protocol_version"], vals)
    if gw is None:
        return f"{name}(timeout, reconnect_timeout) is not accepted: {err}"
    now, jobs = [1000.0], []

    class Clock:
        def __getattr__(self, attr):
            return getattr(real_time, attr)

        def time(self):
            return now[0]
    real_time = gtcp.time
    gtcp.time = Clock()
    try:
        gw.tasks.add_job = lambda func, *args: jobs.append(func(*args))
        gw.tcp_check_timer = gw.tcp_disconnect_timer = now[0]
        what = f"{name}(timeout={timeout}, reconnect_timeout={rt})"
        for after, asks, drops in ((0.5 * rt, False, False), (0.98 * rt, False, False), (1.02 * rt, True, False),
                                   (1.5 * rt, False, False), (1.99 * rt, False, False), (2.03 * rt, True, True)):
            del jobs[:]
            now[0] = 1000.0 + after
            dropped = False
            try:
                gtcp.BaseTCPGateway.check_connection(gw)
            except OSError:
                dropped = True
            except Exception as exc:  # noqa: BLE001
                return f"{what}: check_connection raised {type(exc).__name__}: {exc}"
            if dropped != drops:
                return (f"{what}: {after:g} s after the last answer the connection is "
                        f"{'given up' if dropped else 'not given up'}")
            if not dropped and bool(jobs) != asks:
                return (f"{what}: {after:g} s after the connection was made a version request is "
                        f"{'sent' if jobs else 'not sent'} (the previous one went out at "
                        f"{gw.tcp_check_timer - 1000.0:g} s)")
    finally:
        gtcp.time = real_time
    return None


def connect_wait_probe(name, timeout, rt):
    """reconnect_timeout of the thread-based serial and TCP classes by effect: the real connect loop against a
    device that cannot be opened, on a fake clock — between two attempts exactly reconnect_timeout passes
    (whatever number it is: whole, fractional, below one second), and the serial class opens the port with
    the configured timeout.  Returns a failure text or None."""
    import mysensors.gateway_serial as gs
    import mysensors.gateway_tcp as gt
    import serial as real_serial
    serial_class = "Serial" in name
    vals = dict(values_a("/nonexistent"), timeout=timeout, reconnect_timeout=rt, protocol_version="2.2")
    gw, err = build(name, [("port" if serial_class else "host"), "timeout", "reconnect_timeout", "protocol_version"], vals)
    if gw is None:
        return f"{name}(timeout, reconnect_timeout) is not accepted: {err}"
    mod = gs if serial_class else gt
    transport = gw.tasks.transport
    clock, attempts = [0.0], []

    class Clock:
        def __getattr__(self, attr):
            return getattr(real_time, attr)

        def time(self):
            return clock[0]

        def sleep(self, secs):
            clock[0] += float(secs)
            if len(attempts) >= 4 or clock[0] > 100 * (rt + 1):
                transport.protocol = None

    def refuse(*args, **kwargs):
        attempts.append((clock[0], kwargs.get("timeout", args[1] if len(args) > 1 and not serial_class else None)))
        if len(attempts) >= 4:
            transport.protocol = None
        if len(attempts) > 50:
            raise KeyboardInterrupt        # a loop that does not wait at all
        raise (real_serial.SerialException("could not open port") if serial_class
               else [ConnectionRefusedError(111, "refused"), __import__("socket").timeout("timed out")][len(attempts) % 2])

    class SerialShim:
        SerialException = real_serial.SerialException
        threaded = real_serial.threaded
        serial_for_url = staticmethod(refuse)

        def __getattr__(self, attr):
            return getattr(real_serial, attr)

    class SocketShim:
        create_connection = staticmethod(refuse)

        def __getattr__(self, attr):
            return getattr(real_socket, attr)
    real_time = mod.time
    real_socket = getattr(mod, "socket", None)
    mod.time = Clock()
    if serial_class:
        mod.serial = SerialShim()
    else:
        mod.socket = SocketShim()
    what = f"{name}(timeout={timeout}, reconnect_timeout={rt})"
    try:
        try:
            mod.sync_connect(transport)
        except KeyboardInterrupt:
            return f"{what}: the connect loop made more than 50 attempts within {clock[0]:g} s"
        except Exception as exc:  # noqa: BLE001
            return f"{what}: the connect loop raised {type(exc).__name__}: {exc}"
    finally:
        mod.time = real_time
        if serial_class:
            mod.serial = real_serial
        else:
            mod.socket = real_socket
    if len(attempts) < 4:
        return f"{what}: the connect loop gave up after {len(attempts)} attempts"
    gaps = [b[0] - a[0] for a, b in zip(attempts, attempts[1:4])]
    if any(abs(g - rt) > 1e-6 for g in gaps):
        return f"{what}: the attempts to connect are {gaps} s apart"
    if serial_class and any(t != timeout for _, t in attempts[:4]):
        return f"{what}: the port is opened with timeout {attempts[0][1]!r}"
    if not serial_class and any(t != rt for _, t in attempts[:4]):
        return f"{what}: an attempt to connect is given {attempts[0][1]!r} s, not the reconnect timeout"
    return None


def run_effects(res, tmp):
    for name in ("SerialGateway", "TCPGateway"):
        for timeout, rt in ((1.0, 10.0), (1.0, 2.5), (3.0, 0.4), (0.2, 0.5), (5.0, 5.0), (2.0, 30.0)):
            res.count("effect-probes")
            res.evaluations += 1
            res.distinct.add(digest(["connect-wait", name, timeout, rt]))
            bad = connect_wait_probe(name, timeout, rt)
            if bad:
                res.oracle_failures.append({
                    "key": {"kind": "option-without-effect", "class": name, "option": "reconnect_timeout (connect loop)"},
                    "what": bad, "replay": {"op": "connect-wait", "class": name, "timeout": timeout, "rt": rt}})
    for name in CLASSES:
        if "TCP" in name:
            for timeout, rt in ((1.0, 30.0), (10.0, 2.0), (1.0, 10.0), (3.0, 3.0), (0.5, 120.0)):
                res.count("effect-probes")
                res.evaluations += 1
                res.distinct.add(digest(["tcp-timing", name, timeout, rt]))
                bad = tcp_timing_probe(name, timeout, rt)
                if bad:
                    res.oracle_failures.append({
                        "key": {"kind": "option-without-effect", "class": name, "option": "timeout/reconnect_timeout"},
                        "what": bad, "replay": {"op": "tcp-timing", "class": name, "timeout": timeout, "rt": rt}})
    for name in CLASSES:
        if "MQTT" in name:
            for retain in (None, True, False):
                # prefixes are used as configured: also one that ends in '/', one level only, and nested ones
                for pin, pout in (("px/in", "px/out"), ("site1/gw-out/", "site1/gw-in/"), ("in", "out"),
                                  ("a/b/c/d/e/f", "a/b/c/d/e/g")):
                    res.count("effect-probes")
                    res.evaluations += 1
                    res.distinct.add(digest(["retain", name, retain, pin]))
                    bad = mqtt_retain_probe(name, retain, pin, pout)
                    if bad:
                        res.oracle_failures.append({
                            "key": {"kind": "option-without-effect", "class": name, "option": "retain/prefixes"},
                            "what": bad, "replay": {"op": "retain", "class": name, "retain": retain, "pin": pin, "pout": pout}})
    for name in CLASSES:
        for with_callback in (True, False):
            for ext in ("json", "pickle"):
                res.count("effect-probes")
                res.evaluations += 1
                res.distinct.add(digest(["effect", name, with_callback, ext]))
                spelling = ["absolute", "bare", "relative"][(len(name) + with_callback + len(ext)) % 3]
                bad = effect_probe(name, with_callback, ext, tmp, spelling)
                if bad:
                    res.oracle_failures.append({
                        "key": {"kind": "option-without-effect", "class": name, "callback": with_callback},
                        "what": bad, "replay": {"op": "effect", "class": name, "callback": with_callback, "ext": ext,
                                                "spelling": spelling}})


def run(tier, seed, driver):
    res = Result()
    rng = random.Random(seed * 7919 + 18)
    tmp = tempfile.mkdtemp(prefix="verif-c18-")
    try:
        run_corpus(res, tmp)
        run_readme(res)
        check_no_io(res, tmp)
        run_options(res, driver, tier, rng, tmp)
        run_effects(res, tmp)
        run_versions(res, driver, tier)
    finally:
        shutil.rmtree(tmp, ignore_errors=True)
    res.exhaustive = True
    res.rule = ("6 classes x all 2^7 subsets of the documented optional keywords x 2 value sets (exhaustive), "
                "plus keyword sets with undocumented keys (each single key, seeded random sets"
                + (", all 2^12 / 2^13 sets" if tier == "thorough" else "") + "); version grid major 0..3 x "
                "minor 0..12 x patch absent/0..3 (260 strings, exhaustive) plus other strings, numbers, None; "
                "behaviour probes (gateway validate, logic(), node validate_child_state) per grid value; "
                "README constructor examples; effect probes (persistence with and without event_callback: six classes x two "
                "formats; MQTT retain / out_prefix on every published command); corpus/C18 regressions.  non-trivial = constructed / selected "
                "a table; distinct by (class, keyword set, value set) and version value")
    return res


def replay(payload):
    r = payload.get("replay", {})
    print(json.dumps(payload, default=str)[:1500])
    tmp = tempfile.mkdtemp(prefix="verif-c18-")
    try:
        fails = judge_replay(r, tmp, verbose=True)
        try:
            if r.get("op") == "construct":
                print("model:", common.Driver().run(["OPTS " + r["class"] + "".join(" " + k for k in r["keys"])]))
            elif r.get("op") in ("version", "behaviour"):
                print("model:", common.Driver().run(["VER " + enc_str(str(corpus_value(r)))]))
        except Exception as exc:  # noqa: BLE001
            print("model: driver unavailable:", exc)
        print("oracle:", fails or "pass")
        return 1 if fails else 0
    finally:
        shutil.rmtree(tmp, ignore_errors=True)
