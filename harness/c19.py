"""C19 — behaviour depends only on the lines received.

Part 1 (segmentation): the real protocol classes' `data_received` (pyserial Packetizer/LineReader
as inherited by BaseMySensorsProtocol / AsyncMySensorsProtocol / AsyncTCPMySensorsProtocol, and the
real TCPTransport.run reader loop with recv(120) on a socketpair) against the Lean framing model,
against the unsplit run and against the property's own statement (the '\\n'-terminated segments).
Part 2 (flavours): the real BaseSyncGateway driven by scripted pump schedules (one iteration of the
real `_poll_queue` loop per pump event) against the real BaseAsyncGateway on the same lines, and
against the Lean pump model.  Part 3: bytes in, state and transport log out, chunked vs whole.
"""
import asyncio
import random
import socket
import time

from . import common
from .common import Result, enc_str, digest
from . import gw as G

THEOREMS = [
    "MySensors.C19.segmentation", "MySensors.C19.segmentation_any_two", "MySensors.C19.cut_anywhere",
    "MySensors.C19.buffer_invariant", "MySensors.C19.delivered_exact",
    "MySensors.C19.decomposition_exists_unique", "MySensors.C19.tcp_chunking",
    "MySensors.C19.tcp_reader_loop", "MySensors.C19.tcp_reader_any_two", "MySensors.C19.tcp_reader_chunks",
    "MySensors.C19.behaviour_independent_of_segmentation", "MySensors.C19.inline_is_model_run",
    "MySensors.C19.inline_output_is_model_step",
    "MySensors.C19.state_is_function_of_lines_reader", "MySensors.C19.state_is_function_of_lines_events",
    "MySensors.C19.reconnect_is_concatenation", "MySensors.C19.events_any_two",
    "MySensors.C19.behaviour_independent_of_connection_events",
    "MySensors.C19.reconnect_drop_policy", "MySensors.C19.events_deliver_complete_lines",
    "MySensors.C19.lost_and_made_deliver_nothing", "MySensors.C19.policies_agree_without_tail",
    "MySensors.C19.adjacent_tail_glued_general",
    "MySensors.C19.flavours_counterexample", "MySensors.C19.flavours_counterexample_outputs",
    "MySensors.C19.flavours_counterexample_wakeup",
    "MySensors.C19.flavours_partial_state", "MySensors.C19.flavours_partial_output",
    "MySensors.C19.flavours_partial_no_nested", "MySensors.C19.flavours_partial_quiet",
    "MySensors.C19.flavours_partial_drained",
]
ASSUMPTIONS = [
    "bytes.decode('utf-8', 'replace') is a pure function of the complete packet (the theorems hold for "
    "an arbitrary per-packet decoder; the correspondence applies CPython's decoder to the model's raw packets)",
    "the transport contract: data_received is called with the chunks in stream order, on one thread",
    "connection events: every connection of a gateway is served by the one protocol object its transport "
    "holds (lambda: transport.protocol); a protocol class that empties the buffer when the connection is lost "
    "is accepted as well (theorem reconnect_drop_policy), anything else is reported with the event sequence",
    "threaded flavour: jobs run one at a time on the poll thread (deque.append / popleft atomic under the "
    "GIL); a schedule is an interleaving of 'line arrives' and 'one _poll_queue iteration'; controller "
    "calls (set_child_value, update_fw) are made when the queue is drained — their interleaving with "
    "the pump is a different question from the one the property asks",
    "the classification of a handler's output into 'returned' vs 'add_job-ed' (Model/Pump.lean "
    "returnsReply) is checked by the pump correspondence on every generated schedule, not proved",
]

NL = 10


# ------------------------------------------------------------------------------------------
# part 1: framing
# ------------------------------------------------------------------------------------------

def make_protocol(cls_name):
    """A real protocol object whose gateway records the lines handed to add_job."""
    from mysensors import BaseAsyncGateway
    from mysensors.transport import BaseMySensorsProtocol, AsyncMySensorsProtocol
    from mysensors.gateway_tcp import AsyncTCPMySensorsProtocol
    cls = {"base": BaseMySensorsProtocol, "async": AsyncMySensorsProtocol, "asynctcp": AsyncTCPMySensorsProtocol}[cls_name]
    # a real gateway with its real transport object (never connected): the protocol classes read attributes of
    # gateway.tasks.transport, and a stand-in would only know the attributes of today
    import mysensors.gateway_serial as gs
    gw = gs.AsyncSerialGateway("/dev/ttyFAKE", protocol_version="2.2")
    lines = []

    def add_job(func, *args):
        lines.append((getattr(func, "__name__", "?"), args))
    gw.tasks.add_job = add_job
    proto = cls(gw, lambda: None)
    return proto, lines


def real_feed(cls_name, chunks):
    proto, lines = make_protocol(cls_name)
    for c in chunks:
        proto.data_received(c)
    out = []
    for name, args in lines:
        if name != "logic" or len(args) != 1:
            out.append(("?", name, args))
        else:
            out.append(args[0])
    left = bytes(proto.buffer)
    # the peer closes the connection: what was received without a line end is not a line, and stays unhandled
    delivered = len(lines)
    if hasattr(proto, "eof_received"):
        try:
            proto.eof_received()
        except Exception:  # noqa: BLE001   (C20's business)
            pass
    if len(lines) != delivered:
        out.append(("?", "handled-at-close", tuple(lines[delivered:])))
    return out, left


def spec_feed(stream):
    parts = stream.split(b"\n")
    return [p.decode("utf-8", "replace") for p in parts[:-1]], parts[-1]


FRAGMENTS = [b"1;2;1;0;2;1\n", b"1;255;3;0;0;77\r\n", b"255;255;3;0;3;\n", b"\n", b"\r\n", b"garbage", b"\r",
             b"1;1;1;0;47;\xc3\xbcn\xc3\xaf\n", b"\xe6\xbc\xa2\n", b"\xf0\x9f\x98\x80;\n", b"\xff\xfe\n", b"\xc3",
             b"\xc3\n", b"\xe6\xbc", b"\x00", b";;;;;\n", b"1;1;1;0;2;on \r\n", b"\n\n", b"\xed\xa0\x80\n",
             b"0;0;3;0;9;log line\n", b" ", b"\x1c\n", b"\xc2\x85\n"]


def gen_stream(rng, nfrag):
    return b"".join(rng.choice(FRAGMENTS) for _ in range(nfrag))


def chunkings(rng, stream, tier):
    n = len(stream)
    out = []
    if n <= 40:
        for i in range(n + 1):
            out.append([stream[:i], stream[i:]])
    if n <= (20 if tier == "quick" else 28):
        for i in range(n + 1):
            for j in range(i, n + 1):
                out.append([stream[:i], stream[i:j], stream[j:]])
    if n <= 3000:
        out.append([stream[i:i + 1] for i in range(n)])             # byte by byte
    out.append([stream[i:i + 120] for i in range(0, n, 120)])       # recv(120)
    if n > 100:
        # long unterminated input: cuts at the end of the noise and fixed read sizes around every
        # plausible buffer limit
        first_nl = stream.find(b"\n")
        for size in (64, 100, 255, 256, 257, 1000, 1024, 4096, 65536):
            if size < n:
                out.append([stream[i:i + size] for i in range(0, n, size)])
        for back in (0, 1, 17, 18):
            cut = max(0, first_nl - back)
            out.append([stream[:cut], stream[cut:]])
    out.append([b"", stream, b""])
    for _ in range(4):
        cuts = sorted(rng.randrange(n + 1) for _ in range(rng.randrange(1, 8)))
        pts = [0] + cuts + [n]
        out.append([stream[a:b] for a, b in zip(pts, pts[1:])])
    return out


def hexs(b):
    return b.hex() or "e"


def part_framing(res, rng, driver, tier):
    streams = [b"", b"\n", b"1;2;3\r\n4", b"\xc3\xbc\n\xc3", b"a\r\nb\nc"]
    streams += [gen_stream(rng, rng.randrange(1, 4)) for _ in range(60 if tier == "quick" else 400)]
    streams += [gen_stream(rng, rng.randrange(4, 9)) for _ in range(40 if tier == "quick" else 400)]
    streams += [gen_stream(rng, rng.randrange(20, 60)) for _ in range(15 if tier == "quick" else 150)]
    # lines far longer than any real frame (noise without a terminator, then a frame): the segments are
    # still the newline-terminated ones, whatever the read sizes
    frame = b"1;255;0;0;17;2.2\n"
    lengths = [101, 121, 127, 128, 129, 255, 256, 257, 300, 511, 513, 1023, 1025, 2049, 4097, 8193]
    if tier != "quick":
        lengths += [16385, 65537, 200001]
    for L in lengths:
        noise = bytes(rng.choice(b"abcxyz;0123456789 ") for _ in range(L))
        streams.append(noise + frame + rng.choice([b"", b"2;255;0;0;17;2.2\n", b"tail"]))
        streams.append(frame + noise + frame)
    ops, impl, cases = [], [], []
    classes = ["base", "async", "asynctcp"]
    k = 0
    for stream in streams:
        whole = real_feed("base", [stream])
        want = spec_feed(stream)
        if whole != want:
            res.oracle_failures.append({"key": {"kind": "framing-not-newline-segments"},
                                        "what": f"unsplit stream {stream!r}: delivered {whole!r}, the "
                                                f"newline-terminated segments are {want!r}",
                                        "replay": {"part": "framing", "stream": stream.hex(), "cuts": []}})
        for chunks in chunkings(rng, stream, tier):
            cls = classes[k % 3]
            k += 1
            got = real_feed(cls, chunks)
            res.evaluations += 1
            if got[0]:
                res.distinct.add(digest((stream, [len(c) for c in chunks])))
            res.count("framing:" + cls)
            if got != whole:
                cuts = []
                pos = 0
                for c in chunks[:-1]:
                    pos += len(c)
                    cuts.append(pos)
                res.oracle_failures.append({
                    "key": {"kind": "segmentation-dependent", "cls": cls},
                    "what": f"{cls} protocol: stream {stream!r} cut at {cuts} delivers {got!r}, unsplit {whole!r}",
                    "replay": {"part": "framing", "stream": stream.hex(), "cuts": cuts, "cls": cls}})
            if len(stream) > 9000:
                continue        # oracle only: the interpreted model is quadratic in the pending length
            if len(ops) < (6000 if tier == "quick" else 60000) or len(chunks) > 3:
                ops.append("FRAME " + " ".join(hexs(c) for c in chunks))
                impl.append((got, stream))
                cases.append({"part": "framing", "stream": stream.hex(), "chunks": [c.hex() for c in chunks]})
    if driver is not None and ops:
        try:
            model = driver.run(ops)
        except Exception as exc:  # noqa: BLE001
            res.corr_diffs.append({"name": "framing-driver", "case": "driver", "model": str(exc), "impl": ""})
            model = []
        nd = 0
        for op, m, (got, stream), case in zip(ops, model, impl, cases):
            f = dict(x.split("=", 1) for x in m.split(" "))
            def unhex(w):
                return b"" if w == "e" else bytes.fromhex(w)
            def packets(w):
                return [] if w == "-" else [unhex(x) for x in w.split("|")]
            mlines = [p.decode("utf-8", "replace") for p in packets(f["lines"])]
            mbuf = unhex(f["buf"])
            slines = [p.decode("utf-8", "replace") for p in packets(f["seg"])]
            if (mlines, mbuf) != got or (slines, unhex(f["tail"])) != got:
                nd += 1
                if nd <= 5:
                    res.corr_diffs.append({"name": "framing", "case": case, "model": m[:300], "impl": repr(got)[:300]})
        res.traces_validated += len(model)
    res.sample({"framing": {"stream": streams[7].hex(), "cut": "every position"}, "impl": repr(real_feed("base", [streams[7]]))[:160]})


# ------------------------------------------------------------------------------------------
# part 1b: connection events between the chunks (one protocol object serves every connection)
# ------------------------------------------------------------------------------------------

class _FakeConn:
    """what connection_made / connection_lost touch of a pyserial / asyncio transport"""

    def __init__(self):
        self.serial = self
        self.closed = False

    def close(self):
        self.closed = True

    def write(self, data):
        pass


def real_events(cls_name, evs):
    """evs: list of ("D", bytes) | ("L", with_error) | ("M",).  Returns (lines, buffer, notes)."""
    proto, lines = make_protocol(cls_name)
    proto.gateway.cancel_check_conn = None
    notes = []
    for ev in evs:
        before = len(lines)
        try:
            if ev[0] == "D":
                proto.data_received(ev[1])
                continue
            if ev[0] == "L":
                proto.connection_lost(OSError("link down") if ev[1] else None)
            else:
                proto.connection_made(_FakeConn())
        except Exception as exc:  # noqa: BLE001
            notes.append(f"{ev[0]} raised {type(exc).__name__}: {exc}")
        if len(lines) != before:
            notes.append(f"{ev[0]} delivered {lines[before:]!r}")
    out = [a[0] if n == "logic" and len(a) == 1 else ("?", n, a) for n, a in lines]
    return out, bytes(proto.buffer), notes


class _Shim:
    def __init__(self, **kw):
        self.__dict__.update(kw)


GW_KINDS = ["serial", "tcp", "aserial", "atcp"]


def with_real_connections(kind, nconn, drive):
    """Call the REAL connect function of a gateway class once per connection on fake devices that only record
    the protocol factory they are given, then run `drive(gateway, lines, factories)` with the fakes still in
    place (a lost connection makes the real code connect again: that must reach the fakes too, and for the
    asyncio classes it needs the running loop)."""
    import socket as real_socket
    import mysensors.gateway_serial as gs
    import mysensors.gateway_tcp as gt
    captured = []

    class FakeReader:                         # stands in for serial.threaded.ReaderThread / TCPTransport
        def __init__(self, _dev, factory, *_a):
            captured.append(factory)
            self.daemon = True

        def start(self):
            pass

        def connect(self):
            pass

    lines = []

    def add_job(func, *args):
        lines.append((getattr(func, "__name__", "?"), args))

    if kind == "serial":
        gw = gs.SerialGateway("/dev/ttyFAKE", protocol_version="2.2")
        gw.tasks.add_job = add_job
        old = gs.serial
        gs.serial = _Shim(serial_for_url=lambda *a, **k: object(), SerialException=old.SerialException,
                          threaded=_Shim(ReaderThread=FakeReader), tools=old.tools)
        try:
            for _ in range(nconn):
                gs.sync_connect(gw.tasks.transport)
            return drive(gw, lines, captured[:nconn])
        finally:
            gw.tasks.transport.protocol = None          # ends any connect loop the run left behind
            _join_connect_threads()
            gs.serial = old
    if kind == "tcp":
        gw = gt.TCPGateway("127.0.0.1", protocol_version="2.2")
        gw.tasks.add_job = add_job
        old_sock, old_tr = gt.socket, gt.TCPTransport
        gt.socket = _Shim(create_connection=lambda *a, **k: object(), timeout=real_socket.timeout)
        gt.TCPTransport = FakeReader
        try:
            for _ in range(nconn):
                gt.sync_connect(gw.tasks.transport)
            return drive(gw, lines, captured[:nconn])
        finally:
            gw.tasks.transport.protocol = None
            _join_connect_threads()
            gt.socket, gt.TCPTransport = old_sock, old_tr

    class Loop(asyncio.SelectorEventLoop):
        async def create_connection(self, factory, *_a, **_k):
            captured.append(factory)
            return None, None

    async def create_serial_connection(_loop, factory, *_a, **_k):
        captured.append(factory)
        return None, None

    if kind == "aserial":
        gw = gs.AsyncSerialGateway("/dev/ttyFAKE", protocol_version="2.2")
        connect = gs.async_connect
    else:
        gw = gt.AsyncTCPGateway("127.0.0.1", protocol_version="2.2")
        connect = gt.async_connect
    gw.tasks.add_job = add_job

    async def go():
        for _ in range(nconn):
            await connect(gw.tasks.transport)
            if getattr(gw, "cancel_check_conn", None):
                gw.cancel_check_conn()
        try:
            return drive(gw, lines, captured[:nconn])
        finally:
            gw.tasks.transport.protocol = None
            for t in asyncio.all_tasks():
                if t is not asyncio.current_task():
                    t.cancel()
            await asyncio.sleep(0)

    old = gs.serial_asyncio
    gs.serial_asyncio = _Shim(create_serial_connection=create_serial_connection)
    loop = Loop()
    try:
        return loop.run_until_complete(go())
    finally:
        gs.serial_asyncio = old
        loop.close()


def _join_connect_threads():
    import threading
    for t in threading.enumerate():
        if t is not threading.current_thread() and not t.daemon and t.name.startswith("Thread-"):
            t.join(2.0)


def real_events_connect(kind, evs):
    """like real_events, but the protocol object of each connection is whatever the real connect function of
    the gateway class hands to that connection"""
    nconn = sum(1 for e in evs if e[0] == "M")

    def drive(gw, lines, factories):
        del lines[:]                               # version probes queued by check_connection are not lines
        notes = []
        if len(factories) != nconn:
            return [], b"", [f"{nconn} connect calls handed out {len(factories)} protocol factories"]
        proto, k = None, 0
        for ev in evs:
            before = len(lines)
            try:
                if ev[0] == "M":
                    proto = factories[k]()
                    k += 1
                    proto.connection_made(_FakeConn())
                elif ev[0] == "D":
                    proto.data_received(ev[1])
                    continue
                else:
                    proto.connection_lost(OSError("link down") if ev[1] else None)
            except Exception as exc:  # noqa: BLE001
                notes.append(f"{ev[0]} raised {type(exc).__name__}: {exc}")
            new = [x for x in lines[before:] if x[0] == "logic"]
            if new:
                notes.append(f"{ev[0]} delivered {new!r}")
        out = [a[0] for n, a in lines if n == "logic" and len(a) == 1]
        return out, (bytes(proto.buffer) if proto is not None else b""), notes

    return with_real_connections(kind, nconn, drive)


def gen_events(rng, stream):
    """cut the stream into 1..4 connections, each into 1..3 chunks; the link goes down with or without an error"""
    n = len(stream)
    ncon = rng.randrange(1, 5)
    cuts = sorted(rng.randrange(n + 1) for _ in range(ncon - 1))
    pts = [0] + cuts + [n]
    evs = []
    for a, b in zip(pts, pts[1:]):
        evs.append(("M",))
        part = stream[a:b]
        inner = sorted(rng.randrange(len(part) + 1) for _ in range(rng.randrange(0, 3)))
        ip = [0] + inner + [len(part)]
        for c, d in zip(ip, ip[1:]):
            evs.append(("D", part[c:d]))
        evs.append(("L", rng.random() < 0.5))
    if rng.random() < 0.5:
        evs.pop()           # still connected at the end
    return evs


def ev_wire(evs):
    return " ".join(hexs(e[1]) if e[0] == "D" else e[0] for e in evs)


def ev_json(evs):
    return [[e[0], e[1].hex()] if e[0] == "D" else ([e[0], bool(e[1])] if e[0] == "L" else [e[0]]) for e in evs]


def ev_from_json(js):
    return [("D", bytes.fromhex(e[1])) if e[0] == "D" else (("L", e[1]) if e[0] == "L" else ("M",)) for e in js]


def spec_events(evs):
    """the two policies a protocol class may follow: keep the unterminated tail of a lost connection
    (the code as it is) or drop it; both deliver complete newline-terminated lines only"""
    keep = spec_feed(b"".join(e[1] for e in evs if e[0] == "D"))
    lines, buf = [], b""
    for e in evs:
        if e[0] == "D":
            got, buf = spec_feed(buf + e[1])
            lines += got
        elif e[0] == "L":
            buf = b""
    return keep, (lines, buf)


def judge_events(res, cls, evs, policies):
    got_lines, got_buf, notes = (real_events_connect if cls in GW_KINDS else real_events)(cls, evs)
    keep, drop = spec_events(evs)
    got = (got_lines, got_buf)
    verdict = None
    if notes:
        verdict = "a connection event " + "; ".join(notes)[:200]
    elif got != keep and got != drop:
        verdict = (f"delivered {got!r}; the complete lines are {keep!r} (tail kept across the reconnect) "
                   f"or {drop!r} (tail dropped)")
    elif keep != drop:
        policies.setdefault(cls, set()).add("keep" if got == keep else "drop")
    if verdict:
        res.oracle_failures.append({"key": {"kind": "connection-events", "cls": cls},
                                    "what": f"{cls} protocol, events {ev_json(evs)!r}: {verdict}",
                                    "replay": {"part": "events", "cls": cls, "events": ev_json(evs)}})
    return got


def part_events(res, rng, driver, tier):
    classes = ["base", "async", "asynctcp"]
    policies = {}
    streams = [b"12;6;1;0;0;3" + b"0;255;3;0;14;Gateway startup complete.\n", b"a\nb", b"\n", b"", b"x\r\ny\n\xc3\xbc"]
    streams += [gen_stream(rng, rng.randrange(1, 7)) for _ in range(150 if tier == "quick" else 2000)]
    fixed = [[("M",), ("D", b"12;6;1;0;0;3"), ("L", True), ("M",), ("D", b"0;255;3;0;14;ready\n")],
             [("M",), ("D", b"1;2;1;0;2;1\n"), ("L", False), ("M",), ("L", True), ("M",), ("D", b"tail"), ("L", False)],
             [("M",), ("D", b"\xc3"), ("L", False), ("M",), ("D", b"\xbc\n")]]
    ops, impl, cases = [], [], []
    k = 0
    todo = [(None, evs) for evs in fixed + [gen_events(rng, s) for s in streams for _ in range(2)]]
    # the same kind of history with the protocol object each connection really gets: the real connect
    # function of each gateway class is called once per connection on recording fake devices
    todo += [(kind, evs) for kind in GW_KINDS for evs in fixed + [gen_events(rng, s) for s in streams[:40 if tier == "quick" else 400]]
             if evs and evs[0][0] == "M"]
    for kind, evs in todo:
        cls = kind or classes[k % 3]
        k += 1
        got = judge_events(res, cls, evs, policies)
        res.evaluations += 1
        res.count("events:" + cls)
        if got[0]:
            res.distinct.add(digest(("ev", ev_wire(evs))))
        ops.append("EVENTS " + ev_wire(evs))
        impl.append(got)
        cases.append({"part": "events", "cls": cls, "events": ev_json(evs)})
    for cls, seen in policies.items():
        res.count(f"events-policy:{cls}:" + "+".join(sorted(seen)))
        if len(seen) > 1:
            res.oracle_failures.append({"key": {"kind": "connection-events-mixed", "cls": cls},
                                        "what": f"{cls} protocol keeps the tail of a lost connection in some histories and drops it in others",
                                        "replay": {"part": "events", "cls": cls, "events": cases[0]["events"]}})
    if driver is not None and ops:
        try:
            model = driver.run(ops)
        except Exception as exc:  # noqa: BLE001
            res.corr_diffs.append({"name": "events-driver", "case": "driver", "model": str(exc), "impl": ""})
            model = []
        nd = 0
        for m, got, case in zip(model, impl, cases):
            f = dict(x.split("=", 1) for x in m.split(" "))

            def unhex(w):
                return b"" if w == "e" else bytes.fromhex(w)

            def lines(w):
                return [] if w == "-" else [unhex(x).decode("utf-8", "replace") for x in w.split("|")]
            mk = (lines(f["klines"]), unhex(f["kbuf"]))
            md = (lines(f["dlines"]), unhex(f["dbuf"]))
            evs = ev_from_json(case["events"])
            keep, drop = spec_events(evs)
            # the model's two policies against the independent spec, and the code against the model
            if (mk, md) != (keep, drop) or got not in (mk, md):
                nd += 1
                if nd <= 5:
                    res.corr_diffs.append({"name": "events", "case": case, "model": m[:300], "impl": repr(got)[:300]})
        res.traces_validated += len(model)


class FakeTime:
    """stands in for the `time` module inside mysensors modules while the harness drives them"""

    def __init__(self):
        self.sleeps = 0

    def sleep(self, secs):
        self.sleeps += 1

    def time(self):
        return time.time()


def part_tcp_reader(res, rng, tier, driver=None):
    """The real TCPTransport.run loop on a socketpair: whatever pieces recv(120) returns, the lines
    delivered are those of the stream."""
    import mysensors.gateway_tcp as gtcp
    n = 6 if tier == "quick" else 40
    streams = [gen_stream(rng, rng.randrange(5, 70)) for _ in range(n)]
    # bursts whose last recv(120) piece is the line terminator alone, or a lone CR / LF pair split over two pieces
    frame = b"1;255;0;0;17;2.2\n2;255;0;0;17;2.2\n"
    for k in (1, 2, 5):
        body = frame * 3
        fill = (120 * k + 1 - len(body) - 1) % 120
        streams.append(body + b"x" * fill + b"\n" + b"" if (len(body) + fill + 1) % 120 == 1 else body)
        streams.append(body + b"y" * ((120 * k - len(body) - 1) % 120) + b"\r\n" + frame)
    ops, impl = [], []
    for stream in streams:
        proto, lines = make_protocol("base")
        a, b_real = socket.socketpair()
        total = len(stream)
        state = {"done": False}
        reads = []                  # what each loop iteration got from the socket: bytes, or None (not readable)

        class RecSock:
            """the reader's socket, recording every recv result"""

            def recv(self, n):
                data = b_real.recv(n)
                reads.append(data)
                return data

            def __getattr__(self, name):
                return getattr(b_real, name)
        b = RecSock()

        def check_conn():
            # the watchdog hook of the reader loop: used here to end the loop once the whole
            # stream has been handed to the protocol (or the loop has idled on the drained socket)
            state["spins"] = state.get("spins", 0) + 1
            if state.get("nreads") == len(reads):
                reads.append(None)
            state["nreads"] = len(reads)
            # the peer writes its next piece during every other iteration, so the loop also sees iterations with
            # nothing to read; once everything is written the peer shuts its side down (reads then return b"")
            pending = state.get("pending")
            if pending and state["spins"] % 2 == 0:
                a.sendall(pending.pop(0))
                if not pending:
                    a.shutdown(socket.SHUT_WR)
            if state["done"]:
                state["after"] = state.get("after", 0) + 1
            if state.get("after", 0) > 2 or state["spins"] > 2 * state.get("npieces", 0) + 40:
                raise OSError("stop reader")
        orig_time = gtcp.time
        gtcp.time = FakeTime()
        try:
            tr = gtcp.TCPTransport(b, lambda: proto, check_conn)
            pieces = []
            pos = 0
            while pos < total:
                k = rng.choice([1, 2, 7, 60, 119, 120, 121, 250])
                pieces.append(stream[pos:pos + k])
                pos += k
            sizes = []
            # the first half is on the socket before the loop starts, the rest arrives while it runs
            state["npieces"] = len(pieces)
            for p in pieces[:len(pieces) // 2]:
                a.sendall(p)
            state["pending"] = pieces[len(pieces) // 2:]
            if not state["pending"]:
                a.shutdown(socket.SHUT_WR)
            recvd = {"n": 0}
            real_dr = proto.data_received

            def counting_dr(data):
                sizes.append(len(data))
                recvd["n"] += len(data)
                real_dr(data)
                if recvd["n"] >= total:
                    state["done"] = True
            proto.data_received = counting_dr
            # the residue is what the buffer holds when the reader loop ends; what connection_lost does with it
            # afterwards (keep it, as now, or empty it) is the subject of part_events, not of this comparison
            tail = {}
            real_cl = proto.connection_lost

            def snapshot_cl(exc):
                tail.setdefault("buf", bytes(proto.buffer))
                return real_cl(exc)
            proto.connection_lost = snapshot_cl
            if total == 0:
                state["done"] = True
            tr.alive = True
            # connection_made would log transport.serial; the protocol tolerates a plain transport
            proto.gateway.on_conn_made = None
            proto.gateway.on_conn_lost = None
            try:
                tr.run()
            except Exception as exc:  # noqa: BLE001
                # connection_lost logs transport.serial, which a TCP transport has not: after the loop
                if not isinstance(exc, AttributeError):
                    raise
        finally:
            gtcp.time = orig_time
            a.close()
            b_real.close()
        got = ([args[0] for _, args in lines], tail.get("buf", bytes(proto.buffer)))
        res.count("tcp-reader-empty-reads", sum(1 for r in reads if r == b""))
        res.count("tcp-reader-idle-iterations", sum(1 for r in reads if r is None))
        ops.append("TCPREAD " + " ".join("N" if r is None else hexs(r) for r in reads))
        impl.append((got, stream))
        want = spec_feed(stream)
        res.evaluations += 1
        res.count("tcp-reader-streams")
        res.count("tcp-reader-recv-calls", len(sizes))
        if sizes and max(sizes) > 120:
            res.oracle_failures.append({"key": {"kind": "tcp-reader-chunk-size"}, "what": f"recv returned {max(sizes)} bytes",
                                        "replay": {"part": "tcp", "stream": stream.hex()}})
        if got != want:
            res.oracle_failures.append({"key": {"kind": "tcp-reader-lines-differ"},
                                        "what": f"TCP reader delivered {got!r} for a stream whose segments are {want!r} "
                                                f"(recv sizes {sizes})",
                                        "replay": {"part": "tcp", "stream": stream.hex()}})

    if driver is not None and ops:
        try:
            model = driver.run(ops)
        except Exception as exc:  # noqa: BLE001
            res.corr_diffs.append({"name": "tcp-reader-driver", "case": "driver", "model": str(exc), "impl": ""})
            model = []
        nd = 0
        for op, m, (got, stream) in zip(ops, model, impl):
            f = dict(x.split("=", 1) for x in m.split(" "))
            mbuf = b"" if f["buf"] == "e" else bytes.fromhex(f["buf"])
            mlines = [] if f["lines"] == "-" else [bytes.fromhex(x).decode("utf-8", "replace") if x != "e" else ""
                                                    for x in f["lines"].split("|")]
            if (mlines, mbuf) != got:
                nd += 1
                if nd <= 5:
                    res.corr_diffs.append({"name": "tcp-reader", "case": {"part": "tcp", "stream": stream.hex(), "reads": op[:400]},
                                           "model": m[:300], "impl": repr(got)[:300]})
        res.traces_validated += len(model)

def part_serial_reader(res, rng, tier, driver=None):
    """pyserial's real ReaderThread.run (the reader of the threaded serial gateway) on a scripted port: reads of
    any size and timed-out reads (b"").  Same loop shape as the TCP reader, same model (`tcpReader`)."""
    import serial.threaded
    n = 12 if tier == "quick" else 120
    ops, impl = [], []
    for _ in range(n):
        stream = gen_stream(rng, rng.randrange(1, 30))
        script, pos = [], 0
        while pos < len(stream):
            if rng.random() < 0.25:
                script.append(b"")                      # read timed out
                continue
            k = rng.choice([1, 1, 2, 3, 7, 16, 64, 200])
            script.append(stream[pos:pos + k])
            pos += k
        script.append(b"")

        class Port:
            """what ReaderThread.run uses of a serial port"""

            def __init__(self):
                self.left = list(script)
                self.reads = []

            @property
            def is_open(self):
                return bool(self.left)

            @property
            def in_waiting(self):
                return len(self.left[0]) if self.left else 0

            def read(self, size=1):
                data = self.left.pop(0) if self.left else b""
                if len(data) > size:                    # never more than asked for
                    self.left.insert(0, data[size:])
                    data = data[:size]
                self.reads.append(data)
                return data

            def cancel_read(self):
                pass

            def close(self):
                self.left = []

        proto, lines = make_protocol("base")
        proto.gateway.on_conn_made = None
        proto.gateway.on_conn_lost = None
        port = Port()
        tail = {}
        real_cl = proto.connection_lost

        def snapshot_cl(exc, proto=proto, tail=tail, real_cl=real_cl):
            tail.setdefault("buf", bytes(proto.buffer))
            return real_cl(exc)
        proto.connection_lost = snapshot_cl
        reader = serial.threaded.ReaderThread(port, lambda proto=proto: proto)
        reader.run()
        got = ([a[0] if nme == "logic" and len(a) == 1 else ("?", nme, a) for nme, a in lines],
               tail.get("buf", bytes(proto.buffer)))
        want = spec_feed(stream)
        res.evaluations += 1
        res.count("serial-reader-streams")
        res.count("serial-reader-timed-out-reads", sum(1 for r in port.reads if r == b""))
        if got[0]:
            res.distinct.add(digest(("serial", stream, tuple(len(r) for r in port.reads))))
        if got != want:
            res.oracle_failures.append({"key": {"kind": "serial-reader-lines-differ"},
                                        "what": f"serial reader delivered {got!r} for a stream whose segments are {want!r} "
                                                f"(read sizes {[len(r) for r in port.reads]})",
                                        "replay": {"part": "serial", "stream": stream.hex(),
                                                   "reads": [r.hex() for r in port.reads]}})
        ops.append("TCPREAD " + " ".join(hexs(r) for r in port.reads))
        impl.append((got, stream))
    if driver is not None and ops:
        try:
            model = driver.run(ops)
        except Exception as exc:  # noqa: BLE001
            res.corr_diffs.append({"name": "serial-reader-driver", "case": "driver", "model": str(exc), "impl": ""})
            model = []
        nd = 0
        for op, m, (got, stream) in zip(ops, model, impl):
            f = dict(x.split("=", 1) for x in m.split(" "))
            mbuf = b"" if f["buf"] == "e" else bytes.fromhex(f["buf"])
            mlines = [] if f["lines"] == "-" else [bytes.fromhex(x).decode("utf-8", "replace") if x != "e" else ""
                                                    for x in f["lines"].split("|")]
            if (mlines, mbuf) != got:
                nd += 1
                if nd <= 5:
                    res.corr_diffs.append({"name": "serial-reader", "case": {"part": "serial", "stream": stream.hex(), "reads": op[:400]},
                                           "model": m[:300], "impl": repr(got)[:300]})
        res.traces_validated += len(model)


# ------------------------------------------------------------------------------------------
# part 2: pump flavours
# ------------------------------------------------------------------------------------------

class OneShot:
    """stop event that lets exactly one iteration of the real _poll_queue loop run"""

    def __init__(self):
        self.n = 0

    def is_set(self):
        self.n += 1
        return self.n > 1

    def set(self):
        pass


class SyncRunner:
    """The real BaseSyncGateway with the poll thread replaced by scripted single iterations of
    the real `_poll_queue` loop body."""

    def __init__(self, version):
        import mysensors
        import mysensors.task as task
        self.task = task
        self.transport = G.FakeTransport()
        self.gw = mysensors.BaseSyncGateway(self.transport, protocol_version=version)
        self.clock = 0
        self.tags = {}            # id(job tuple) -> origin tag
        self.emitted = []         # (text, tag)
        self.excs = []
        self.ctl_excs = []      # raised to the caller of set_child_value (expected API behaviour)
        self.arrived = 0
        self.ctl_count = 0

    def _patched(self, fn, where="job"):
        import mysensors.handler as handler
        orig_lt = handler.time.localtime
        orig_time = self.task.time
        handler.time.localtime = lambda *a: time.gmtime(self.clock)
        self.task.time = FakeTime()
        try:
            return fn()
        except Exception as exc:  # noqa: BLE001
            (self.excs if where == "job" else self.ctl_excs).append(G.exc_kind(exc))
            return None
        finally:
            handler.time.localtime = orig_lt
            self.task.time = orig_time

    def _tag_new(self, before, tag):
        q = self.gw.tasks.queue
        for i in range(before, len(q)):
            self.tags[id(q[i])] = tag

    def arrive(self, line):
        before = len(self.gw.tasks.queue)
        from mysensors.transport import BaseMySensorsProtocol
        if not hasattr(self, "proto"):
            self.proto = BaseMySensorsProtocol(self.gw, lambda: None)
        self.proto.handle_line(line)           # → tasks.add_job(gateway.logic, line)
        self._tag_new(before, ("line", self.arrived))
        self.arrived += 1

    def pump(self):
        tasks = self.gw.tasks
        if not tasks.queue:
            self._patched(lambda: self._one_iteration())
            return
        job = tasks.queue[0]
        tag = self.tags.pop(id(job), ("?",))
        qlen = len(tasks.queue) - 1
        nlog = len(self.transport.log)
        self._patched(lambda: self._one_iteration())
        # whatever the job added is behind what was waiting
        new = len(tasks.queue) - qlen
        if new > 0:
            origin = tag[1] if tag[0] == "line" else tag
            self._tag_new(len(tasks.queue) - new, ("nested", origin))
        for text in self.transport.log[nlog:]:
            self.emitted.append((text, ("reply", tag[1]) if tag[0] == "line" else tag))

    def _one_iteration(self):
        self.gw.tasks._stop_event = OneShot()
        self.gw.tasks._poll_queue()

    def drain(self):
        n = 0
        while self.gw.tasks.queue and n < 100000:
            self.pump()
            n += 1

    def ctl(self, op):
        """a controller call on the threaded gateway: runs now, what it sends is add_job-ed"""
        before = len(self.gw.tasks.queue)
        kind = op[0]

        def go():
            if kind == "S":
                _, node, child, vtype, value, ack = op
                if ack is None:
                    self.gw.set_child_value(node, child, vtype, value)
                else:
                    self.gw.set_child_value(node, child, vtype, value, ack=ack)
            elif kind == "U":
                _, nids, fwt, fwv, image = op
                G.real_update_fw(self.gw, list(nids), fwt, fwv, image)
            elif kind == "F":
                _, nids, fwt, fwv, text = op
                G.real_update_file(self.gw, list(nids), fwt, fwv, text)
            elif kind == "T":
                self.clock = op[1]
            elif kind == "M":
                self.gw.metric = bool(op[1])
        self._patched(go, where="ctl")
        self._tag_new(before, ("ctl", self.ctl_count))
        self.ctl_count += 1

    def state(self):
        return G.project_sensors(self.gw.sensors) + " ota=" + G.project_ota(self.gw.tasks.ota)


def make_schedule(rng, hist, mode):
    """tokens: ("A", line) ("P",) ("D",) ("O", op).  Controller ops happen at a drained queue."""
    toks = []
    for op in hist:
        if op[0] == "L":
            toks.append(("A", op[1]))
            if mode == "drained":
                toks.append(("D",))
            elif mode == "burst":
                pass
            else:
                r = rng.random()
                if r < 0.35:
                    toks += [("P",)] * rng.randrange(1, 4)
                elif r < 0.5:
                    toks.append(("D",))
        elif op[0] in ("S", "U", "F", "T", "M"):
            toks.append(("D",))
            toks.append(("O", op))
            toks.append(("D",))
    toks.append(("D",))
    return toks


def run_sync(version, toks):
    r = SyncRunner(version)
    for t in toks:
        if t[0] == "A":
            r.arrive(t[1])
        elif t[0] == "P":
            r.pump()
        elif t[0] == "D":
            r.drain()
        elif t[0] == "O":
            r.ctl(t[1])
    return r


def run_async(version, toks):
    """The real asyncio-flavour gateway on the same lines and controller calls, in order."""
    rg = G.RealGW(version, "base", "none")
    emitted = []      # (text, origin)
    excs = []
    li = 0
    ci = 0
    for t in toks:
        if t[0] == "A":
            o = rg.apply(("L", t[1]))
            emitted += [(x, ("line", li)) for x in o.sent]
            li += 1
        elif t[0] == "O":
            o = rg.apply(t[1])
            emitted += [(x, ("ctl", ci)) for x in o.sent]
            ci += 1
        else:
            continue
        if o.exc and t[0] == "A":
            excs.append(o.exc)
    state = G.project_sensors(rg.gw.sensors) + " ota=" + G.project_ota(rg.gw.tasks.ota)
    return emitted, state, excs


def classify(sync_em, async_em):
    """None when equal; else the structural kind of the difference."""
    s_texts = [x for x, _ in sync_em]
    a_texts = [x for x, _ in async_em]
    if s_texts == a_texts:
        return None
    if sorted(s_texts) != sorted(a_texts):
        return "different-texts"
    # per origin (line i / controller call j) the outputs must be the same sequence
    def by_origin(em, norm):
        d = {}
        for x, tag in em:
            d.setdefault(norm(tag), []).append(x)
        return d
    def norm_sync(tag):
        if tag[0] in ("reply", "nested"):
            o = tag[1]
            return ("line", o) if not isinstance(o, tuple) else o
        return tag
    if by_origin(sync_em, norm_sync) != by_origin(async_em, lambda t: t):
        return "per-line-output-differs"
    # replies in arrival order, nested texts in arrival order
    replies = [tag[1] for _, tag in sync_em if tag[0] == "reply"]
    nested = [tag[1] for _, tag in sync_em if tag[0] == "nested" and not isinstance(tag[1], tuple)]
    if replies != sorted(replies) or nested != sorted(nested):
        return "order-within-kind-differs"
    # the D12 shape: a text queued by line i is sent after the reply to a later line j > i
    seen_reply = -1
    for _, tag in sync_em:
        if tag[0] == "reply":
            seen_reply = max(seen_reply, tag[1])
        elif tag[0] == "nested" and not isinstance(tag[1], tuple) and tag[1] < seen_reply:
            return "sync-nested-jobs-after-queued-lines"
    return "other-reordering"


def tok_wire(toks, flavour):
    out = []
    for t in toks:
        if t[0] == "A":
            out.append(("A:" if flavour == "sync" else "I:") + enc_str(t[1]))
        elif t[0] in ("P", "D"):
            if flavour == "sync":
                out.append(t[0])
        else:
            out.append("O:" + G.op_wire(t[1]).replace(" ", ":"))
            if flavour == "async":
                out.append("D")     # the asyncio flavour sends a controller command at once
    return " ".join(out)


def toks_json(toks):
    out = []
    for t in toks:
        if t[0] == "O":
            op = t[1]
            out.append(["O"] + [x.hex() if isinstance(x, bytes) else (list(x) if isinstance(x, (list, tuple)) else x)
                                for x in op])
        else:
            out.append(list(t))
    return out


def toks_from_json(js):
    toks = []
    for t in js:
        if t[0] == "O":
            op = list(t[1:])
            if op[0] == "U":
                op[1] = list(op[1])
                op[4] = None if op[4] is None else bytes.fromhex(op[4])
            toks.append(("O", tuple(op)))
        else:
            toks.append(tuple(t))
    return toks


D12_CORPUS = [
    ("2.2", [("A", "5;1;1;0;2;1\n"), ("A", "255;255;3;0;3;\n"), ("D",)]),
    ("2.2", [("A", "1;255;0;0;17;2.2\n"), ("A", "1;1;0;0;3;\n"), ("A", "1;1;1;0;2;1\n"), ("D",),
             ("A", "1;255;3;0;32;500\n"), ("D",), ("A", "1;1;2;0;2;\n"), ("D",),
             ("A", "1;255;3;0;32;500\n"), ("A", "255;255;3;0;3;\n"), ("D",)]),
    ("2.0", [("A", "1;255;0;0;17;2.0\n"), ("A", "1;1;0;0;3;\n"), ("A", "1;1;1;0;2;1\n"), ("D",),
             ("A", "1;255;3;0;22;10\n"), ("D",), ("O", ("S", 1, 1, 2, "0", None)), ("D",),
             ("A", "1;255;3;0;22;11\n"), ("A", "255;255;3;0;3;\n"), ("D",)]),
]


def judge_flavours(res, version, toks, label):
    sync = run_sync(version, toks)
    a_em, a_state, a_excs = run_async(version, toks)
    replay = {"part": "flavours", "version": version, "tokens": toks_json(toks)}
    res.evaluations += 1
    if sync.excs or a_excs:
        res.count("flavours:exception-in-job (C01's business)")
    if sync.state() != a_state:
        res.oracle_failures.append({"key": {"kind": "flavour-state-differs"},
                                    "what": "threaded and asyncio gateways end in different states on the same lines",
                                    "replay": replay})
    kind = classify(sync.emitted, a_em)
    res.count("flavours:" + label + ":" + (kind or "same"))
    if kind == "sync-nested-jobs-after-queued-lines":
        res.oracle_failures.append({
            "key": {"kind": "sync-nested-jobs-after-queued-lines"},
            "what": "threaded pump sends the jobs added by a job (wake-up flush, presentation request) after the "
                    "replies to lines that were already queued; the asyncio pump sends them before",
            "replay": replay})
    elif kind is not None:
        res.oracle_failures.append({"key": {"kind": "flavour-output-differs", "detail": kind, "schedule": label},
                                    "what": f"threaded and asyncio gateways send different sequences ({kind})",
                                    "replay": replay})
    if sync.emitted:
        res.distinct.add(digest([x for x, _ in sync.emitted]))
    return sync, a_em, a_state


def part_flavours(res, rng, driver, tier):
    nh = (45 if tier == "quick" else 700) * common.effort(tier)
    ops, impl, cases = [], [], []

    def add_model(version, toks, sync, a_em, a_state):
        ops.append(f"PUMP {version} base none " + tok_wire(toks, "sync"))
        em = "|".join(enc_str(x) for x, _ in sync.emitted) or "-"
        impl.append(f"em={em} q={len(sync.gw.tasks.queue)} st={sync.state().replace(' ota=', ' ota=', 1)}")
        cases.append({"part": "flavours", "flavour": "sync", "version": version, "tokens": toks_json(toks)})
        ops.append(f"PUMP {version} base none " + tok_wire(toks, "async"))
        em = "|".join(enc_str(x) for x, _ in a_em) or "-"
        impl.append(f"em={em} q=0 st={a_state}")
        cases.append({"part": "flavours", "flavour": "async", "version": version, "tokens": toks_json(toks)})

    for version, toks in D12_CORPUS:
        sync, a_em, a_state = judge_flavours(res, version, toks, "corpus")
        add_model(version, toks, sync, a_em, a_state)
    for h in range(nh):
        version = rng.choice(["2.0", "2.1", "2.2", "2.2", "2.0", "1.5", "1.4"])
        hist = G.gen_history(rng, version, rng.choice([20, 40, 60]), persist=False, ota=h % 4 == 0, sleep=True,
                             malformed=0.12)
        for mode in ("random", "burst", "drained"):
            toks = make_schedule(rng, hist, mode)
            sync, a_em, a_state = judge_flavours(res, version, toks, mode)
            if mode != "burst" or h % 3 == 0:
                add_model(version, toks, sync, a_em, a_state)
    # long backlogs: hundreds of lines queued before the threaded pump runs at all (a slow callback, a
    # backlog right after connecting) — nothing may be lost or reordered, whatever the backlog's length
    for k, length in enumerate([130, 260, 520] if tier == "quick" else [130, 260, 520, 1100, 2300]):
        version = ["2.2", "2.0", "1.5"][k % 3]
        hist = G.gen_history(rng, version, length, persist=False, ota=False, sleep=True, malformed=0.05,
                             bias={"ctl_set": 0, "update": 0, "clock": 0, "metric": 0, "save": 0, "restart": 0})
        hist = [op for op in hist if op[0] == "L"]
        judge_flavours(res, version, make_schedule(rng, hist, "burst"), "backlog")
    if driver is not None:
        try:
            model = driver.run(ops)
        except Exception as exc:  # noqa: BLE001
            res.corr_diffs.append({"name": "pump-driver", "case": "driver", "model": str(exc), "impl": ""})
            model = []
        nd = 0
        for m, b, c in zip(model, impl, cases):
            if m != b:
                nd += 1
                if nd <= 5:
                    res.corr_diffs.append({"name": "pump-" + c["flavour"], "case": c, "model": m[:400], "impl": b[:400]})
        res.traces_validated += len(model)
    res.sample({"flavours": "fresh 2.2 gateway; '5;1;1;0;2;1' and '255;255;3;0;3;' queued, then pumped",
                "impl": "sync: id response, presentation request; async: presentation request, id response"})


# ------------------------------------------------------------------------------------------
# part 3: bytes in, behaviour out
# ------------------------------------------------------------------------------------------

def end_to_end(version, chunks, cls_name):
    from mysensors import BaseAsyncGateway
    from mysensors.transport import BaseMySensorsProtocol, AsyncMySensorsProtocol
    import mysensors.handler as handler
    # the real asyncio serial gateway with its real transport object; a protocol object of the wanted class is
    # put in the place of the transport's own and given a recording connection
    import mysensors.gateway_serial as gs
    gw = gs.AsyncSerialGateway("/dev/ttyFAKE", protocol_version=version)
    cls = BaseMySensorsProtocol if cls_name == "base" else AsyncMySensorsProtocol
    proto = cls(gw, lambda: None)
    conn = _Writer()
    proto.transport = conn
    gw.tasks.transport.protocol = proto
    orig = handler.time.localtime
    handler.time.localtime = lambda *a: time.gmtime(0)
    exc = None
    try:
        for c in chunks:
            try:
                proto.data_received(c)
            except Exception as e:  # noqa: BLE001
                exc = G.exc_kind(e)
                break
    finally:
        handler.time.localtime = orig
    end_to_end.last_ota = G.project_ota(gw.tasks.ota)
    return G.project_sensors(gw.sensors), [w.decode("utf-8", "surrogatepass") for w in conn.writes], bytes(proto.buffer), exc


def part_end_to_end(res, rng, tier, driver=None):
    n = (50 if tier == "quick" else 500) * common.effort(tier)
    ops, impl, cases = [], [], []
    for i in range(n):
        version = rng.choice(["1.4", "2.0", "2.2", "2.1"])
        hist = G.gen_history(rng, version, 30, persist=False, ota=False, sleep=True, malformed=0.2)
        data = b""
        for op in hist:
            if op[0] != "L":
                continue
            b = op[1].encode("utf-8", "surrogatepass")
            r = rng.random()
            if r < 0.3 and b.endswith(b"\n"):
                b = b[:-1] + b"\r\n"
            elif r < 0.35:
                b = b + rng.choice([b"\xff", b"\xc3", b"", b"\n"])
            data += b
        whole = end_to_end(version, [data], "base")
        nn = len(data)
        if whole[3] is None:
            # theorem state_is_function_of_lines_*: the model's inline pump on the complete lines of the stream
            lines_, _tail = spec_feed(data)
            ops.append(f"PUMP {version} base none " + " ".join("I:" + enc_str(l) for l in lines_))
            em = "|".join(enc_str(x) for x in whole[1]) or "-"
            impl.append(f"em={em} q=0 st={whole[0]} ota={end_to_end.last_ota}")
            cases.append({"part": "e2e", "version": version, "stream": data.hex(), "cuts": []})
        for k in range(3):
            if k == 0:
                chunks = [data[j:j + 1] for j in range(nn)]
            elif k == 1:
                chunks = [data[j:j + 120] for j in range(0, nn, 120)]
            else:
                cuts = sorted(rng.randrange(nn + 1) for _ in range(rng.randrange(1, 12)))
                pts = [0] + cuts + [nn]
                chunks = [data[a:b] for a, b in zip(pts, pts[1:])]
            got = end_to_end(version, chunks, "async" if k % 2 else "base")
            res.evaluations += 1
            res.count("end-to-end")
            if got != whole:
                cuts = []
                pos = 0
                for c in chunks[:-1]:
                    pos += len(c)
                    cuts.append(pos)
                what = "state" if got[0] != whole[0] else ("sent" if got[1] != whole[1] else "buffer/exception")
                res.oracle_failures.append({
                    "key": {"kind": "behaviour-depends-on-segmentation", "differs": what},
                    "what": f"the same {nn}-byte stream cut at {cuts[:8]}… gives a different {what}",
                    "replay": {"part": "e2e", "version": version, "stream": data.hex(), "cuts": cuts}})
        if whole[1]:
            res.distinct.add(digest(whole[1]))
    if driver is not None and ops:
        try:
            model = driver.run(ops)
        except Exception as exc:  # noqa: BLE001
            res.corr_diffs.append({"name": "e2e-driver", "case": "driver", "model": str(exc), "impl": ""})
            model = []
        nd = 0
        for m, b, c in zip(model, impl, cases):
            if m != b:
                nd += 1
                if nd <= 5:
                    res.corr_diffs.append({"name": "e2e-bytes-to-state", "case": c, "model": m[:400], "impl": b[:400]})
        res.traces_validated += len(model)
        res.count("end-to-end-vs-model", len(model))


# ------------------------------------------------------------------------------------------
# part 4: the two flavours on their REAL transport objects, with lines that echo the gateway's own commands
# ------------------------------------------------------------------------------------------

class _Writer:
    """the connection object a real Transport.send writes to"""

    def __init__(self):
        self.writes = []
        self.serial = self

    def write(self, data):
        self.writes.append(bytes(data))

    def close(self):
        pass


def run_on_real_transport(flavour, version, chunks):
    """SerialGateway / AsyncSerialGateway with their own SyncTransport / AsyncTransport and protocol object, a
    recording connection attached; the threaded pump is the real _poll_queue, one iteration at a time.
    flavour: 'async' | 'sync-burst' (pump after everything arrived) | 'sync-drained' (pump after every chunk)"""
    import mysensors.gateway_serial as gs
    import mysensors.handler as handler
    import mysensors.task as task
    gw = (gs.AsyncSerialGateway if flavour == "async" else gs.SerialGateway)("/dev/ttyFAKE", protocol_version=version)
    conn = _Writer()
    proto = gw.tasks.transport.protocol
    proto.transport = conn
    excs = []
    marks = []

    def drain():
        n = 0
        while gw.tasks.queue and n < 100000:
            gw.tasks._stop_event = OneShot()
            gw.tasks._poll_queue()
            n += 1
    orig_lt, orig_time = handler.time.localtime, task.time
    handler.time.localtime = lambda *a: time.gmtime(0)
    task.time = FakeTime()
    try:
        for c in chunks:
            try:
                proto.data_received(c)
                if flavour == "sync-drained":
                    drain()
            except Exception as exc:  # noqa: BLE001
                excs.append(G.exc_kind(exc))
            marks.append(len(conn.writes))
        if flavour != "async":
            try:
                drain()
            except Exception as exc:  # noqa: BLE001
                excs.append(G.exc_kind(exc))
    finally:
        handler.time.localtime, task.time = orig_lt, orig_time
    return G.project_sensors(gw.sensors), conn.writes, marks, excs


def part_real_transports(res, rng, tier):
    """Theorems flavours_partial_state / flavours_partial_output: same state, same commands as a multiset.  The
    streams are generated histories into which lines are woven that repeat, character for character, a command
    the gateway has just sent (what a half-duplex adapter echoes, or a node parroting its controller)."""
    n = (25 if tier == "quick" else 250) * common.effort(tier)
    for i in range(n):
        version = rng.choice(["2.2", "2.0", "2.1", "1.5", "1.4"])
        hist = G.gen_history(rng, version, rng.choice([15, 30]), persist=False, ota=False, sleep=True, malformed=0.1)
        lines = [op[1].encode("utf-8", "replace") for op in hist if op[0] == "L"]
        lines = [l if l.endswith(b"\n") else l + b"\n" for l in lines]
        # reference run, line by line, to learn what each line makes the gateway send
        _st, writes, marks, _ex = run_on_real_transport("async", version, lines)
        stream_lines, prev = [], 0
        for l, m in zip(lines, marks):
            stream_lines.append(l)
            if m > prev and rng.random() < 0.4:
                stream_lines.append(rng.choice(writes[prev:m]))
            prev = m
        data = b"".join(stream_lines)
        a = run_on_real_transport("async", version, [data])
        b = run_on_real_transport("sync-burst", version, [data])
        c = run_on_real_transport("sync-drained", version, stream_lines)
        res.evaluations += 3
        res.count("real-transports")
        res.count("real-transports-echo-lines", len(stream_lines) - len(lines))
        if a[1]:
            res.distinct.add(digest(("rt", version, data)))
        for name, other in (("threaded, pumped after the whole stream", b), ("threaded, pumped after every line", c)):
            what = None
            if a[3] or other[3]:
                what = f"an exception escaped: asyncio {a[3]}, {name} {other[3]}"
            elif a[0] != other[0]:
                what = f"asyncio and {name} end in different states"
            elif sorted(a[1]) != sorted(other[1]):
                import collections
                ca, co = collections.Counter(a[1]), collections.Counter(other[1])
                what = (f"asyncio and {name} send different commands: more often by asyncio {sorted((ca - co).elements())[:4]}, "
                        f"more often by threaded {sorted((co - ca).elements())[:4]}")
            if what:
                res.oracle_failures.append({"key": {"kind": "real-transports-differ"},
                                            "what": f"version {version}, {len(stream_lines)} lines on the real transports: {what}",
                                            "replay": {"part": "rt", "version": version,
                                                       "lines": [x.hex() for x in stream_lines]}})
                break


def run(tier, seed, driver):
    res = Result()
    rng = random.Random(seed * 7919 + 19)
    def part(name, fn, *args):
        # a part that cannot run on the code as it is now is a broken obligation (reported), but it must not keep
        # the other parts from looking for a concrete failing input; each part draws from its own generator
        import traceback
        try:
            fn(res, *args)
        except Exception as exc:  # noqa: BLE001
            if name == "tcp-reader" and isinstance(exc, OSError):
                res.count("tcp-reader skipped: " + str(exc)[:60])
                return
            where = [ln.strip() for ln in traceback.format_exc().splitlines() if ln.strip()][-2][:160]
            res.corr_diffs.append({"name": "harness-part-" + name + "-cannot-run", "case": "-", "model": "",
                                   "impl": f"{type(exc).__name__}: {exc} | {where}"})
    part("framing", part_framing, rng, driver, tier)
    part("events", part_events, rng, driver, tier)
    part("tcp-reader", part_tcp_reader, rng, tier, driver)
    part("serial-reader", part_serial_reader, rng, tier, driver)
    part("flavours", part_flavours, rng, driver, tier)
    part("end-to-end", part_end_to_end, rng, tier, driver)
    part("real-transports", part_real_transports, random.Random(seed * 104729 + 7), tier)
    res.exhaustive = False
    res.rule = ("framing: byte streams built from valid frames, garbage, CRLF/LF, empty lines, multi-byte and "
                "invalid UTF-8, NUL, unterminated tails, unterminated noise of 101 … 8193 (thorough: 200001) bytes before "
                "a frame with read sizes 64 … 65536; every single cut (streams <= 40 bytes), every pair of "
                "cuts (<= 20/28 bytes), byte-by-byte, recv(120), random multi-cuts; three real protocol "
                "classes; the real TCPTransport.run loop on a socketpair (peer writing while the loop runs, then closing) and pyserial's real "
                "ReaderThread.run on a scripted port (reads of 1..200 bytes, timed-out reads), both against the model's reader loop on "
                "the recorded read results. connection events: the same streams cut into "
                "1..4 connections of 1..3 chunks each on ONE real protocol object per class (connection_lost with and "
                "without an error, connection_made), against the model's two tail policies. flavours: generated histories "
                "(versions 1.4-2.2, smart-sleep wake-ups, unknown nodes, OTA) under three pump schedules each "
                "(random interleaving, everything queued before the pump runs, drained between lines), plus backlogs of "
                "130 … 520 (thorough: 2300) lines queued before the threaded pump runs, on the "
                "real BaseSyncGateway via single iterations of the real _poll_queue loop vs the real "
                "BaseAsyncGateway; end-to-end: bytes -> state and transport log, chunked vs whole. "
                "non-trivial = at least one line delivered / one command sent")
    return res


def replay(payload):
    r = payload.get("replay", payload)
    print({k: v for k, v in payload.items() if k != "replay"})
    part = r.get("part")
    if part == "framing":
        stream = bytes.fromhex(r["stream"])
        pts = [0] + list(r.get("cuts", [])) + [len(stream)]
        chunks = [stream[a:b] for a, b in zip(pts, pts[1:])]
        got = real_feed(r.get("cls", "base"), chunks)
        whole = real_feed("base", [stream])
        print("chunked:", got)
        print("whole  :", whole)
        print("spec   :", spec_feed(stream))
        print("model  :", common.Driver().run(["FRAME " + " ".join(hexs(c) for c in chunks)]))
        return 0 if got == whole == spec_feed(stream) else 1
    if part == "events":
        evs = ev_from_json(r["events"])
        cls = r.get("cls", "base")
        got = (real_events_connect if cls in GW_KINDS else real_events)(cls, evs)
        keep, drop = spec_events(evs)
        print("real   :", got)
        print("keep   :", keep)
        print("drop   :", drop)
        print("model  :", common.Driver().run(["EVENTS " + ev_wire(evs)]))
        return 0 if not got[2] and (got[0], got[1]) in (keep, drop) else 1
    if part == "flavours":
        toks = toks_from_json(r["tokens"])
        sync = run_sync(r["version"], toks)
        a_em, a_state, _ = run_async(r["version"], toks)
        print("threaded sends:", [x for x, _ in sync.emitted])
        print("asyncio  sends:", [x for x, _ in a_em])
        print("states equal  :", sync.state() == a_state)
        kind = classify(sync.emitted, a_em)
        print("verdict       :", kind or "same")
        drv = common.Driver()
        print("model threaded:", drv.run([f"PUMP {r['version']} base none " + tok_wire(toks, "sync")])[0][:300])
        print("model asyncio :", drv.run([f"PUMP {r['version']} base none " + tok_wire(toks, "async")])[0][:300])
        return 0 if kind is None and sync.state() == a_state else 1
    if part == "e2e":
        stream = bytes.fromhex(r["stream"])
        pts = [0] + list(r["cuts"]) + [len(stream)]
        chunks = [stream[a:b] for a, b in zip(pts, pts[1:])]
        got = end_to_end(r["version"], chunks, "base")
        whole = end_to_end(r["version"], [stream], "base")
        print("equal:", got == whole)
        return 0 if got == whole else 1
    if part == "rt":
        ls = [bytes.fromhex(x) for x in r["lines"]]
        a = run_on_real_transport("async", r["version"], [b"".join(ls)])
        b = run_on_real_transport("sync-burst", r["version"], [b"".join(ls)])
        c = run_on_real_transport("sync-drained", r["version"], ls)
        for nme, x in (("asyncio", a), ("threaded burst", b), ("threaded drained", c)):
            print(nme, "state:", x[0][:300], "sent:", sorted(x[1])[:12], "exc:", x[3])
        same = all(x[0] == a[0] and sorted(x[1]) == sorted(a[1]) and not x[3] for x in (a, b, c))
        return 0 if same else 1
    if part == "serial":
        print("stream:", bytes.fromhex(r["stream"]), "reads:", [bytes.fromhex(x) for x in r["reads"]])
        print("spec  :", spec_feed(bytes.fromhex(r["stream"])))
        print("model :", common.Driver().run(["TCPREAD " + " ".join(x or "e" for x in r["reads"])]))
        print("re-run the check for the real reader loop (the script of reads is drawn from the seed)")
        return 1
    if part == "tcp":
        print("re-run the check; the TCP reader case depends on socket timing only through recv sizes")
        return 0
    return 2
