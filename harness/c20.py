"""C20 — connections are supervised and the callbacks are exact.

Real code run here, unmodified, against fake devices and a simulated clock (exact rational
seconds, so decisions at equality are exact):

  serial/TCP `sync_connect`, `TCPTransport.run`, pyserial's `ReaderThread.run`,
  `BaseMySensorsProtocol.connection_made/connection_lost`, `Transport.send/disconnect`,
  `SyncTasks.stop`                      — inline on the harness thread (thread starts are
                                          deferred and run to completion one after the other)
  serial/TCP `async_connect`, `AsyncTransport`, `AsyncMySensorsProtocol`,
  `AsyncTCPMySensorsProtocol`, `AsyncTCPGateway.check_connection`, `AsyncTasks.start/stop`
                                        — on an asyncio loop whose clock only moves when the
                                          harness says so
  `BaseTCPGateway.check_connection`, `TCPTransport.run` + `SyncTasks._poll_queue`
                                        — watchdog timing: two real threads under the
                                          deterministic scheduler with a discrete-event clock

correspondence: timed output log per event == Lean `Sup.trun` (driver `SUP`); watchdog logs ==
`Sup.syncSim` / `Sup.asyncSim` (`WDSYNC` / `WDASYNC`); `check_connection` == `Sup.check` (`WDCHECK`).
oracle: the property read directly off the real logs (alternation and counts of the callbacks,
reconnect after every loss not requested by the user, spacing of the attempts, silence after
stop(), no drop of an answered link, drop of a silent link within 2·rt + g).
"""
import asyncio
import collections
import contextlib
import itertools
import random
import socket as real_socket
import threading
import types
from fractions import Fraction

from . import common
from .common import Result, digest
from .coop import Coop, HarnessHang

THEOREMS = [
    "MySensors.C20.callbacks_exact_step", "MySensors.C20.callbacks_exact",
    "MySensors.C20.callbacks_alternate",
    "MySensors.C20.reconnect_follows_loss", "MySensors.C20.reconnect_follows_loss_unfixed_counterexample",
    "MySensors.C20.tcp_async_orderly_close_redials",
    "MySensors.C20.tcp_sync_orderly_close_unnoticed", "MySensors.C20.retry_until_success",
    "MySensors.C20.quiet_after_stop", "MySensors.C20.quiet_after_stop_unfixed_counterexample",
    "MySensors.C20.connect_after_disconnect_crashes",
    "MySensors.C20.watchdog_no_false_drop", "MySensors.C20.watchdog_no_false_drop_periodic",
    "MySensors.C20.watchdog_async_small_rt_drops", "MySensors.C20.watchdog_drop",
    "MySensors.C20.async_silent_from_connect", "MySensors.C20.drop_redials",
    "MySensors.C20.threaded_refresh_delay", "MySensors.C20.threaded_slack",
    "MySensors.C20.watchdog_boundary_drop_witness",
]
ASSUMPTIONS = [
    "events are atomic: an event is applied when every thread / task is blocked in a device call; "
    "interleavings inside an event are C16's subject (C16 reports three races there: disconnect vs "
    "loss, double reconnect after a write error, late `transport = None` after a fast reconnect)",
    "pyserial ReaderThread and the asyncio transports honour their contract: connection_made once "
    "per connection, connection_lost(exc) once, after close() connection_lost(None); the asyncio "
    "transport reports write failures through connection_lost(exc) and an EOF through "
    "eof_received() followed by close(); the asyncio write buffer is empty when close() is called. "
    "ReaderThread.run itself is the real pyserial code (run inline); the asyncio transports are fakes; "
    "the EOF contract is re-checked against a real asyncio socket transport on a socketpair",
    "real thread scheduling, OS sockets, select(), serial ports and the wall clock are replaced by "
    "deferred thread starts, fake devices and a simulated clock; ReaderThread.close()'s join(2) "
    "is assumed to succeed within its 2 s",
    "time is exact (rational seconds) in the harness and Nat milliseconds in the model; with "
    "time.time() floats a comparison at exact equality can fall either way",
    "watchdog, threaded flavour: the reader loop runs every p = 20 ms (the sleep; the loop body "
    "takes no simulated time), the pump every 20 ms with an arbitrary phase; the theorems take the "
    "largest gap between two checks G and the largest delay d from a probing check to the refresh "
    "of tcp_disconnect_timer as parameters; d <= L + 3p for network latency L",
    "watchdog, asyncio flavour: loop.call_later fires on time; reconnect_timeout >= 0.1 s "
    "(for smaller values the first timer check already finds 2*rt elapsed and drops a healthy link: "
    "theorem watchdog_async_small_rt_drops)",
    "for asyncio the on_conn_lost callback of the connection that stop()/disconnect() closes is "
    "delivered on the next loop iteration, i.e. after `await gateway.stop()` has returned; the "
    "event granularity counts it as part of the stop event",
]

MSG = "1;1;1;0;2;1\n"
ANSWER = b"0;255;3;0;2;2.3.2\n"
FLAVOURS = ["serialSync", "serialAsync", "tcpSync", "tcpAsync"]
EVENTS = ["connectOk", "connectFail", "connectTimeout", "readError", "writeError", "send",
          "peerCloseOrderly", "peerCloseAbrupt", "probeTimeout", "userDisconnect", "stop"]
CORE_EVENTS = ["connectOk", "connectFail", "readError", "writeError", "peerCloseOrderly",
               "peerCloseAbrupt", "userDisconnect", "stop"]


class EndOfScript(BaseException):
    """Raised by a fake device when the event script is exhausted."""


class Clock:
    def __init__(self):
        self.ms = 0

    def time(self):
        return Fraction(self.ms, 1000)


def to_ms(secs):
    return int(round(Fraction(secs) * 1000))


class Log:
    """Timed outputs, grouped by the event that caused them (group 0 = start())."""

    def __init__(self, clock):
        self.clock = clock
        self.groups = [[]]

    def begin(self):
        self.groups.append([])

    def out(self, what):
        self.groups[-1].append((self.clock.ms, what))

    def render(self):
        return ["-" if not g else ",".join(f"{t}:{o}" for t, o in g) for g in self.groups]


def protocol_for(a, b):
    """the protocol version a scenario's gateway is configured with (the supervision does not depend on it)"""
    return ["1.4", "2.0", "2.2", "2.1", "1.5"][(int(a) + int(b)) % 5]


class Shim(types.SimpleNamespace):
    pass


@contextlib.contextmanager
def patched(pairs):
    """pairs: (module, attribute, replacement); restored on exit."""
    saved = []
    try:
        for mod, name, new in pairs:
            saved.append((mod, name, getattr(mod, name)))
            setattr(mod, name, new)
        yield
    finally:
        for mod, name, old in reversed(saved):
            setattr(mod, name, old)


# =======================================================================================
# A. sync flavours, inline
# =======================================================================================

class SyncRun:
    def __init__(self, flavour, rt_ms, events):
        self.flavour = flavour
        self.rt_ms = rt_ms
        self.events = list(events)
        self.pos = 0
        self.clock = Clock()
        self.log = Log(self.clock)
        self.activities = collections.deque()
        self.fail_write = False
        self.silent = False
        self.gw = None
        self.established = 0
        self.devices = []

    # -- script ---------------------------------------------------------------------
    def next_event(self):
        if self.pos >= len(self.events):
            raise EndOfScript()
        ev = self.events[self.pos]
        self.pos += 1
        self.log.begin()
        return ev

    def spawn(self, fn):
        if getattr(fn, "__name__", "") == "_poll_queue":
            return      # the pump is not part of this check; writes are issued by the script
        self.activities.append(fn)

    def do_send(self, ok):
        self.fail_write = not ok
        try:
            self.gw.tasks.transport.send(MSG)
        finally:
            self.fail_write = False

    def common_event(self, ev):
        """Events that mean the same whoever is blocked; returns True when handled."""
        tr = self.gw.tasks.transport
        if ev == "send":
            self.do_send(True)
        elif ev == "writeError":
            self.do_send(False)
        elif ev == "userDisconnect":
            tr.disconnect()
        elif ev == "stop":
            self.gw.stop()
        else:
            return False
        return True

    # -- fakes ------------------------------------------------------------------------
    def time_shim(self):
        run = self

        def sleep(secs):
            if secs == 0.02:                # TCPTransport.run's poll sleep
                if run.silent:
                    run.pump()
                    run.clock.ms += 20
                return
            run.clock.ms += to_ms(secs)

        return Shim(time=self.clock.time, sleep=sleep)

    def pump(self):
        tasks = self.gw.tasks
        while tasks.queue:
            reply = tasks.run_job()
            tasks.transport.send(reply)

    def connect_call(self, make_device, fail_exc, timeout_exc, timeout_ms):
        """Body of the fake serial_for_url / socket.create_connection."""
        self.log.out("connectAttempt")
        while True:
            ev = self.next_event()
            if ev == "connectOk":
                dev = make_device()
                self.devices.append(dev)
                if self.gw.tasks.transport.protocol is not None:
                    self.established += 1
                    dev.handed_over = True
                return dev
            if ev == "connectFail":
                raise next_failure(self, fail_exc)
            if ev == "connectTimeout" and timeout_exc is not None:
                self.clock.ms += timeout_ms
                raise timeout_exc
            self.common_event(ev)

    def run(self):
        import serial
        import serial.threaded
        import mysensors.transport as m_transport
        import mysensors.task as m_task
        import mysensors.gateway_tcp as m_tcp
        import mysensors.gateway_serial as m_serial
        run = self

        class DeferredThread:
            def __init__(self, target=None, args=(), kwargs=None, **_kw):
                self.target, self.args, self.kwargs = target, args, kwargs or {}
                self.daemon = False

            def start(self):
                fn = self.target
                a, k = self.args, self.kwargs
                wrapped = lambda: fn(*a, **k)   # noqa: E731
                wrapped.__name__ = getattr(fn, "__name__", "thread")
                run.spawn(wrapped)

            def join(self, timeout=None):
                pass

        thr_shim = Shim(Thread=DeferredThread, Lock=threading.Lock, Event=threading.Event,
                        Timer=threading.Timer)

        class HReader(serial.threaded.ReaderThread):
            def __init__(self, ser, factory):
                super().__init__(ser, factory)
                ser.reader = self

            def start(self):
                run.spawn(self.run)

            def connect(self):
                return (self, self.protocol)

            def join(self, timeout=None):
                pass

        class HTCP(m_tcp.TCPTransport):
            def __init__(self, sock, factory, check):
                super().__init__(sock, factory, check)
                sock.reader = self

            def start(self):
                run.spawn(self.run)

            def connect(self):
                return (self, self.protocol)

            def join(self, timeout=None):
                pass

        class FakeSerial:
            def __init__(self):
                self.is_open = True
                self.in_waiting = 0
                self.timeout = None
                self.reader = None
                self.handed_over = False
                self.dead = False

            def cancel_read(self):
                pass

            def read(self, _n=1):
                while True:
                    if not self.is_open or not self.reader.alive:
                        return b""
                    ev = run.next_event()
                    if ev in ("readError", "peerCloseOrderly", "peerCloseAbrupt"):
                        self.dead = True
                        raise serial.SerialException("device disconnected")
                    run.common_event(ev)

            def write(self, data):
                if not self.is_open:
                    raise serial.PortNotOpenError()
                if run.fail_write:
                    self.dead = True
                    raise serial.SerialException("write failed")
                run.log.out("write")
                return len(data)

            def close(self):
                self.is_open = False
                self.dead = True

        class FakeSocket:
            def __init__(self):
                self.closed = False
                self.eof = False
                self.recv_exc = None
                self.reader = None
                self.handed_over = False
                self.dead = False

            def setblocking(self, _flag):
                pass

            def fileno(self):
                return 99

            def sendall(self, data):
                if self.closed:
                    raise OSError(9, "Bad file descriptor")
                if run.fail_write:
                    self.dead = True
                    raise BrokenPipeError(32, "Broken pipe")
                run.log.out("write")

            def recv(self, _n):
                if self.recv_exc is not None:
                    exc, self.recv_exc = self.recv_exc, None
                    raise exc
                return b""

            def close(self):
                self.closed = True
                self.dead = True
                run.silent = False

            def on_select(self):
                ready = lambda: ([self] if self.eof else [], [self], [])  # noqa: E731
                if run.silent:
                    return ready()
                while True:
                    if self.closed or not self.reader.alive:
                        return ([], [self], [])
                    ev = run.next_event()
                    if ev in ("readError", "peerCloseAbrupt"):
                        self.dead = True
                        self.recv_exc = ConnectionResetError(104, "Connection reset by peer")
                        return ([self], [self], [])
                    if ev == "peerCloseOrderly":
                        self.eof = True
                        return ready()
                    if ev == "probeTimeout":
                        run.silent = True
                        return ready()
                    run.common_event(ev)

        def serial_for_url(_port, _baud=None, **_kw):
            return run.connect_call(FakeSerial, serial.SerialException("could not open port"), None, 0)

        def create_connection(_address, timeout=None):
            return run.connect_call(FakeSocket, tcp_dial_failures(),
                                    real_socket.timeout("timed out"), to_ms(timeout))

        def select(r, _w, _x, _timeout=None):
            return r[0].on_select()

        serial_shim = Shim(serial_for_url=serial_for_url, SerialException=serial.SerialException,
                           threaded=Shim(ReaderThread=HReader), tools=serial.tools)
        tshim = self.time_shim()
        pairs = [
            (m_transport, "threading", thr_shim), (m_task, "threading", thr_shim),
            (m_task, "time", tshim), (m_tcp, "time", tshim), (m_serial, "time", tshim),
            (m_tcp, "socket", Shim(create_connection=create_connection, timeout=real_socket.timeout)),
            (m_tcp, "select", Shim(select=select)), (m_tcp, "TCPTransport", HTCP),
            (m_serial, "serial", serial_shim),
        ]
        crashed = []
        with patched(pairs):
            rt = Fraction(self.rt_ms, 1000)
            pv = protocol_for(self.rt_ms, len(self.activities))
            if self.flavour == "tcpSync":
                gw = m_tcp.TCPGateway("127.0.0.1", 5003, reconnect_timeout=rt, protocol_version=pv)
                # another gateway object of the same class and protocol version lives in the process (a second
                # MySensors network); it is never started and what it does is its own business
                self.neighbour = m_tcp.TCPGateway("127.0.0.2", 5003, reconnect_timeout=rt, protocol_version=pv)
            else:
                gw = m_serial.SerialGateway("/dev/verif-fake", reconnect_timeout=rt, protocol_version=pv)
            gw.on_conn_made = lambda _g: self.log.out("connMade")
            gw.on_conn_lost = lambda _g, exc: self.log.out("connLost(err)" if exc else "connLost(None)")
            self.gw = gw
            try:
                gw.start()
                while True:
                    while self.activities:
                        fn = self.activities.popleft()
                        try:
                            fn()
                        except EndOfScript:
                            raise
                        except AttributeError as exc:
                            crashed.append(repr(exc))
                            self.log.out("crash")
                    # nothing is running: remaining events meet an idle gateway
                    ev = self.next_event()
                    self.common_event(ev)
            except EndOfScript:
                pass
        tr = gw.tasks.transport
        state = {"proto": tr.protocol is not None,
                 "established": self.established,
                 "dead": sum(1 for d in self.devices if d.handed_over and d.dead),
                 "crashed": crashed}
        return self.log.render(), state


# =======================================================================================
# A'. asyncio flavours on a simulated-clock loop
# =======================================================================================

def tcp_dial_failures():
    """What a failing TCP dial can raise: every one is an OSError, not every one a ConnectionError."""
    import socket
    return [ConnectionRefusedError(111, "Connection refused"), OSError(101, "Network is unreachable"),
            socket.gaierror(-2, "Name or service not known"), OSError(113, "No route to host"),
            ConnectionResetError(104, "Connection reset by peer"), ConnectionAbortedError(103, "aborted")]


def next_failure(run, fail_exc):
    """`fail_exc` is one exception or a list the successive failures of one run rotate through."""
    if isinstance(fail_exc, list):
        k = getattr(run, "_fail_no", 0)
        run._fail_no = k + 1
        return fail_exc[k % len(fail_exc)]
    return fail_exc


class SimLoop(asyncio.SelectorEventLoop):
    def __init__(self, clock, arun):
        super().__init__()
        self._sim_clock = clock
        self._arun = arun

    def time(self):
        return self._sim_clock.time()

    def call_later(self, delay, callback, *args, context=None):
        return self.call_at(self.time() + Fraction(to_ms(delay), 1000), callback, *args, context=context)

    async def create_connection(self, protocol_factory, host=None, port=None, **_kw):
        return await self._arun.fake_connect(protocol_factory, tcp_dial_failures(), True)


class FakeATransport:
    """asyncio transport contract: see ASSUMPTIONS."""

    def __init__(self, arun, loop, protocol):
        self.arun, self.loop, self.protocol = arun, loop, protocol
        self.closing = False
        self.lost = False
        self.dead = False
        self.handed_over = True

    def write(self, data):
        if self.closing:
            return
        if self.arun.fail_write:
            self.fatal(OSError(32, "Broken pipe"))
            return
        self.arun.on_write(data)

    def fatal(self, exc):
        if self.closing:
            return
        self.closing = True
        self.dead = True
        self.loop.call_soon(self._call_lost, exc)

    def close(self):
        if self.closing:
            return
        self.closing = True
        self.dead = True
        self.loop.call_soon(self._call_lost, None)

    def is_closing(self):
        return self.closing

    def _call_lost(self, exc):
        if not self.lost:
            self.lost = True
            if self.arun.link is self:
                self.arun.link = None
            self.protocol.connection_lost(exc)

    def __repr__(self):
        return "<fake asyncio transport>"


class AsyncRun:
    def __init__(self, flavour, rt_ms, events=()):
        self.flavour = flavour
        self.rt_ms = rt_ms
        self.events = list(events)
        self.clock = Clock()
        self.log = Log(self.clock)
        self.fail_write = False
        self.pending = None
        self.link = None
        self.gw = None
        self.loop = None
        self.established = 0
        self.devices = []
        self.tasks_seen = []
        self.reported = set()
        self.crashed = []
        self.write_hook = None

    def on_write(self, data):
        self.log.out("write")
        if self.write_hook:
            self.write_hook(data)

    async def fake_connect(self, protocol_factory, fail_exc, tcp):
        self.log.out("connectAttempt")
        fut = self.loop.create_future()
        self.pending = fut
        try:
            res = await fut
        finally:
            if self.pending is fut:
                self.pending = None
        if res == "fail":
            raise next_failure(self, fail_exc)
        protocol = protocol_factory()
        if tcp:
            tr = FakeATransport(self, self.loop, protocol)
            protocol.connection_made(tr)            # asyncio: before create_connection returns
        else:
            tr = FakeATransport(self, self.loop, protocol)
            self.loop.call_soon(protocol.connection_made, tr)   # serial_asyncio: call_soon
        self.devices.append(tr)
        self.established += 1
        self.link = tr
        return tr, protocol

    async def settle(self):
        for _ in range(10000):
            await asyncio.sleep(0)
            if not self.loop._ready:
                self.scan_tasks()
                return
        raise HarnessHang("event loop does not settle")

    def scan_tasks(self):
        tr = self.gw.tasks.transport
        if tr.connect_task is not None and tr.connect_task not in self.tasks_seen:
            self.tasks_seen.append(tr.connect_task)
        for t in self.tasks_seen:
            if t.done() and not t.cancelled() and id(t) not in self.reported:
                self.reported.add(id(t))
                exc = t.exception()
                if exc is not None:
                    self.crashed.append(repr(exc))
                    self.log.out("crash")

    def next_timer(self):
        whens = [h._when for h in self.loop._scheduled if not h._cancelled]
        return min(whens) if whens else None

    async def advance(self, ms):
        target = self.clock.ms + ms
        while True:
            nxt = self.next_timer()
            if nxt is None or nxt * 1000 > target:
                break
            self.clock.ms = max(self.clock.ms, int(nxt * 1000))
            await self.settle()
        self.clock.ms = target
        await self.settle()

    async def apply(self, ev):
        import serial
        tcp = self.flavour == "tcpAsync"
        tr = self.gw.tasks.transport
        if ev in ("connectOk", "connectFail", "connectTimeout"):
            fut = self.pending
            if fut is None or fut.done():
                return
            if ev == "connectOk":
                fut.set_result("ok")
            elif ev == "connectFail":
                fut.set_result("fail")
                await self.settle()
                await self.advance(self.rt_ms)
            elif tcp:
                await self.advance(self.rt_ms)      # wait_for gives up
                await self.advance(self.rt_ms)      # the sleep before the next attempt
        elif ev in ("readError", "peerCloseAbrupt") or (ev == "peerCloseOrderly" and not tcp):
            if self.link is not None:
                exc = ConnectionResetError(104, "reset") if tcp else serial.SerialException("device disconnected")
                self.link.fatal(exc)
        elif ev == "peerCloseOrderly":
            if self.link is not None:
                link = self.link
                keep_open = link.protocol.eof_received()
                if not keep_open:
                    link.close()
        elif ev == "probeTimeout":
            if tcp and self.link is not None:
                await self.advance(2 * (self.rt_ms + 100))
        elif ev == "send":
            tr.send(MSG)
        elif ev == "writeError":
            self.fail_write = True
            try:
                tr.send(MSG)
            finally:
                self.fail_write = False
        elif ev == "userDisconnect":
            tr.disconnect()
        elif ev == "stop":
            await self.gw.stop()
        await self.settle()

    def make_gateway(self):
        import mysensors.gateway_tcp as m_tcp
        import mysensors.gateway_serial as m_serial
        rt = Fraction(self.rt_ms, 1000)
        pv = protocol_for(self.rt_ms, 1)
        if self.flavour == "tcpAsync":
            gw = m_tcp.AsyncTCPGateway("127.0.0.1", 5003, reconnect_timeout=rt, protocol_version=pv)
            self.neighbour = m_tcp.AsyncTCPGateway("127.0.0.2", 5003, reconnect_timeout=rt, protocol_version=pv)
        else:
            gw = m_serial.AsyncSerialGateway("/dev/verif-fake", reconnect_timeout=rt, protocol_version=pv)
        gw.on_conn_made = lambda _g: self.log.out("connMade")
        gw.on_conn_lost = lambda _g, exc: self.log.out("connLost(err)" if exc else "connLost(None)")
        self.gw = gw
        return gw

    def patches(self):
        import serial
        import mysensors.gateway_tcp as m_tcp
        import mysensors.gateway_serial as m_serial
        arun = self

        async def create_serial_connection(loop, protocol_factory, *_a, **_k):
            return await arun.fake_connect(protocol_factory, serial.SerialException("could not open port"), False)

        tshim = Shim(time=self.clock.time, sleep=lambda _s: None)
        return [(m_tcp, "time", tshim), (m_serial, "time", tshim),
                (m_serial, "serial_asyncio", Shim(create_serial_connection=create_serial_connection))]

    def run_loop(self, main):
        loop = SimLoop(self.clock, self)
        self.loop = loop
        try:
            with patched(self.patches()):
                return loop.run_until_complete(main())
        finally:
            try:
                pending = [t for t in asyncio.all_tasks(loop) if not t.done()]
                for t in pending:
                    t.cancel()
                if pending:
                    loop.run_until_complete(asyncio.gather(*pending, return_exceptions=True))
                for t in self.tasks_seen:
                    if t.done() and not t.cancelled():
                        t.exception()
            finally:
                loop.close()

    def run(self):
        async def main():
            gw = self.make_gateway()
            start_task = self.loop.create_task(gw.start())      # the user's own `await gateway.start()`
            self.tasks_seen.append(start_task)
            await self.settle()
            for ev in self.events:
                self.log.begin()
                await self.apply(ev)
            tr = gw.tasks.transport
            return {"proto": tr.protocol is not None, "established": self.established,
                    "dead": sum(1 for d in self.devices if d.dead), "crashed": self.crashed}

        state = self.run_loop(main)
        return self.log.render(), state


def run_events(flavour, rt_ms, events):
    if flavour.endswith("Sync"):
        return SyncRun(flavour, rt_ms, events).run()
    return AsyncRun(flavour, rt_ms, events).run()


# ---------------------------------------------------------------------------------------
# oracle over an event log (independent of the model)
# ---------------------------------------------------------------------------------------

def parse_group(g):
    if g == "-":
        return []
    out = []
    for item in g.split(","):
        t, o = item.split(":", 1)
        out.append((int(t), o))
    return out


def judge_events(flavour, rt_ms, events, groups, state):
    """Returns a list of (key-kind, description)."""
    bad = []
    gs = [parse_group(g) for g in groups]
    flat = [o for g in gs for _, o in g]
    # callbacks alternate, counts match the devices
    up = False
    for o in flat:
        if o == "connMade":
            if up:
                bad.append(("callbacks-not-alternating", "connMade twice without connLost"))
            up = True
        elif o.startswith("connLost"):
            if not up:
                bad.append(("callbacks-not-alternating", "connLost without connMade"))
            up = False
    made = flat.count("connMade")
    lost = sum(1 for o in flat if o.startswith("connLost"))
    if made != state["established"]:
        bad.append(("conn-made-count", f"{made} connMade for {state['established']} established connections"))
    if lost != state["dead"] and not (flavour == "tcpSync" and lost <= state["dead"]):
        bad.append(("conn-lost-count", f"{lost} connLost for {state['dead']} lost connections"))
    # reconnect after every loss the user did not request; attempts spaced rt apart
    tcp = flavour.startswith("tcp")
    user_gone = False
    stopped_at = None
    seen_made = False
    pending = gs[0][-1][0] if gs and gs[0] and gs[0][-1][1] == "connectAttempt" else None
    for i, ev in enumerate(events):
        g = gs[i + 1] if i + 1 < len(gs) else []
        outs = [o for _, o in g]
        if stopped_at is not None:
            loud = [o for o in outs if o != "crash"]
            if loud:
                shape = "stop during the initial connect" if stopped_at == "initial" else "other"
                bad.append(("output-after-stop:" + shape, f"after stop(): {loud} on {ev}"))
        if any(o.startswith("connLost") for o in outs) and ev not in ("userDisconnect", "stop"):
            if "connectAttempt" not in outs:
                bad.append(("no-reconnect-after:" + ev, f"connection lost on {ev} and no reconnect attempt follows"))
        resolves = ev in ("connectOk", "connectFail") or (ev == "connectTimeout" and tcp)
        if pending is not None and not user_gone:
            if ev == "connectFail" or (ev == "connectTimeout" and tcp):
                want = pending + (rt_ms if ev == "connectFail" else 2 * rt_ms)
                if (want, "connectAttempt") not in g:
                    bad.append(("retry-spacing", f"{ev}: expected a new attempt at {want} ms, got {g}"))
            if ev == "connectOk" and "connMade" not in outs:
                bad.append(("connect-ok-without-callback", f"connectOk produced {outs}"))
        if resolves and pending is not None:
            pending = None
        att = [t for t, o in g if o == "connectAttempt"]
        if not user_gone and (len(att) > 1 or (att and pending is not None)):
            bad.append(("duplicate-reconnect", f"{ev}: {len(att)} new connect attempt(s) while "
                        f"{'one is' if pending is not None else 'none was'} already under way: {g}"))
        if att:
            pending = att[-1]
        if ev == "stop" and stopped_at is None:
            stopped_at = "initial" if (not seen_made and pending is not None) else "later"
        if ev in ("userDisconnect", "stop"):
            user_gone = True
        if "connMade" in outs:
            seen_made = True
    return bad


# =======================================================================================
# B. watchdog timing
# =======================================================================================

def wd_check_real(cases):
    """BaseTCPGateway.check_connection on given (rt, tCheck, tDisc, now) in ms."""
    import mysensors.gateway_tcp as m_tcp
    clock = Clock()
    out = []
    with patched([(m_tcp, "time", Shim(time=clock.time, sleep=lambda _s: None))]):
        gw = m_tcp.TCPGateway("127.0.0.1", 5003)
        for rt, tc, td, now in cases:
            gw.tasks.transport.reconnect_timeout = Fraction(rt, 1000)
            gw.tcp_check_timer = Fraction(tc, 1000)
            gw.tcp_disconnect_timer = Fraction(td, 1000)
            gw.tasks.queue.clear()
            clock.ms = now
            try:
                gw.check_connection()
                res = "probe" if gw.tasks.queue else "idle"
            except OSError:
                res = "drop"
            out.append(f"{to_ms(gw.tcp_check_timer)} {to_ms(gw.tcp_disconnect_timer)} {res}")
    return out


def wd_sync_real(rt_ms, phase, pump_first, lats, horizon):
    """TCPTransport.run and SyncTasks._poll_queue on two real threads, discrete-event clock."""
    import mysensors.gateway_tcp as m_tcp
    import mysensors.task as m_task
    import mysensors.transport as m_transport
    clock = Clock()
    coop = Coop(timeout=10.0)
    log = []
    state = {"arrivals": [], "nprobe": 0, "redial": None}

    class Sock:
        def setblocking(self, _f):
            pass

        def sendall(self, data):
            log.append((clock.ms, "w"))
            lat = lats[state["nprobe"]] if state["nprobe"] < len(lats) else None
            state["nprobe"] += 1
            if lat is not None:
                state["arrivals"].append(clock.ms + lat)

        def recv(self, _n):
            now = clock.ms
            got = [a for a in state["arrivals"] if a <= now]
            state["arrivals"] = [a for a in state["arrivals"] if a > now]
            return ANSWER * len(got)

        def close(self):
            pass

    def select(r, w, _x, timeout=None):
        # select() as the operating system does it: back at once when something asked for is ready (a connected
        # socket is always writable); otherwise it blocks until data arrives or the timeout passes — for good
        # when there is no timeout and the peer stays silent
        ready = any(a <= clock.ms for a in state["arrivals"])
        if not ready and not w:
            future = [a - clock.ms for a in state["arrivals"] if a > clock.ms]
            waits = future + ([to_ms(timeout)] if timeout is not None else [])
            coop.park("select", min(waits) if waits else 2 * horizon + 1)
            ready = any(a <= clock.ms for a in state["arrivals"])
        return ([r[0]] if ready else [], list(w), [])

    def sleep(secs):
        coop.park("sleep", to_ms(secs))

    class NoThread:
        def __init__(self, target=None, args=(), **_kw):
            pass

        def start(self):
            state["redial"] = clock.ms      # conn_lost_callback → a new connect thread

    tshim = Shim(time=clock.time, sleep=sleep)
    pairs = [(m_tcp, "time", tshim), (m_task, "time", tshim), (m_tcp, "select", Shim(select=select)),
             (m_transport, "threading", Shim(Thread=NoThread, Lock=threading.Lock))]
    try:
        with patched(pairs):
            pv = protocol_for(rt_ms, phase)
            gw = m_tcp.TCPGateway("127.0.0.1", 5003, reconnect_timeout=Fraction(rt_ms, 1000), protocol_version=pv)
            neighbour = m_tcp.TCPGateway("127.0.0.2", 5003, reconnect_timeout=Fraction(rt_ms, 1000), protocol_version=pv)
            gw.on_conn_lost = lambda _g, exc: log.append((clock.ms, "d" if exc else "lost-none"))
            sock = Sock()
            gw.tcp_check_timer = clock.time()
            gw.tcp_disconnect_timer = clock.time()
            tcp = m_tcp.TCPTransport(sock, lambda: gw.tasks.transport.protocol, gw.check_connection)
            reader = coop.spawn(tcp.run, "reader")
            pump = coop.spawn(gw.tasks._poll_queue, "pump")
            wake = {reader: 0, pump: phase}
            last_disc = gw.tcp_disconnect_timer
            while True:
                live = [t for t in (reader, pump) if not t.done]
                if reader.done or not live:
                    break
                order = (pump, reader) if pump_first else (reader, pump)
                th = min(live, key=lambda t: (wake[t], order.index(t)))
                if wake[th] > horizon:
                    break
                clock.ms = wake[th]
                coop.resume(th)
                if not th.done:
                    wake[th] = clock.ms + th.info
                if gw.tcp_disconnect_timer != last_disc:
                    last_disc = gw.tcp_disconnect_timer
                    if not any(o == "d" and t == clock.ms for t, o in log):
                        log.append((clock.ms, "h"))
            gw.tasks._stop_event.set()
    finally:
        coop.shutdown()
    return log, state["redial"]


def wd_async_real(rt_ms, lats, horizon):
    arun = AsyncRun("tcpAsync", rt_ms)
    log = []
    st = {"arrivals": [], "nprobe": 0, "redial": None}

    def hook(_data):
        log.append((arun.clock.ms, "w"))
        lat = lats[st["nprobe"]] if st["nprobe"] < len(lats) else None
        st["nprobe"] += 1
        if lat is not None:
            st["arrivals"].append(arun.clock.ms + lat)

    arun.write_hook = hook

    async def main():
        gw = arun.make_gateway()
        gw.on_conn_lost = lambda _g, exc: log.append((arun.clock.ms, "d"))
        start_task = arun.loop.create_task(gw.start())
        arun.tasks_seen.append(start_task)
        await arun.settle()
        arun.pending.set_result("ok")
        await arun.settle()
        link = arun.link
        while arun.link is link and link is not None:
            nxt = arun.next_timer()
            arr = min(st["arrivals"]) if st["arrivals"] else None
            t_timer = int(nxt * 1000) if nxt is not None else None
            cands = [x for x in (arr, t_timer) if x is not None]
            if not cands or min(cands) > horizon:
                break
            if arr is not None and (t_timer is None or arr <= t_timer):
                arun.clock.ms = arr
                st["arrivals"].remove(arr)
                before = gw.tcp_disconnect_timer
                link.protocol.data_received(ANSWER)
                if gw.tcp_disconnect_timer != before:
                    log.append((arun.clock.ms, "h"))
                await arun.settle()
            else:
                arun.clock.ms = t_timer
                await arun.settle()
        for t, o in arun.log.groups[-1]:
            if o == "connectAttempt" and t > 0:
                st["redial"] = t
        return None

    arun.run_loop(main)
    return log, st["redial"]


def show_log(log):
    return ",".join(f"{t}:{o}" for t, o in log) or "-"


def lats_wire(lats):
    return ",".join("x" if l is None else str(l) for l in lats) or "-"


def judge_watchdog(kind, rt, lats, horizon, log, redial, poll=20):
    """The two-sided timing guarantee, read off a real run."""
    bad = []
    drops = [t for t, o in log if o == "d"]
    handled = [t for t, o in log if o == "h"]
    writes = [t for t, o in log if o == "w"]
    if kind == "sync":
        slack, gap = 4 * poll, poll
    else:
        slack, gap = 0, rt + 100
    answered = all(i < len(lats) and lats[i] is not None and lats[i] <= rt - slack for i in range(len(writes)))
    if answered and drops and (kind == "sync" or rt >= 100):
        bad.append(("false-drop", f"every probe answered within rt - {slack} ms but dropped at {drops[0]}"))
    # silent from some point on: every probe after the last answered one is unanswered
    last_ans = max(handled) if handled else 0
    silent_since = last_ans
    unanswered_forever = all((i >= len(lats) or lats[i] is None) for i in range(len(handled), max(len(writes), len(handled) + 1)))
    deadline = silent_since + 2 * rt + gap
    if unanswered_forever and horizon >= deadline + gap:
        if not drops:
            bad.append(("silent-link-not-dropped", f"silent since {silent_since}, no drop by {horizon}"))
        elif drops[0] > deadline:
            bad.append(("silent-link-dropped-late", f"silent since {silent_since}, dropped at {drops[0]} > {deadline}"))
        elif drops[0] <= silent_since + 2 * rt:
            bad.append(("silent-link-dropped-early", f"dropped at {drops[0]} <= {silent_since + 2 * rt}"))
        if drops and redial != drops[0]:
            bad.append(("no-redial-at-drop", f"dropped at {drops[0]}, redial at {redial}"))
    return bad


def eof_contract_real():
    """Real asyncio socket transport on a socketpair: orderly close by the peer gives
    connection_lost(None) and — with the real AsyncTCPMySensorsProtocol — no reconnect."""
    import mysensors.gateway_tcp as m_tcp
    out = {}

    async def main():
        loop = asyncio.get_running_loop()
        calls = []
        gw = m_tcp.AsyncTCPGateway("127.0.0.1", 5003, reconnect_timeout=10.0)
        gw.on_conn_lost = lambda _g, exc: calls.append(("lost", exc))
        gw.on_conn_made = lambda _g: calls.append(("made",))
        tr = gw.tasks.transport
        reconnects = []
        tr.protocol.conn_lost_callback = lambda: reconnects.append(1)
        a, b = real_socket.socketpair()
        try:
            await loop.create_connection(lambda: tr.protocol, sock=a)
            b.shutdown(real_socket.SHUT_RDWR)
            b.close()
            for _ in range(200):
                await asyncio.sleep(0.005)
                if any(c[0] == "lost" for c in calls):
                    break
        finally:
            try:
                a.close()
            except OSError:
                pass
        out["calls"] = [(c[0], None if len(c) < 2 else (type(c[1]).__name__ if c[1] else None)) for c in calls]
        out["reconnects"] = len(reconnects)
        if gw.cancel_check_conn:
            gw.cancel_check_conn()

    try:
        asyncio.run(asyncio.wait_for(main(), 5))
    except Exception as exc:  # noqa: BLE001
        out["error"] = repr(exc)
    return out


# =======================================================================================

def gen_sequences(tier, rng):
    seqs = []
    if tier == "quick":
        for L in range(0, 4):
            seqs += [list(s) for s in itertools.product(EVENTS, repeat=L)]
        extra = 500
        maxlen = 9
    else:
        for L in range(0, 5):
            seqs += [list(s) for s in itertools.product(EVENTS, repeat=L)]
        seqs += [list(s) for s in itertools.product(CORE_EVENTS, repeat=5)]
        extra = 8000
        maxlen = 12
    weights = [5, 3, 1, 2, 2, 2, 2, 1, 1, 1, 1]
    for _ in range(extra):
        L = rng.randrange(4, maxlen + 1)
        seqs.append(rng.choices(EVENTS, weights=weights, k=L))
    return seqs


def run(tier, seed, driver):
    res = Result()
    rng = random.Random(seed * 7919 + 20)
    ops, impl, cases = [], [], []
    failures = {}

    def fail(kind, extra_key, what, replay):
        key = dict({"kind": kind}, **extra_key)
        ks = str(sorted(key.items()))
        old = failures.get(ks)
        size = len(str(replay))
        if old is None or size < old[0]:
            failures[ks] = (size, {"key": key, "what": what, "replay": replay})

    # ---- A: event sequences ------------------------------------------------------------
    seqs = gen_sequences(tier, rng)
    rts = [1000, 250]
    for flavour in FLAVOURS:
        for k, evs in enumerate(seqs):
            rt = rts[0] if k % 7 else rts[1]
            try:
                groups, state = run_events(flavour, rt, evs)
            except HarnessHang as exc:
                res.corr_diffs.append({"name": "supervisor-harness", "case": [flavour, evs], "model": "", "impl": str(exc)})
                continue
            ops.append(f"SUP {flavour} {rt} {','.join(evs) or '-'}")
            impl.append((groups, state))
            cases.append(("sup", flavour, rt, evs))
            res.count("events:" + flavour)
            flat = "|".join(groups)
            if "connMade" in flat:
                res.distinct.add(digest([flavour, evs]))
            for o in ("connMade", "connLost(err)", "connLost(None)", "write", "crash"):
                if o in flat:
                    res.count("seq-with:" + o)
            for kind, what in judge_events(flavour, rt, evs, groups, state):
                fail(kind, {"flavour": flavour}, f"{flavour}: {what}; events={evs}",
                     {"op": "events", "flavour": flavour, "rt": rt, "events": evs})
    # ---- B: check_connection, unit level --------------------------------------------------
    wcases = []
    for _ in range(400 if tier == "quick" else 20000):
        rt = rng.choice([50, 100, 200, 1000, 10000])
        tc = rng.randrange(0, 5) * rt // 2 + rng.choice([0, 0, 10, 20])
        td = rng.randrange(0, 5) * rt // 2 + rng.choice([0, 0, 10, 20])
        now = max(tc, td) + rng.choice([0, 10, rt - 10, rt, rt + 10, 2 * rt - 10, 2 * rt, 2 * rt + 10, 3 * rt])
        wcases.append((rt, tc, td, max(now, 0)))
    wreal = wd_check_real(wcases)
    for c, r in zip(wcases, wreal):
        ops.append("WDCHECK %d %d %d %d" % c)
        impl.append(r)
        cases.append(("wdcheck",) + c)
        res.count("check:" + r.split()[-1])
    # ---- B: watchdog timing -----------------------------------------------------------------
    wd = []
    rtl = [200, 300] if tier == "quick" else [200, 300, 500]
    for rt in rtl:
        grid = list(range(0, rt + 41, 10 if tier == "thorough" else 20))
        pats = [[], [0], [rt - 80], [rt - 80] * 12, [0, rt - 80] * 6, [rt - 80, 0] * 6, [0] * 3 + [None]]
        pats += [[l] * 12 for l in grid]
        pats += [[0, l] * 6 for l in grid]
        n_rand = 6 if tier == "quick" else 60
        for _ in range(n_rand):
            pats.append([rng.choice(grid + [None]) for _ in range(rng.randrange(1, 8))])
        for lats in pats:
            horizon = 7 * rt
            for phase, pf in ([(0, False), (10, False)] if tier == "quick" else [(0, False), (0, True), (5, False), (10, False), (15, True)]):
                wd.append(("sync", rt, phase, pf, lats, horizon))
            wd.append(("async", rt, 0, False, lats, 8 * rt + 800))
    wd.append(("async", 50, 0, False, [0] * 10, 1000))    # rt < 0.1 s: documented precondition
    wd.append(("async", 100, 0, False, [0] * 10, 2000))
    boundary = {"sync_drops_with_latency_le_rt": 0, "sync_runs_with_latency_in_slack_zone": 0}
    for kind, rt, phase, pf, lats, horizon in wd:
        try:
            if kind == "sync":
                log, redial = wd_sync_real(rt, phase, pf, lats, horizon)
                ops.append(f"WDSYNC {rt} 20 {phase} {1 if pf else 0} {horizon} {lats_wire(lats)}")
            else:
                log, redial = wd_async_real(rt, lats, horizon)
                ops.append(f"WDASYNC {rt} {horizon} {lats_wire(lats)}")
        except HarnessHang as exc:
            res.corr_diffs.append({"name": "watchdog-harness", "case": [kind, rt, lats], "model": "", "impl": str(exc)})
            continue
        impl.append(show_log(log))
        cases.append(("wd", kind, rt, phase, pf, lats, horizon))
        res.count("watchdog:" + kind)
        res.count("watchdog:" + ("dropped" if any(o == "d" for _, o in log) else "kept"))
        res.distinct.add(digest([kind, rt, phase, pf, lats]))
        if kind == "sync" and lats and all(l is not None and rt - 80 < l <= rt for l in lats):
            boundary["sync_runs_with_latency_in_slack_zone"] += 1
            if any(o == "d" for _, o in log):
                boundary["sync_drops_with_latency_le_rt"] += 1
        if not (kind == "async" and rt < 100):
            for bk, what in judge_watchdog(kind, rt, lats, horizon, log, redial):
                fail("watchdog-" + bk, {"flavour": "tcp" + kind.capitalize()},
                     f"{kind} rt={rt} lats={lats}: {what}",
                     {"op": "watchdog", "kind": kind, "rt": rt, "phase": phase, "pump_first": pf,
                      "lats": lats, "horizon": horizon})
    res.extra["watchdog_slack_zone"] = boundary
    # ---- real asyncio EOF contract -----------------------------------------------------------
    eof = eof_contract_real()
    res.extra["real_asyncio_eof"] = eof
    if "error" not in eof:
        if eof.get("calls") != [("made", None), ("lost", None)]:
            res.corr_diffs.append({"name": "asyncio-eof-contract", "case": "socketpair, peer closes",
                                   "model": "[made, lost(None)]", "impl": str(eof)})
    res.evaluations = len(ops)
    res.exhaustive = True
    res.rule = ("A: all event sequences over 11 events up to length 3 (quick) / 4 + 8 core events length 5 "
                "(thorough) + seeded random up to length 9/12, for each of the four gateway classes, rt 1000 and "
                "250 ms; B: check_connection on boundary timer values; watchdog runs for rt in {200,300[,500]} ms, "
                "latency patterns on a 20/10 ms grid up to rt+40 (constant, alternating with 0, random with "
                "losses), pump phases {0,10[,5,15]} ms and both tie orders; non-trivial = a connection was made / "
                "distinct watchdog configuration")
    # ---- model ----------------------------------------------------------------------------------
    if driver is not None:
        try:
            model = driver.run(ops)
        except Exception as exc:  # noqa: BLE001
            res.corr_diffs.append({"name": "supervisor-driver", "case": "driver", "model": str(exc), "impl": ""})
            model = None
        if model is not None:
            for op, m, r, c in zip(ops, model, impl, cases):
                if c[0] == "sup":
                    groups, state = r
                    body, _, tail = m.partition(" ;")
                    mg = body.split("|") if c[3] else []
                    want = ["0:connectAttempt"] + mg
                    got = list(groups) + ["-"] * (len(want) - len(groups))
                    mproto = "proto=1" in tail
                    if got != want or mproto != state["proto"]:
                        res.corr_diffs.append({"name": "supervisor", "case": op, "model": "|".join(want) + " ;" + tail,
                                               "impl": "|".join(got) + f" ;proto={int(state['proto'])}"})
                elif c[0] == "wd":
                    mm = ",".join(x for x in m.split(",") if not x.endswith(":h")) or "-"
                    rr = ",".join(x for x in r.split(",") if not x.endswith(":h")) or "-"
                    # several answers handled in one pump tick refresh the timer once per tick
                    mh = list(dict.fromkeys(x for x in m.split(",") if x.endswith(":h")))
                    rh = list(dict.fromkeys(x for x in r.split(",") if x.endswith(":h")))
                    if mm != rr or (c[1] == "sync" and mh != rh):
                        res.corr_diffs.append({"name": "watchdog-" + c[1], "case": op, "model": m, "impl": r})
                else:
                    if m != r:
                        res.corr_diffs.append({"name": "check_connection", "case": op, "model": m, "impl": r})
                if len(res.corr_diffs) > 20:
                    break
            res.traces_validated = len(ops)
    res.oracle_failures = [v[1] for v in failures.values()]
    for i in (0, len(seqs) // 2, len(seqs) - 1):
        if i < len(cases) and cases[i][0] == "sup":
            res.sample({"op": ops[i], "impl": "|".join(impl[i][0])})
    return res


def replay(payload):
    r = payload.get("replay", payload)
    print(payload.get("what", ""))
    if r.get("op") == "events":
        groups, state = run_events(r["flavour"], r["rt"], r["events"])
        print("events:", r["events"])
        print("impl  :", "|".join(groups), state)
        print("oracle:", judge_events(r["flavour"], r["rt"], r["events"], groups, state))
        print("model :", common.Driver().run([f"SUP {r['flavour']} {r['rt']} {','.join(r['events']) or '-'}"])[0])
    elif r.get("op") == "watchdog":
        if r["kind"] == "sync":
            log, redial = wd_sync_real(r["rt"], r["phase"], r["pump_first"], r["lats"], r["horizon"])
            op = f"WDSYNC {r['rt']} 20 {r['phase']} {1 if r['pump_first'] else 0} {r['horizon']} {lats_wire(r['lats'])}"
        else:
            log, redial = wd_async_real(r["rt"], r["lats"], r["horizon"])
            op = f"WDASYNC {r['rt']} {r['horizon']} {lats_wire(r['lats'])}"
        print("impl  :", show_log(log), "redial", redial)
        print("oracle:", judge_watchdog(r["kind"], r["rt"], r["lats"], r["horizon"], log, redial))
        print("model :", common.Driver().run([op])[0])
    return 0
