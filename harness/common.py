"""Shared pipeline of every check (DESIGN.md section 3.1).

regenerate tables -> build the property's Lean modules -> audit axioms / forbidden tokens
-> corpus + generated cases: correspondence (model driver vs real code) and the property's
own oracle on the real code -> verdict -> evidence.
"""
import fcntl
import glob
import hashlib
import json
import os
import re
import shutil
import subprocess
import sys
import tempfile
import time

VERIF = os.path.dirname(os.path.dirname(os.path.abspath(__file__)))
LEAN = os.path.join(VERIF, "lean")
REPO = os.environ.get("VERIF_REPO", "/repo")
PY = "/venv/bin/python"
ALLOWED_AXIOMS = {"propext", "Classical.choice", "Quot.sound"}
FORBIDDEN = re.compile(
    r"\b(sorry|admit|native_decide|bv_decide|implemented_by|unsafe)\b|^\s*axiom\s|maxHeartbeats 0")

TRUSTED_BASE = [
    "Lean 4.33.0 kernel",
    "axioms: subset of {propext, Classical.choice, Quot.sound} (audited per theorem by #print axioms)",
    "translator tools/gen_tables.py (covered by the C03 correspondence)",
    "correspondence harness under harness/ (real code in-process vs model driver)",
]


def env_lean():
    env = dict(os.environ)
    env.pop("PYTHONPATH", None)
    return env


def sh(cmd, cwd=None, timeout=None, inp=None):
    proc = subprocess.run(cmd, cwd=cwd, capture_output=True, text=True, timeout=timeout,
                          input=inp, env=env_lean())
    return proc.returncode, proc.stdout, proc.stderr


class Lock:
    def __init__(self):
        os.makedirs(os.path.join(LEAN, ".lake"), exist_ok=True)
        self.path = os.path.join(LEAN, ".lake", "verif.lock")

    def __enter__(self):
        self.fh = open(self.path, "w")
        fcntl.flock(self.fh, fcntl.LOCK_EX)
        return self

    def __exit__(self, *a):
        fcntl.flock(self.fh, fcntl.LOCK_UN)
        self.fh.close()


def source_digests():
    """sha256 of every library source file (the command-line front end is outside every property)"""
    out = {}
    root = os.path.join(REPO, "mysensors")
    for dirpath, dirs, files in os.walk(root):
        dirs[:] = [d for d in dirs if d not in ("cli", "__pycache__")]
        for name in files:
            if name.endswith(".py"):
                path = os.path.join(dirpath, name)
                with open(path, "rb") as fh:
                    out[os.path.relpath(path, root)] = hashlib.sha256(fh.read()).hexdigest()
    return out


def changed_sources():
    """Library files whose text differs from the tree this machinery was last run on by its authors
    (spec/source_digests.json).  Used only to spend more search effort on changed code: a difference is
    neither an obligation nor a violation."""
    try:
        with open(os.path.join(VERIF, "spec", "source_digests.json"), encoding="utf-8") as fh:
            base = json.load(fh)
    except (OSError, ValueError):
        return []
    cur = source_digests()
    return sorted(k for k in set(base) | set(cur) if base.get(k) != cur.get(k))


def effort(tier):
    """Multiplier for the number of generated cases: the quick tier explores more when the library text
    differs from the recorded tree (a change is being checked, not the tree we already explored)."""
    if tier == "quick" and changed_sources():
        return max(1, int(os.environ.get("VERIF_CHANGED_EFFORT", "4")))
    return 1


def regenerate():
    rc, out, err = sh([PY, os.path.join(VERIF, "tools", "gen_tables.py")], timeout=120)
    return rc == 0, (out + err).strip()


def lake_build(targets, timeout=1500):
    """Build the given module targets.  Returns (ok, log)."""
    rc, out, err = sh(["lake", "build"] + targets, cwd=LEAN, timeout=timeout)
    return rc == 0, (out + err)


def strip_comments(text):
    text = re.sub(r"/-.*?-/", "", text, flags=re.S)
    text = re.sub(r"--.*", "", text)
    return text


def grep_forbidden(files):
    hits = []
    for f in files:
        try:
            body = strip_comments(open(f, encoding="utf-8").read())
        except OSError:
            continue
        for i, line in enumerate(body.splitlines(), 1):
            if FORBIDDEN.search(line):
                hits.append(f"{os.path.relpath(f, LEAN)}:{i}: {line.strip()[:80]}")
    return hits


def module_sources():
    return [f for f in glob.glob(os.path.join(LEAN, "MySensors", "**", "*.lean"), recursive=True)]


def theorems_in(path):
    """Names of the theorems stated in a property file (namespace-qualified)."""
    names = []
    ns = []
    try:
        text = strip_comments(open(path, encoding="utf-8").read())
    except OSError:
        return names
    for line in text.splitlines():
        m = re.match(r"\s*namespace\s+(\S+)", line)
        if m:
            ns.append(m.group(1))
            continue
        m = re.match(r"\s*end\s+(\S+)", line)
        if m and ns and ns[-1] == m.group(1):
            ns.pop()
            continue
        m = re.match(r"\s*(?:@\[[^\]]*\]\s*)?(?:private\s+|protected\s+)?theorem\s+(\S+)", line)
        if m:
            names.append(".".join(ns + [m.group(1)]))
    return names


def prop_modules(prop):
    """Every Lean module stating theorems of this property: Properties/Cxx.lean, Properties/CxxFoo.lean …"""
    mods = []
    for path in sorted(glob.glob(os.path.join(LEAN, "MySensors", "Properties", f"{prop}*.lean"))):
        mods.append("MySensors.Properties." + os.path.basename(path)[:-5])
    return mods or [f"MySensors.Properties.{prop}"]


def audit_axioms(prop, names):
    """#print axioms for every theorem; returns {name: [axioms] | None (missing)}."""
    if not names:
        return {}
    src = "".join(f"import {m}\n" for m in prop_modules(prop)) + "".join(f"#print axioms {n}\n" for n in names)
    tmpdir = tempfile.mkdtemp(prefix="verif-audit-")
    try:
        path = os.path.join(tmpdir, "Audit.lean")
        with open(path, "w", encoding="utf-8") as fh:
            fh.write(src)
        rc, out, err = sh(["lake", "env", "lean", path], cwd=LEAN, timeout=600)
    finally:
        shutil.rmtree(tmpdir, ignore_errors=True)
    text = out + err
    res = {}
    for n in names:
        m = re.search(r"'" + re.escape(n) + r"' depends on axioms: \[([^\]]*)\]", text, re.S)
        if m:
            res[n] = [a.strip() for a in m.group(1).replace("\n", " ").split(",") if a.strip()]
        elif re.search(r"'" + re.escape(n) + r"' does not depend on any axioms", text):
            res[n] = []
        else:
            res[n] = None
    return res


class Driver:
    """Runs the Lean model driver on a list of protocol lines."""

    def __init__(self):
        self.calls = 0
        self.lines = 0

    def run(self, lines, timeout=900):
        self.calls += 1
        self.lines += len(lines)
        inp = "\n".join(lines) + "\n"
        rc, out, err = sh(["lake", "env", "lean", "--run", "Driver.lean"], cwd=LEAN,
                          timeout=timeout, inp=inp)
        if rc != 0:
            raise RuntimeError("model driver failed: " + (err or out)[-400:])
        res = out.split("\n")
        if res and res[-1] == "":
            res.pop()
        if len(res) != len(lines):
            raise RuntimeError(f"model driver returned {len(res)} lines for {len(lines)} ops")
        return res


def enc_str(s):
    return "-" if s == "" else ",".join(str(ord(c)) for c in s)


def dec_str(w):
    return "" if w == "-" else "".join(chr(int(t)) for t in w.split(","))


def load_known():
    try:
        with open(os.path.join(VERIF, "known_findings.json"), encoding="utf-8") as fh:
            return json.load(fh)
    except FileNotFoundError:
        return {"findings": [], "fixed": []}


def digest(obj):
    return hashlib.sha256(json.dumps(obj, sort_keys=True, default=str).encode()).hexdigest()[:16]


class Result:
    """What a property module reports back to the pipeline."""

    def __init__(self):
        self.evaluations = 0
        self.distinct = set()        # digests of distinct non-trivial cases
        self.rule = ""
        self.samples = []
        self.oracle_failures = []    # dicts: key (structural), what, replay (json-able)
        self.corr_diffs = []         # dicts: name, case, model, impl
        self.traces_validated = 0
        self.histogram = {}
        self.exhaustive = False
        self.extra = {}
        self.assumptions = []

    def count(self, kind, n=1):
        self.histogram[kind] = self.histogram.get(kind, 0) + n

    def sample(self, obj, cap=6):
        if len(self.samples) < cap:
            self.samples.append(obj)


def write_replay(prop, seed, payload):
    os.makedirs(os.path.join(VERIF, "replays"), exist_ok=True)
    path = os.path.join("replays", f"{prop}-{seed}.json")
    with open(os.path.join(VERIF, path), "w", encoding="utf-8") as fh:
        json.dump(payload, fh, indent=1, default=str)
    return path


def run_check(prop, module, tier, seed):
    """The whole pipeline for one property.  Returns the process exit code."""
    t0 = time.time()
    broken = []          # names of obligations / correspondences that no longer check
    ok, log = regenerate()
    if not ok:
        broken.append("translator tools/gen_tables.py failed: " + log[-300:])
    with Lock():
        ok_prop, log_prop = lake_build(prop_modules(prop))
        ok_drv, log_drv = lake_build(["MySensors.Driver.Main"])
    if not ok_prop:
        errs = [l for l in log_prop.splitlines() if "error" in l][:6]
        broken.append(f"lake build MySensors.Properties.{prop} failed: " + " | ".join(errs))
    stated = []
    for prop_file in sorted(glob.glob(os.path.join(LEAN, "MySensors", "Properties", f"{prop}*.lean"))):
        stated += theorems_in(prop_file)
    required = list(getattr(module, "THEOREMS", []))
    names = list(dict.fromkeys(required + stated))
    obligations = len(names)
    discharged = 0
    axioms_seen = set()
    if ok_prop:
        try:
            ax = audit_axioms(prop, names)
        except subprocess.TimeoutExpired:
            ax = {n: None for n in names}
        for n in names:
            a = ax.get(n)
            if a is None:
                broken.append(f"theorem {n} missing or does not elaborate")
            elif not set(a) <= ALLOWED_AXIOMS:
                broken.append(f"theorem {n} depends on axioms {sorted(set(a) - ALLOWED_AXIOMS)}")
            else:
                discharged += 1
                axioms_seen |= set(a)
    hits = grep_forbidden(module_sources())
    for h in hits:
        broken.append("forbidden token: " + h)
    if tier == "thorough" and ok_prop and not os.environ.get("VERIF_SKIP_LEANCHECKER"):
        try:
            rc, out, err = sh(["lake", "env", "leanchecker"] + prop_modules(prop),
                              cwd=LEAN, timeout=1800)
            if rc != 0:
                broken.append("leanchecker rejected the compiled module: " + (out + err)[-300:])
        except subprocess.TimeoutExpired:
            pass
    driver = Driver() if ok_drv else None
    if not ok_drv:
        errs = [l for l in log_drv.splitlines() if "error" in l][:6]
        broken.append("model driver does not build: " + " | ".join(errs))
    try:
        res = module.run(tier=tier, seed=seed, driver=driver)
    except subprocess.TimeoutExpired:
        raise
    except Exception as exc:  # noqa: BLE001  a crashing harness must not look like a pass
        import traceback
        res = Result()
        res.rule = "harness crashed"
        res.evaluations = 1
        broken.append("harness raised " + type(exc).__name__ + ": " + str(exc)[:200] + " | " +
                      traceback.format_exc().splitlines()[-3].strip()[:200])
    for d in res.corr_diffs[:5]:
        broken.append(f"correspondence {d.get('name')} differs on {json.dumps(d.get('case'), default=str)[:300]}: "
                      f"model={str(d.get('model'))[:200]} impl={str(d.get('impl'))[:200]}")
    known = load_known()
    kf = [f for f in known.get("findings", []) if f.get("property") == prop]
    exit_code = 0
    violations = 0
    printed = set()
    unknown = []
    for fail in res.oracle_failures:
        match = next((f for f in kf if f.get("key") == fail.get("key")), None)
        if match is not None:
            if match["key"] and json.dumps(match["key"], sort_keys=True) not in printed:
                printed.add(json.dumps(match["key"], sort_keys=True))
                print(f"KNOWN-FINDING: property={prop} {match.get('what', fail.get('what'))}")
        else:
            unknown.append(fail)
    if unknown:
        violations = len(unknown)
        first = unknown[0]
        path = write_replay(prop, seed, {"property": prop, "kind": "failing-input",
                                         "what": first.get("what"), "key": first.get("key"),
                                         "replay": first.get("replay"),
                                         "also_broken": broken})
        print(f"VIOLATION property={prop} replay={path}")
        exit_code = 1
    elif broken:
        violations = 1
        path = write_replay(prop, seed, {"property": prop, "kind": "no-failing-input-found",
                                         "broken": broken,
                                         "note": "proof obligation or correspondence no longer checks; "
                                                 "the oracle search on the real code found no failing input "
                                                 "within this tier's budget"})
        print(f"VIOLATION property={prop} replay={path} no-failing-input-found")
        exit_code = 1
    wall = time.time() - t0
    coverage = {
        "obligations": max(obligations, 1),
        "discharged": discharged if not broken else min(discharged, max(obligations, 1)),
        "checker_cmd": f"cd lean && lake build MySensors.Properties.{prop} && lake env lean <#print axioms of "
                       f"{obligations} theorems>" + (" && lake env leanchecker" if tier == "thorough" else ""),
        "trusted_base": TRUSTED_BASE + list(getattr(module, "TRUSTED", [])),
        "theorems": names,
        "axioms_used": sorted(axioms_seen),
        "broken": broken,
        "evaluations": res.evaluations,
        "distinct_nontrivial": len(res.distinct),
        "rule": res.rule,
        "samples": res.samples[:6] or ["(none)"],
        "traces_validated_against_impl": res.traces_validated,
        "correspondence_differences": len(res.corr_diffs),
        "oracle_failures": len(res.oracle_failures),
        "known_findings_matched": len(res.oracle_failures) - len(unknown),
        "histogram": res.histogram,
        "exhaustive": res.exhaustive,
        "driver_lines": driver.lines if driver else 0,
    }
    coverage.update(res.extra)
    evidence = {
        "property_id": prop, "tier": tier, "seed": seed, "level": "proof",
        "coverage": coverage,
        "assumptions": list(getattr(module, "ASSUMPTIONS", [])) + res.assumptions,
        "wall_s": round(wall, 2), "violations": violations,
    }
    os.makedirs(os.path.join(VERIF, "evidence"), exist_ok=True)
    with open(os.path.join(VERIF, "evidence", f"{prop}.json"), "w", encoding="utf-8") as fh:
        json.dump(evidence, fh, indent=1, default=str)
    print(f"{prop} tier={tier} seed={seed} theorems={discharged}/{obligations} "
          f"evaluations={res.evaluations} distinct={len(res.distinct)} corr_diffs={len(res.corr_diffs)} "
          f"oracle_failures={len(res.oracle_failures)} wall={wall:.1f}s exit={exit_code}")
    return exit_code
