"""Deterministic cooperative scheduler for real threads (used by C16 and C20).

Exactly one managed thread runs at a time.  A managed thread hands control back to the
controller (the harness thread) by calling ``coop.park(tag)``; the controller lets one thread
run to its next park (or to its end) with ``coop.resume(th)``.  ``park`` called from a thread that
is not managed (the harness thread itself, e.g. while it builds the objects) is a no-op.

Nothing is left running: ``coop.shutdown()`` makes every parked thread raise ``Kill`` (a
BaseException, so ``except Exception`` / ``except OSError`` in the code under test do not catch
it) and joins it; all threads are daemon threads and every wait has a timeout.
"""
import threading


class Kill(BaseException):
    """Raised inside a managed thread to unwind it."""


class HarnessHang(RuntimeError):
    """A managed thread neither parked nor finished within the timeout."""


class CThread:
    def __init__(self, coop, fn, name):
        self.coop = coop
        self.fn = fn
        self.name = name
        self.go = threading.Semaphore(0)
        self.state = "new"          # new | parked | running | done
        self.tag = None             # label it is parked at
        self.info = None
        self.value = None           # value handed over by resume()
        self.kill = False
        self.exc = None             # exception that ended the thread (not Kill)
        self.trace = []             # tags performed, in order
        self.thread = threading.Thread(target=self._main, name=name, daemon=True)
        self.ident = None

    def _main(self):
        self.ident = threading.get_ident()
        self.coop.by_ident[self.ident] = self
        self.go.acquire()
        try:
            if not self.kill:
                self.state = "running"
                self.fn()
        except Kill:
            pass
        except BaseException as exc:  # noqa: BLE001 - recorded, compared with the model
            self.exc = exc
        finally:
            self.state = "done"
            self.coop.by_ident.pop(self.ident, None)
            self.coop.ctl.release()

    @property
    def done(self):
        return self.state == "done"

    @property
    def status(self):
        if self.state != "done":
            return "run"
        return "ret" if self.exc is None else type(self.exc).__name__


class Coop:
    def __init__(self, timeout=10.0):
        self.timeout = timeout
        self.threads = []
        self.by_ident = {}
        self.ctl = threading.Semaphore(0)
        self.trace = []             # (thread name, tag) in execution order

    # -- controller side -------------------------------------------------------------
    def spawn(self, fn, name):
        th = CThread(self, fn, name)
        self.threads.append(th)
        th.thread.start()
        return th

    def resume(self, th, value=None):
        """Let `th` run until it parks again or ends."""
        if th.done:
            return
        th.value = value
        if th.state == "parked" and th.tag is not None:
            th.trace.append(th.tag)
            self.trace.append((th.name, th.tag))
        th.go.release()
        if not self.ctl.acquire(timeout=self.timeout):
            raise HarnessHang(f"thread {th.name} did not yield (state {th.state}, tag {th.tag})")

    def prime(self, th):
        """Run the thread-local prefix of a new thread up to its first park."""
        if th.state == "new":
            self.resume(th)

    def shutdown(self):
        for th in self.threads:
            if not th.done:
                th.kill = True
                th.go.release()
                self.ctl.acquire(timeout=self.timeout)
        for th in self.threads:
            th.thread.join(timeout=self.timeout)
        alive = [th.name for th in self.threads if th.thread.is_alive()]
        if alive:
            raise HarnessHang(f"threads still alive after shutdown: {alive}")

    # -- managed-thread side ---------------------------------------------------------
    def current(self):
        return self.by_ident.get(threading.get_ident())

    def park(self, tag, info=None):
        th = self.current()
        if th is None:
            return None
        th.tag = tag
        th.info = info
        th.state = "parked"
        self.ctl.release()
        th.go.acquire()
        if th.kill:
            raise Kill()
        th.state = "running"
        return th.value
