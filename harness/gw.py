"""Real-code runner, observation projections and history generator for the gateway family
(C01, C04-C08, C10, C14 share it; each property compares only its own projection).

Ops (tuples):
  ("L", text)                         inbound line through tasks.add_job(gateway.logic, text)
  ("S", node, child, vtype, value, ack)   gateway.set_child_value(...)
  ("U", nids, fw_type, fw_ver, image|None) Gateway.update_fw(...) with the image written as an Intel HEX file
  ("F", nids, fw_type, fw_ver, text|None)  Gateway.update_fw(...) with a file of this content (None: no such file)
  ("T", secs)                         set the clock used by the time handler
  ("M", 0|1)                          gateway.metric
  ("K",)                              periodic save tick (persistence.save_sensors())
  ("X",)                              stop(): final save
  ("R",)                              restart: fresh gateway, start_persistence() on the same file
"""
import os
import random
import shutil
import tempfile
import time

from .common import enc_str

VERSIONS = ["1.4", "1.5", "2.0", "2.1", "2.2"]


class FakeTransport:
    """Records what the pump hands to transport.send (Transport.send drops falsy replies)."""

    def __init__(self):
        self.log = []
        self.can_log = False
        self.protocol = None
        self.connect_task = None
        self.on_disconnect = None
        self.disconnects = 0

    def send(self, message):
        if not message:
            return
        self.log.append(message)

    def disconnect(self):
        self.disconnects += 1
        hook, self.on_disconnect = self.on_disconnect, None
        if hook is not None:
            hook()

    def connect(self):
        pass


class ConnCapture:
    """what protocol.transport is for a connected gateway: records what is written"""

    def __init__(self, log):
        self.log = log
        self.closed = False

    def write(self, data):
        if self.closed:
            raise OSError(9, "Bad file descriptor")
        self.log.append(bytes(data).decode("utf-8", "surrogateescape"))

    def close(self):
        self.closed = True

    def is_closing(self):
        return self.closed


def exc_kind(exc):
    import struct
    import voluptuous as vol
    if isinstance(exc, vol.Invalid):
        return "VolInvalid"
    for cls, name in ((KeyError, "KeyError"), (AttributeError, "AttributeError"),
                      (struct.error, "StructError"), (ValueError, "ValueError"),
                      (TypeError, "TypeError"), (OSError, "OSError")):
        if isinstance(exc, cls):
            return name
    return "Other:" + type(exc).__name__


def opt(v, f=str):
    return "None" if v is None else f(v)


def project_sensors(sensors):
    """Canonical text of the node/child/value tree including transient smart-sleep state."""
    out = []
    for sid, s in sensors.items():
        ch = []
        for cid, c in s.children.items():
            vals = ",".join(f"{k}={enc_str(str(v))}" for k, v in c.values.items())
            ch.append(f"{cid}:{opt(c.type)}:{enc_str(c.description)}:V({vals})")
        ds = []
        for cid, c in s.new_state.items():
            vals = ",".join(f"{k}={opt(v, lambda x: enc_str(str(x)))}" for k, v in c.values.items())
            ds.append(f"{cid}:V({vals})")
        q = ";".join(enc_str(x if isinstance(x, str) else str(x)) for x in s.queue)
        out.append(
            f"N{sid}{{t={opt(s.type)},sn={opt(s.sketch_name, enc_str)},sv={opt(s.sketch_version, enc_str)},"
            f"b={s.battery_level},v={enc_str(s.protocol_version)},h={s.heartbeat},r={int(bool(s.reboot))},"
            f"C[{';'.join(ch)}],D[{';'.join(ds)}],Q[{q}]}}")
    return " ".join(out) if out else "-"


def project_persisted(sensors):
    """Only what persistence is meant to keep."""
    out = []
    for sid, s in sensors.items():
        ch = []
        for cid, c in s.children.items():
            vals = ",".join(f"{k}={enc_str(str(v))}" for k, v in c.values.items())
            ch.append(f"{cid}:{opt(c.type)}:{enc_str(c.description)}:V({vals})")
        out.append(
            f"N{sid}{{t={opt(s.type)},sn={opt(s.sketch_name, enc_str)},sv={opt(s.sketch_version, enc_str)},"
            f"b={s.battery_level},v={enc_str(s.protocol_version)},h={s.heartbeat},C[{';'.join(ch)}]}}")
    return " ".join(out) if out else "-"


def project_ota(ota):
    def store(d):
        return ",".join(f"{n}:{t}:{v}" for n, (t, v) in sorted(d.items()))
    fw = ",".join(f"{t}:{v}:{f['blocks']}:{f['crc']}" for (t, v), f in sorted(ota.firmware.items()))
    return f"req=({store(ota.requested)}) unst=({store(ota.unstarted)}) st=({store(ota.started)}) fw=({fw})"


class Obs:
    __slots__ = ("sent", "cbs", "exc", "state", "ota", "need_save", "cb_state_ok", "ret", "tree", "canlog")

    def __init__(self):
        self.sent = []
        self.cbs = []
        self.exc = None
        self.state = ""
        self.ota = ""
        self.need_save = "-"
        self.cb_state_ok = True
        self.ret = None
        self.tree = ""
        self.canlog = False

    def line(self):
        """The canonical observation line compared with the model driver."""
        sent = "|".join(enc_str(s) for s in self.sent) or "-"
        cbs = "|".join(f"{n}:{c}:{t}:{a}:{s}:{enc_str(p)}" for (n, c, t, a, s, p) in self.cbs) or "-"
        return f"sent={sent} cb={cbs} exc={self.exc or 'none'} ns={self.need_save} st={self.state} ota={self.ota}"


_HEX_TEXT = {}


def fw_file_text(image):
    """The Intel HEX file the intelhex library writes for `image` (bytes), as text."""
    if image not in _HEX_TEXT:
        import io
        from intelhex import IntelHex
        ihex = IntelHex()
        ihex.frombytes(image)
        buf = io.StringIO()
        ihex.write_hex_file(buf)
        if len(_HEX_TEXT) > 512:
            _HEX_TEXT.clear()
        _HEX_TEXT[image] = buf.getvalue()
    return _HEX_TEXT[image]


def goes_through_file(image):
    return isinstance(image, bytes) and len(image) <= 8192


def file_as_update(op):
    """An ("F", nids, type, version, text | None) op — Gateway.update_fw with a file of that content (None:
    an unreadable path) — as the ("U", ...) op it amounts to, judged with the intelhex library itself, or
    None when the call must have no effect (unreadable, rejected by the library, no data)."""
    _, nids, fwt, fwv, text = op
    if text is None:
        return None
    import io
    from intelhex import IntelHex, IntelHexError
    try:
        ihex = IntelHex()
        ihex.fromfile(io.StringIO(text), format="hex")
        data = ihex.tobinstr()
    except (IntelHexError, TypeError, ValueError):
        return None
    if not data:
        return None
    return ("U", nids, fwt, fwv, bytes(data))


_FW_DIR = []


def fw_path_of(gw):
    """the path this gateway's user keeps the firmware file at: the same string for every update of one gateway
    (a sketch rebuilt to the same output path), a different one per gateway"""
    import atexit
    import shutil
    if not _FW_DIR:
        _FW_DIR.append(tempfile.mkdtemp(prefix="verif-fw-"))
        atexit.register(shutil.rmtree, _FW_DIR[0], True)
    if "_verif_fw_path" not in gw.__dict__:
        gw.__dict__["_verif_fw_path"] = os.path.join(_FW_DIR[0], f"fw-{len(os.listdir(_FW_DIR[0]))}-{id(gw):x}", "firmware.hex")
        os.makedirs(os.path.dirname(gw.__dict__["_verif_fw_path"]))
    return gw.__dict__["_verif_fw_path"]


def real_update_file(gw, nids, fwt, fwv, text):
    """Gateway.update_fw with a firmware file of this content (None: a path that does not exist)."""
    import asyncio
    path = fw_path_of(gw)
    if text is not None:
        with open(path, "w", encoding="utf-8", newline="") as fh:
            fh.write(text)
    try:
        if asyncio.iscoroutinefunction(gw.update_fw):
            loop = asyncio.new_event_loop()
            try:
                loop.run_until_complete(gw.update_fw(nids, fwt, fwv, fw_path=path))
                loop.run_until_complete(loop.shutdown_default_executor())
            finally:
                loop.close()
        else:
            gw.update_fw(nids, fwt, fwv, fw_path=path)
    finally:
        if text is not None:
            os.unlink(path)


def real_update_fw(gw, nids, fwt, fwv, image):
    """A firmware update requested the way a user does it: Gateway.update_fw -> Tasks.update_fw -> load_fw
    (Intel HEX file written with the intelhex library) -> OTAFirmware.make_update.  An image that is not a
    non-empty byte string of moderate size cannot be handed over as a file and goes to make_update directly."""
    import asyncio
    path = None
    if image is not None:
        if not goes_through_file(image):
            gw.tasks.ota.make_update(nids, fwt, fwv, image)
            return
        # an image of no bytes is a syntactically valid file without data (just the end-of-file record):
        # update_fw must treat it as "no firmware" and do nothing
        path = fw_path_of(gw)
        with open(path, "w", encoding="utf-8", newline="") as fh:
            fh.write(fw_file_text(image))
    try:
        if asyncio.iscoroutinefunction(gw.update_fw):
            loop = asyncio.new_event_loop()
            try:
                loop.run_until_complete(gw.update_fw(nids, fwt, fwv, fw_path=path))
                loop.run_until_complete(loop.shutdown_default_executor())
            finally:
                loop.close()
        else:
            gw.update_fw(nids, fwt, fwv, fw_path=path)
    finally:
        if path is not None:
            os.unlink(path)


def real_stop(gw):
    """Gateway.stop() as a user calls it (Tasks.stop: disconnect, stop the pump, final save)."""
    import asyncio
    if asyncio.iscoroutinefunction(gw.stop):
        loop = asyncio.new_event_loop()
        try:
            loop.run_until_complete(gw.stop())
            loop.run_until_complete(loop.shutdown_default_executor())
        finally:
            loop.close()
    else:
        gw.stop()


class RealGW:
    """Runs ops on the real library, inline pump (the asyncio flavour's add_job)."""

    def __init__(self, version="2.2", kind="base", persist="none", workdir=None, raising_cb=False,
                 in_prefix="", out_prefix=""):
        self.version = version
        # "<kind>-nocb": the same gateway constructed without an event callback (the keyword is optional)
        self.nocb = kind.endswith("-nocb")
        kind = kind[:-5] if self.nocb else kind
        if kind.endswith("-raisecb"):
            # "<kind>-raisecb": the user's event callback raises on every call (the gateway logs it and carries on)
            kind = kind[:-8]
            raising_cb = True
        self.kind = kind
        self.persist = persist
        self.workdir = workdir
        self.raising_cb = raising_cb
        self.in_prefix = in_prefix
        self.out_prefix = out_prefix
        self.clock = 0
        self.pubs = []
        self.subs = []
        self._cur = None
        self._make()

    # -- construction -------------------------------------------------------------------
    def _callback(self, msg):
        cur = self._cur
        payload = msg.payload if isinstance(msg.payload, str) else str(msg.payload)
        cur.cbs.append((int(msg.node_id), int(msg.child_id), int(msg.type), int(msg.ack),
                        int(msg.sub_type), payload))
        cur.ret = project_persisted(self.gw.sensors)
        if self.raising_cb:
            raise RuntimeError("callback raised")

    def _make(self):
        import mysensors
        from mysensors import BaseAsyncGateway
        kwargs = dict(event_callback=self._callback, protocol_version=self.version)
        if self.nocb:
            del kwargs["event_callback"]
        if self.persist != "none":
            kwargs["persistence"] = True
            kwargs["persistence_file"] = os.path.join(self.workdir, "state." + self.persist)
        self.transport = FakeTransport()
        if self.kind == "mqtt":
            from mysensors.gateway_mqtt import AsyncMQTTGateway

            def pub(topic, payload, qos, retain):
                self.pubs.append((topic, payload, qos, retain))
                self.transport.log.append(self._mqtt_line(topic, payload, qos))

            def sub(topic, cb, qos):
                self.subs.append((topic, qos))
            self.gw = AsyncMQTTGateway(pub, sub, in_prefix=self.in_prefix, out_prefix=self.out_prefix,
                                       **kwargs)
        elif self.kind == "tcp":
            from mysensors.gateway_tcp import AsyncTCPGateway
            self.gw = AsyncTCPGateway("127.0.0.1", **kwargs)
            # the gateway keeps its real AsyncTransport: Transport.send / disconnect decide what reaches the
            # connection object, which records the bytes written (as the text they encode)
            self.gw.tasks.transport.protocol.transport = ConnCapture(self.transport.log)
        else:
            self.gw = BaseAsyncGateway(self.transport, **kwargs)
        del mysensors

    def apply_line_during_stop(self, lop, xop):
        """The pump handles one more line at the moment stop() reaches transport.disconnect() (the
        connection is still up, so its reply goes out); stop() then carries on.  Observations are
        those of the line and of the stop, in that order."""
        got = []

        def hook():
            got.append(self.apply(lop))
            self._resume = len(self.transport.log)
        real_transport = self.gw.tasks.transport      # the fake one, or the MQTT transport
        orig = real_transport.disconnect

        def disconnect():
            del real_transport.disconnect
            hook()
            return orig()
        real_transport.disconnect = disconnect
        try:
            obs_stop = self.apply(xop)
        finally:
            real_transport.__dict__.pop("disconnect", None)
        if not got:
            missing = Obs()
            missing.exc = "StopDidNotDisconnect"
            missing.state = obs_stop.state
            missing.tree = obs_stop.tree
            missing.ota = obs_stop.ota
            missing.need_save = obs_stop.need_save
            got.append(missing)
        return [got[0], obs_stop]

    def _mqtt_line(self, topic, payload, qos):
        # what was published, as the equivalent command line (for a uniform sent-log)
        levels = topic[len(self.out_prefix):].split("/")[1:]
        return ";".join(levels + [payload]) + "\n"

    # -- ops -----------------------------------------------------------------------------
    def apply(self, op):
        import mysensors.handler as handler
        obs = Obs()
        self._cur = obs
        before = len(self.transport.log)
        self._resume = 0
        kind = op[0]
        orig_localtime = handler.time.localtime
        handler.time.localtime = lambda *a: time.gmtime(self.clock)
        try:
            if kind == "L":
                self.gw.tasks.add_job(self.gw.logic, op[1])
            elif kind == "S":
                _, node, child, vtype, value, ack = op
                if ack is None:
                    self.gw.set_child_value(node, child, vtype, value)
                else:
                    self.gw.set_child_value(node, child, vtype, value, ack=ack)
            elif kind == "U":
                _, nids, fwt, fwv, image = op
                real_update_fw(self.gw, list(nids) if isinstance(nids, (list, tuple)) else nids,
                               fwt, fwv, image)
            elif kind == "F":
                _, nids, fwt, fwv, text = op
                real_update_file(self.gw, list(nids), fwt, fwv, text)
            elif kind == "T":
                self.clock = op[1]
            elif kind == "M":
                self.gw.metric = bool(op[1])
            elif kind == "K":
                if self.gw.tasks.persistence:
                    self.gw.tasks.persistence.save_sensors()
            elif kind == "X":
                real_stop(self.gw)
            elif kind == "R":
                self._make()
                if self.gw.tasks.persistence:
                    self.gw.tasks.persistence.safe_load_sensors()
                before = 0
            else:
                raise AssertionError("bad op " + repr(op))
        except Exception as exc:  # noqa: BLE001
            obs.exc = exc_kind(exc)
        finally:
            handler.time.localtime = orig_localtime
        obs.sent = list(self.transport.log[max(before, self._resume):])
        obs.state = project_sensors(self.gw.sensors)
        obs.tree = project_persisted(self.gw.sensors)
        obs.canlog = bool(self.gw.can_log)
        if obs.ret is not None and obs.ret != obs.tree:
            obs.cb_state_ok = False
        obs.ota = project_ota(self.gw.tasks.ota)
        pers = self.gw.tasks.persistence
        obs.need_save = "-" if pers is None else str(int(bool(pers.need_save)))
        self._cur = None
        return obs


def run_history(hist, version, kind="base", persist="none", raising_cb=False, in_prefix="", out_prefix=""):
    workdir = tempfile.mkdtemp(prefix="verif-gw-") if persist != "none" else None
    try:
        gw = RealGW(version, kind, persist, workdir, raising_cb, in_prefix, out_prefix)
        obs, i = [], 0
        while i < len(hist):
            if hist[i][0] == "L" and i + 1 < len(hist) and hist[i + 1][0] == "X":
                # the last line before a stop is handled while stop() is already running (see
                # apply_line_during_stop): a legal schedule with the same meaning as line-then-stop
                obs.extend(gw.apply_line_during_stop(hist[i], hist[i + 1]))
                i += 2
            else:
                obs.append(gw.apply(hist[i]))
                i += 1
        return obs, gw
    finally:
        if workdir:
            shutil.rmtree(workdir, ignore_errors=True)


# ------------------------------------------------------------------------------------------
# wire format of ops for the Lean driver
# ------------------------------------------------------------------------------------------

def op_wire(op):
    k = op[0]
    if k == "L":
        return "L " + enc_str(op[1])
    if k == "S":
        _, node, child, vtype, value, ack = op
        vt = f"i{vtype}" if isinstance(vtype, int) else "s" + enc_str(str(vtype))
        return f"S {node} {child} {vt} {enc_str(value)} {'-' if ack is None else ack}"
    if k == "U":
        _, nids, fwt, fwv, image = op
        nid = ",".join(map(str, nids)) if nids else "-"
        if image is None:
            return f"UF {nid} {fwt} {fwv} ~"           # update_fw without a path
        if goes_through_file(image):
            # the model is given the text of the file the real call reads (Model/UpdateFw.lean)
            return f"UF {nid} {fwt} {fwv} " + enc_str(fw_file_text(image))
        return f"U {nid} {fwt} {fwv} " + (image.hex() or "e")
    if k == "F":
        _, nids, fwt, fwv, text = op
        nid = ",".join(map(str, nids)) if nids else "-"
        return f"UF {nid} {fwt} {fwv} " + ("!" if text is None else enc_str(text))
    if k == "T":
        return f"T {op[1]}"
    if k == "M":
        return f"M {op[1]}"
    return k


def gw_wire(version, kind, persist):
    kind = kind[:-5] if kind.endswith("-nocb") else kind      # the model has no callback to omit
    kind = kind[:-8] if kind.endswith("-raisecb") else kind
    return f"G {version} {kind} {persist}"


# ------------------------------------------------------------------------------------------
# history generator, driven by a symbolic picture of the network
# ------------------------------------------------------------------------------------------

def const_for(version):
    from mysensors.const import get_const
    return get_const(version)


class Sym:
    """What the generator believes about the network (only to steer choices)."""

    def __init__(self):
        self.nodes = {}       # id -> {"children": {cid: type}, "values": {(cid, vt)}, "sleep": bool, "ota": stage}


PAYLOAD_POOL = ["1", "0", "42", "21.5", "on", "", "Off", "HeatOn", "ff00ff", "ff00ff80", "55.7,12.5,8",
                "100", "101", "-1", "hello world", "ünï", "a,b", "x" * 30, "١٢", " 7", "1_0", "50.5",
                "1e2", "nan", "AutoChangeOver", "Auto", "stable", "1e999", "inf", "-Infinity", "1e-400", "٥٠"]


_SCHEMAS = {}
_SPEC = []


def valid_payload_for(rng, const, mtype, sub):
    """A payload from the pool that satisfies the rule of (mtype, sub), judged by voluptuous itself."""
    import voluptuous as vol
    key = (const.__name__, int(mtype), int(sub))
    if key not in _SCHEMAS:
        rule = const.VALID_PAYLOADS.get(int(mtype), {}).get(int(sub), "")
        good = []
        schema = vol.Schema(rule)
        for p in PAYLOAD_POOL:
            try:
                schema(p)
                good.append(p)
            except Exception:  # noqa: BLE001  (vol.Invalid, or an internal error of a broken validator)
                pass
        _SCHEMAS[key] = good or [""]
    return rng.choice(_SCHEMAS[key])


def gen_history(rng, version, n, persist=False, ota=True, sleep=True, malformed=0.25, bias=None):
    """A mostly-valid, state-aware history of n ops."""
    const = const_for(version)
    mt = const.MessageType
    internal = const.Internal
    setreq = list(const.SetReq)
    pres = list(const.Presentation)
    v2 = version >= "2.0"
    sym = Sym()
    node_pool = [1, 2, 3, 0, 254, 255, 7]
    child_pool = [0, 1, 2, 5, 254]
    hist = []
    images = [bytes([rng.randrange(256) for _ in range(k)]) for k in (1, 17, 128, 200)]

    def line(node, child, typ, ack, sub, payload):
        return ("L", f"{node};{child};{int(typ)};{ack};{int(sub)};{payload}\n")

    def known_node():
        return rng.choice(list(sym.nodes)) if sym.nodes and rng.random() < 0.85 else rng.choice(node_pool)

    def known_child(node):
        ch = sym.nodes.get(node, {}).get("children", {})
        return rng.choice(list(ch)) if ch and rng.random() < 0.85 else rng.choice(child_pool)

    for _ in range(n):
        r = rng.random()
        if r < malformed:
            hist.append(("L", gen_malformed(rng, version, sym)))
            continue
        kind = rng.choices(
            ["pres_node", "pres_child", "set", "req", "idreq", "internal", "wake", "ctl_set", "update",
             "stream", "clock", "metric", "save", "restart"],
            weights=[w * (bias or {}).get(k, 1) for k, w in zip(
                ["pres_node", "pres_child", "set", "req", "idreq", "internal", "wake", "ctl_set", "update",
                 "stream", "clock", "metric", "save", "restart"],
                [8, 12, 18, 8, 4, 10, 10 if (v2 and sleep) else 0, 12, 5 if ota else 0, 8 if ota else 0,
                 2, 1, 4 if persist else 0, 2 if persist else 0])])[0]
        if kind == "pres_node":
            node = rng.choice(node_pool)
            typ = rng.choice([const.Presentation.S_ARDUINO_NODE, const.Presentation.S_ARDUINO_RELAY])
            pv = rng.choice(VERSIONS + ["2.0.0", "2.3", "1.4.1", version, version])
            hist.append(line(node, 255, mt.presentation, 0, typ, pv))
            if node <= 255:
                sym.nodes.setdefault(node, {"children": {}, "values": set(), "sleep": False, "ota": None})
        elif kind == "pres_child":
            node = known_node()
            child = rng.choice(child_pool)
            typ = rng.choice(pres)
            known_children = sym.nodes.get(node, {}).get("children", {})
            if known_children and rng.random() < 0.35:
                # re-presentation of an existing child: same type (other description) or another type
                child = rng.choice(list(known_children))
                if rng.random() < 0.6:
                    typ = known_children[child]
            hist.append(line(node, child, mt.presentation, 0, typ,
                             rng.choice(["", "desc", "ünï cöde", "a b", "kitchen", "garage"])))
            if node in sym.nodes:
                sym.nodes[node]["children"].setdefault(child, typ)
        elif kind == "set":
            node = known_node()
            child = known_child(node)
            sub = rng.choice(setreq)
            p = valid_payload_for(rng, const, int(mt.set), sub)
            hist.append(line(node, child, mt.set, rng.choice([0, 0, 1]), sub, p))
            if node in sym.nodes and child in sym.nodes[node]["children"]:
                sym.nodes[node]["values"].add((child, int(sub)))
        elif kind == "req":
            node = known_node()
            child = known_child(node)
            vals = [vt for (c, vt) in sym.nodes.get(node, {}).get("values", ()) if c == child]
            sub = rng.choice(vals) if vals and rng.random() < 0.8 else int(rng.choice(setreq))
            hist.append(line(node, child, mt.req, 0, sub, ""))
        elif kind == "idreq":
            hist.append(line(255, rng.choice([255, 255, 0, 7]), mt.internal, 0, internal.I_ID_REQUEST, ""))
        elif kind == "internal":
            node = known_node()
            names = ["I_BATTERY_LEVEL", "I_SKETCH_NAME", "I_SKETCH_VERSION", "I_CONFIG", "I_TIME",
                     "I_LOG_MESSAGE", "I_GATEWAY_READY", "I_VERSION", "I_CHILDREN", "I_INCLUSION_MODE"]
            if v2:
                names += ["I_DISCOVER_RESPONSE", "I_HEARTBEAT_RESPONSE", "I_PONG", "I_LOCKED"]
            if version >= "2.2":
                names += ["I_POST_SLEEP_NOTIFICATION", "I_SIGNAL_REPORT_RESPONSE"]
            sub = internal[rng.choice(names)]
            p = valid_payload_for(rng, const, int(mt.internal), sub)
            hist.append(line(node, 255, mt.internal, 0, sub, p))
        elif kind == "wake":
            node = known_node()
            sub = internal.I_PRE_SLEEP_NOTIFICATION if version >= "2.2" else internal.I_HEARTBEAT_RESPONSE
            hist.append(line(node, 255, mt.internal, 0, sub, wake_payload(rng)))
            if node in sym.nodes and sym.nodes[node]["children"]:
                sym.nodes[node]["sleep"] = True
        elif kind == "ctl_set":
            node = known_node()
            child = known_child(node)
            vals = [vt for (c, vt) in sym.nodes.get(node, {}).get("values", ()) if c == child]
            sub = rng.choice(vals) if vals and rng.random() < 0.7 else int(rng.choice(setreq))
            if rng.random() < 0.05:
                sub = rng.choice([str(sub), 999, -1])
            if rng.random() < 0.12:
                p = ""      # falsy but legal for free-text value types
            elif rng.random() < 0.8:
                p = valid_payload_for(rng, const, int(mt.set), sub if isinstance(sub, int) and
                                      sub in [int(x) for x in setreq] else int(setreq[0]))
            else:
                p = rng.choice(PAYLOAD_POOL + ["a;b", "x\ny"])
            hist.append(("S", node, child, sub, p, rng.choice([None, None, 0, 1, 2])))
        elif kind == "update":
            nids = [known_node() for _ in range(rng.choice([1, 1, 2]))]
            fwt, fwv = rng.choice([(1, 1), (1, 2), (2, 1), (65535, 65535), (70000, 1), (1, -1)])
            img = rng.choice(images) if rng.random() < 0.8 else rng.choice([None, None, None, b""])
            if img and rng.random() < 0.25:
                hist.append(("F", nids, fwt, fwv, damaged_file(rng, img)))
            else:
                hist.append(("U", nids, fwt, fwv, img))
        elif kind == "stream":
            node = known_node()
            hist.append(("L", gen_stream(rng, const, node)))
        elif kind == "clock":
            hist.append(("T", rng.choice([0, 1, 1700000000, 2 ** 31, 4102444800, 86399])))
        elif kind == "metric":
            hist.append(("M", rng.choice([0, 1])))
        elif kind == "save":
            hist.append(("K",))
        elif kind == "restart":
            hist.append(("X",))
            hist.append(("R",))
            sym = Sym() if False else sym
            for nd in sym.nodes.values():
                nd["sleep"] = False
    return hist


def text_echo_burst(rng, version, hist):
    """A node reports free-text values holding characters outside ASCII (and other exotic text) and then asks for
    them: the reply carries the text back out through the transport, whatever its alphabet."""
    if rng.random() < 0.5:
        return hist
    node = rng.choice([1, 3, 9])
    child = rng.choice([0, 2, 7])
    texts = ["21.5 °C", "grüß dich", "漢字", "\U0001F600", "naïve café", "Ωμέγα", "tab\tsep", "a\u00a0b", "é" * 40]
    script = [("L", f"{node};255;0;0;17;{version}\n"), ("L", f"{node};{child};0;0;23;custom\n")]
    for vt in rng.sample([24, 25, 26, 27, 28], 2):
        t = rng.choice(texts)
        script += [("L", f"{node};{child};1;0;{vt};{t}\n"), ("L", f"{node};{child};2;0;{vt};\n")]
    if rng.random() < 0.5:
        script.append(("S", node, child, 24, rng.choice(texts), None))
    out = list(hist)
    pos = rng.randrange(len(out) + 1)
    while pos < len(out) and out[pos][0] == "R":
        pos += 1
    return out[:pos] + script + out[pos:]


def separator_value_burst(rng, version, hist):
    """The controller stores text holding the field separator (or a line break) as the desired value of a sleeping
    node's child; the node then asks for that value and wakes up.  No inbound line can carry such text, a
    controller call can: handling the node's request and the wake-up must not raise."""
    if version in ("1.4", "1.5") or rng.random() < 0.6:
        return hist
    node, child = rng.choice([1, 4, 8]), rng.choice([0, 3])
    wake = f"{node};255;3;0;{32 if version == '2.2' else 22};7\n"
    vt = rng.choice([47, 24, 25])
    text = rng.choice(["line one;line two", "a;b;c", ";", "x\ny", "1;2;3;0;4;5"])
    script = [("L", f"{node};255;0;0;17;{version}\n"), ("L", f"{node};{child};0;0;36;info\n"),
              ("L", f"{node};{child};1;0;{vt};hello\n"), ("L", wake),
              ("S", node, child, vt, text, None), ("L", f"{node};{child};2;0;{vt};\n"), ("L", wake)]
    out = list(hist)
    pos = rng.randrange(len(out) + 1)
    return out[:pos] + script + out[pos:]


def near_valid_reports(rng, version, hist):
    """reports from presented children whose payload comes from the boundary corpus of the value type's rule
    (C03's): accepted ones are stored and answered on request, rejected ones change nothing"""
    from . import c03
    if rng.random() > 0.5:
        return hist
    if not _SPEC:
        _SPEC.append(c03.load_spec())
    sets = _SPEC[0]["versions"][version]["commands"]["1"]["sub_types"]
    typed = [int(k) for k, row in sets.items() if not str(row["rule"]).startswith("text")]
    kids = [(i, op[1].split(";")[0], op[1].split(";")[1]) for i, op in enumerate(hist)
            if op[0] == "L" and op[1].count(";") == 5 and op[1].split(";")[2] == "0" and op[1].split(";")[1] != "255"]
    out = list(hist)
    for i, node, child in sorted(rng.sample(kids, min(3, len(kids))), reverse=True):
        sub = rng.choice(typed)
        payload = rng.choice(c03.class_corpus(sets[str(sub)]["rule"]))
        if ";" in payload or "\n" in payload or len(payload) > 200:
            continue
        k = rng.randrange(i + 1, len(out) + 1)
        while k < len(out) and out[k][0] == "R":
            k += 1
        out[k:k] = [("L", f"{node};{child};1;0;{sub};{payload}\n"), ("L", f"{node};{child};2;0;{sub};\n")]
    return out


def wake_payload(rng):
    """what a node puts into its heartbeat response / pre-sleep notification: a counter or a duration in ms,
    any integer including 0"""
    return rng.choice(["0", "0", "1", "7", "500", str(rng.randrange(1000)), str(rng.randrange(1000)), "65535",
                       "86400000", "4294967295"])


def pending_pair_burst(rng, version, hist):
    """Weave one scripted smart-sleep episode into a history (protocol >= 2.0): a dimmer child reports two
    value types, the node announces sleep, the controller sets BOTH types, the node then reports only one of
    them (possibly the same value again), asks for the other, and wakes up once or twice.  What is pending
    for the type that was not reported must still be answered and delivered."""
    if version in ("1.4", "1.5") or rng.random() < 0.25:
        return hist
    node = rng.choice([1, 2, 7, 42])
    child = rng.choice([0, 1, 5])
    wake = f"{node};255;3;0;{32 if version == '2.2' else 22};{wake_payload(rng)}\n"
    a, b = rng.choice([(2, 3), (3, 2)])
    val = {2: lambda: rng.choice(["0", "1"]), 3: lambda: str(rng.randrange(101))}
    first = {2: val[2](), 3: val[3]()}
    script = [("L", f"{node};255;0;0;17;{rng.choice([version, version, '2.0', '1.5'])}\n"),
              ("L", f"{node};{child};0;0;4;dimmer\n"),
              ("L", f"{node};{child};1;0;{a};{first[a]}\n")]
    if rng.random() < 0.6:
        script.append(("L", f"{node};{child};1;0;{b};{first[b]}\n"))     # else: type b is never reported by the node
    script += [
              ("L", wake),
              ("S", node, child, a, val[a](), rng.choice([None, 0, 1])),
              ("S", node, child, b, val[b](), None),
              ("L", f"{node};{child};1;0;{a};{rng.choice([first[a], val[a]()])}\n"),
              ("L", f"{node};{child};2;0;{b};\n"),
              ("L", wake)]
    if rng.random() < 0.5:
        script += [("L", f"{node};{child};2;0;{a};\n"), ("L", wake)]
    if rng.random() < 0.35:
        # many replies withheld for one sleep period (no bound on how many may wait), then the wake-up
        n = rng.choice([9, 12, 17, 33, 70])
        script += [("L", f"{node};{child};2;0;{rng.choice([a, b])};\n") for _ in range(n)] + [("L", wake)]
    out = list(hist)
    pos = rng.randrange(len(out) + 1)
    for op in script:
        out.insert(pos, op)
        pos = rng.randrange(pos + 1, min(len(out), pos + 3) + 1)
    return out


def damaged_file(rng, image):
    """Firmware files a user can name: the good file, an unreadable path, and the good file damaged."""
    text = fw_file_text(image)
    lines = text.split("\n")
    r = rng.random()
    if r < 0.15:
        return text
    if r < 0.3:
        return None                                           # no such file
    if r < 0.4:
        return rng.choice(["", "\n", "hello world\n", ":00000001FF\n", ":0000000000\n", "\ufeff" + text])
    if r < 0.55:
        k = rng.randrange(1, len(text))
        return text[:k] + rng.choice("0123456789ABCDEFG:xz \n") + text[k + 1:]      # one character changed
    if r < 0.7:
        return text[:rng.randrange(len(text))]                                      # truncated
    if r < 0.8:
        return "\n".join(lines[:-2]) + "\n"                                        # end-of-file record missing
    if r < 0.9:
        return text.replace("\n", "\r\n") if rng.random() < 0.5 else text.lower()
    k = rng.randrange(len(lines))
    return "\n".join(lines[:k] + [lines[rng.randrange(len(lines))]] + lines[k:])    # a record twice / reordered


def fw_hex(*words):
    import struct
    return struct.pack(f"<{len(words)}H", *words).hex()


def gen_stream(rng, const, node):
    mt = const.MessageType
    st = const.Stream
    r = rng.random()
    fwt, fwv = rng.choice([(1, 1), (1, 2), (2, 1), (65535, 65535), (3, 3)])
    if r < 0.4:
        payload = fw_hex(fwt, fwv, rng.randrange(100), rng.randrange(65536), rng.randrange(65536))
        sub = st.ST_FIRMWARE_CONFIG_REQUEST
    elif r < 0.8:
        payload = fw_hex(fwt, fwv, rng.choice([0, 1, 7, 8, 12, 13, 100, 65535]))
        sub = st.ST_FIRMWARE_REQUEST
    elif r < 0.9:
        sub = rng.choice([st.ST_FIRMWARE_CONFIG_REQUEST, st.ST_FIRMWARE_REQUEST])
        if rng.random() < 0.35:
            payload = rng.choice(["zz", "0102", "010", "", "0100010000", "01000100000000000000aa", "é" * 4,
                                  "0100010000000000000G", "AbCdEf0011223344aBcD"])
        else:
            # a well-formed request damaged in one way: cut or extended to every length around the
            # required one (one word short / long included), or one character made non-hexadecimal
            if sub == st.ST_FIRMWARE_CONFIG_REQUEST:
                good = fw_hex(fwt, fwv, rng.randrange(100), rng.randrange(65536), rng.randrange(65536))
            else:
                good = fw_hex(fwt, fwv, rng.choice([0, 1, 7, 8, 100]))
            if rng.random() < 0.7:
                n = rng.randrange(0, len(good) + 9)
                payload = (good + "".join(rng.choice("0123456789abcdef") for _ in range(8)))[:n]
                if n == len(good):
                    payload = good[:-4]          # keep this branch malformed: exactly one word short
            elif rng.random() < 0.35:
                # all the right digits with white space among them (between words, between bytes, leading)
                k = rng.choice([0, 2, 4, 8, rng.randrange(1, len(good))])
                payload = good[:k] + rng.choice([" ", "  ", "\t", "\x0b", "\u00a0"]) + good[k:]
            else:
                k = rng.randrange(len(good))
                payload = good[:k] + rng.choice(["g", "é", " ", "-", "x", "٠"]) + good[k + 1:]
    else:
        payload = rng.choice(["", "abc"])
        sub = rng.choice([st.ST_SOUND, st.ST_IMAGE, st.ST_FIRMWARE_RESPONSE, st.ST_FIRMWARE_CONFIG_RESPONSE])
    if rng.random() < 0.1:
        payload = payload.upper()
    return f"{node};255;{int(mt.stream)};0;{int(sub)};{payload}\n"


def gen_malformed(rng, version, sym):
    r = rng.random()
    node = rng.choice(list(sym.nodes) or [1])
    if r < 0.12:
        # a frame that would be accepted, with surplus fields: a free-text value or sketch name holding the
        # separator, or two frames glued on one line — malformed, to be ignored whatever the node / child
        kids = list(sym.nodes.get(node, {}).get("children", {})) or [0]
        child = rng.choice(kids)
        return rng.choice([
            f"{node};{child};1;0;{rng.choice([24, 25, 47])};a;b\n",
            f"{node};255;3;0;11;my;sketch\n",
            f"{node};255;3;0;12;1;0\n",
            f"{node};255;0;0;17;{version};x\n",
            f"{node};{child};0;0;6;desc;ription\n",
            f"{node};{child};1;0;2;1;{node};{child};1;0;2;0\n",
            f"255;255;3;0;3;;\n",
            f"{node};255;3;0;0;55;\n"])
    if r < 0.2:
        return rng.choice(["", "\n", ";", "abc", ";;;;;\n", "1;2;3\n", "1;2;3;4;5;6;7\n", "\x00", "1;1;1;0;0\n",
                           "a;b;c;d;e;f\n", "1;1;1;0;2;1;1\n", "ü;1;1;0;0;x\n"])
    if r < 0.45:
        # well-formed frame, header out of range for the version
        if rng.random() < 0.4:
            # every field in range on its own, the combination not valid: internal and stream frames on an
            # ordinary child, set / req on child 255, from known nodes and from ids nobody has presented
            typ = rng.choice([1, 2, 3, 3, 4, 4])
            child = rng.choice([255]) if typ in (1, 2) else rng.choice([0, 1, 7, 254])
            sub = rng.randrange(0, 8) if typ == 4 else rng.choice([0, 1, 2, 3, 4, 6, 11, 13, 18, 22, 32, rng.randrange(0, 40)])
            return (f"{rng.choice([node, node, 12, 77, 200])};{child};{typ};{rng.choice([0, 0, 1])};{sub};"
                    f"{rng.choice(PAYLOAD_POOL + ['', '', 'beep', '0100010000000000'])}\n")
        return (f"{rng.choice([node, 256, -1, 1000])};{rng.choice([0, 255, 256, -1])};"
                f"{rng.choice([0, 1, 2, 3, 4, 5, -1])};{rng.choice([0, 1, 2, -1])};"
                f"{rng.choice([0, 1, 16, 22, 32, 33, 34, 47, 48, 56, 57, 99, -1])};{rng.choice(PAYLOAD_POOL)}\n")
    if r < 0.62:
        # a defined command and sub-type of this version with a payload from the boundary corpus of its rule
        # (C03's): one field short or long, blanks, other digit systems, values just outside the range ...
        from . import c03
        if not _SPEC:
            _SPEC.append(c03.load_spec())
        typ = rng.choice([0, 1, 1, 1, 2, 3, 3])
        subs = sorted(int(x) for x in _SPEC[0]["versions"][version]["commands"][str(typ)]["sub_types"])
        sub = rng.choice(subs)
        rule = c03.spec_rule(_SPEC[0], version, typ, sub)
        if rule is not None and not rule.startswith("text"):
            kids = list(sym.nodes.get(node, {}).get("children", {})) or [0]
            child = 255 if typ == 3 or (typ == 0 and sub in (17, 18)) else rng.choice(kids)
            payload = rng.choice(c03.class_corpus(rule))
            # (version strings outside the numeric grammar are C03's and C18's business: the gateway model
            # counts them as rejected, the library may know them)
            if ";" not in payload and "\n" not in payload and len(payload) < 200 \
                    and (rule != "version" or c03.version_modelled(payload)):
                return f"{node};{child};{typ};0;{sub};{payload}\n"
    if r < 0.8:
        # valid header, arbitrary payload
        typ = rng.choice([0, 1, 2, 3, 4])
        child = 255 if typ in (3, 4) else rng.choice([0, 1, 255])
        return f"{node};{child};{typ};0;{rng.randrange(0, 40)};{rng.choice(PAYLOAD_POOL)}\n"
    # exotic integer spellings (accepted by int())
    return f" {node} ;+1;1;0;٠;1\r\n"
