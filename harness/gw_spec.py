"""Property oracles for the gateway family: a direct Python transcription of what the properties
demand, judged on the real code's observations (never on the Lean model).

`judge(hist, obs, version, kind)` walks a history once, keeps the *protocol meaning* of the
accepted messages (spec tree, spec hold queues, spec desired map, spec OTA automaton) and returns
failures tagged with the property they violate:  {"prop", "key", "what", "at"}.

Acceptance of a line is taken from the real `Message(...)`/`validate` (its conformance to the
serial API is C03's business); everything else is independent of the library's handlers.
"""
import struct


_SPEC = []


def own_decode(line):
    """The wire format as property C02 states it: trailing white space stripped, six ';'-separated fields,
    five integers (Python's int()) and the payload text.  None for anything else."""
    parts = line.rstrip().split(";")
    if len(parts) != 6:
        return None
    try:
        head = [int(x) for x in parts[:5]]
    except ValueError:
        return None
    return tuple(head) + (parts[5],)


def accepted(line, version):
    """(msg fields) if the line is a well-formed frame that the serial API of `version` accepts, else None.
    Judged from the reference tables (spec/serial_api.json, the evaluator of C03), not by the code under
    test; the code's own validator is consulted only where the reference leaves a payload unjudged (exotic
    version strings)."""
    f = own_decode(line)
    if f is None:
        return None
    if not _SPEC:
        from . import c03
        _SPEC.append(c03.load_spec())
        _SPEC.append(c03.spec_accepts)
    key = version if version in _SPEC[0]["versions"] else None
    verdict = _SPEC[1](_SPEC[0], key, *f) if key is not None else None
    if verdict is None:
        verdict = repo_accepts(line, version)
    return f if verdict else None


def repo_accepts(line, version):
    from mysensors.message import Message
    import voluptuous as vol
    try:
        m = Message(line)
    except ValueError:
        return False
    try:
        m.validate(version)
    except vol.Invalid:
        return False
    except Exception:  # noqa: BLE001  an internal error of the validator: not accepted (logic() will show it)
        return False
    return True


def canon(node, child, typ, ack, sub, payload):
    return f"{node};{child};{typ};{ack};{sub};{payload}\n"


def safe_version(p):
    from mysensors.validation import safe_is_version
    return safe_is_version(p)


def crc_modbus(data):
    crc = 0xFFFF
    for b in data:
        crc ^= b
        for _ in range(8):
            crc = (crc >> 1) ^ 0xA001 if crc & 1 else crc >> 1
    return crc


def pad_fw(img):
    pads = len(img) % 128
    return img + b"\xff" * (128 - pads)


def unpack_words(payload, n):
    """n little-endian 16-bit words from a hex payload, or None when malformed."""
    if len(payload) != 4 * n:
        return None
    try:
        if not payload.isascii():
            return None
        raw = bytes.fromhex(payload)
    except ValueError:
        return None
    if any(c in " \t\n\r\x0b\x0c" for c in payload):
        return None
    return struct.unpack(f"<{n}H", raw)


def hexw(*words):
    return struct.pack(f"<{len(words)}H", *words).hex()


class SNode:
    def __init__(self, nid):
        self.id = nid
        self.type = None
        self.sketch_name = None
        self.sketch_version = None
        self.battery = 0
        self.version = "1.4"
        self.heartbeat = 0
        self.children = {}      # cid -> [type, desc, {vt: value}]
        self.sleeping = False   # has announced smart sleep while having children
        self.tracked = set()    # children the desired map exists for (known at some wake-up)
        self.desired = {}       # (cid, vt) -> value
        self.hold = []          # withheld lines
        self.reboot = False
        self.session = "idle"   # idle | requested | offered | fetching
        self.fw = None          # (type, ver) of the session

    def tree(self):
        from .common import enc_str
        from .gw import opt
        ch = []
        for cid, (t, d, vals) in self.children.items():
            vs = ",".join(f"{k}={enc_str(str(v))}" for k, v in vals.items())
            ch.append(f"{cid}:{opt(t)}:{enc_str(d)}:V({vs})")
        return (f"N{self.id}{{t={opt(self.type)},sn={opt(self.sketch_name, enc_str)},"
                f"sv={opt(self.sketch_version, enc_str)},b={self.battery},v={enc_str(self.version)},"
                f"h={self.heartbeat},C[{';'.join(ch)}]}}")


class Spec:
    def __init__(self, version, kind="base"):
        from mysensors.const import get_const
        self.version = version
        self.const = get_const(version)
        self.kind = kind
        self.v2 = self.const.__name__ in ("mysensors.const_20", "mysensors.const_21", "mysensors.const_22")
        self.v22 = self.const.__name__ == "mysensors.const_22"
        self.nodes = {}
        self.clock = 0
        self.metric = True
        self.handed = []       # ids handed out, over the whole history incl. restarts
        self.firmware = {}     # (t, v) -> padded data
        self.disk = None       # saved tree text
        self.dirty_since_save = False
        self.desync = False    # the real tree diverged at a restart (already reported): stop tree/reply checks
        self.fail = []

    def tree(self):
        return " ".join(n.tree() for n in self.nodes.values()) or "-"

    def I(self, name):
        m = getattr(self.const.Internal, name, None)
        return None if m is None else int(m)

    # ---- helpers -----------------------------------------------------------------------
    def flag(self, prop, kind, what, at, **key):
        if self.desync and prop in ("C04", "C05", "C07", "C08", "C10"):
            return
        k = {"kind": kind}
        k.update(key)
        self.fail.append({"prop": prop, "key": k, "what": what, "at": at})

    def deliver(self, node, line, sent_now):
        """A reply/command for `node`: goes out now, or is withheld if the node sleeps."""
        n = self.nodes.get(node)
        is_stream = line.split(";")[2] == "4"
        if n is not None and n.sleeping and not is_stream:
            n.hold.append(line)
        else:
            sent_now.append(line)

    def need_presentation(self, node, sent_now):
        if self.v2:
            self.deliver(node, canon(node, 255, 3, 0, self.I("I_PRESENTATION"), ""), sent_now)

    def is_wake(self, f):
        node, child, typ, ack, sub, payload = f
        if typ != 3 or not self.v2:
            return False
        if self.v22:
            return sub == self.I("I_PRE_SLEEP_NOTIFICATION")
        return sub == self.I("I_HEARTBEAT_RESPONSE")

    # ---- one accepted inbound message ---------------------------------------------------
    def inbound(self, f):
        """Returns (expected sent list, expected callback list)."""
        node, child, typ, ack, sub, payload = f
        sent, cbs = [], []
        c = self.const
        mt = c.MessageType
        if typ == mt.presentation:
            if child == 255:
                n = self.nodes.setdefault(node, SNode(node))
                n.type = sub
                n.version = safe_version(payload)
                n.reboot = False
                cbs.append(f)
            elif node not in self.nodes:
                self.need_presentation(node, sent)
            elif child not in self.nodes[node].children:
                self.nodes[node].children[child] = [sub, payload, {}]
                cbs.append(f)
        elif typ == mt.set:
            n = self.nodes.get(node)
            if n is None or child not in n.children:
                self.need_presentation(node, sent)
            else:
                n.children[child][2][sub] = payload
                n.desired.pop((child, sub), None)
                cbs.append(f)
                if n.reboot:
                    self.deliver(node, canon(node, 255, 3, 0, self.I("I_REBOOT"), ""), sent)
        elif typ == mt.req:
            n = self.nodes.get(node)
            if n is None or child not in n.children:
                self.need_presentation(node, sent)
            else:
                val = n.desired.get((child, sub))
                if val is None:
                    val = n.children[child][2].get(sub)
                if val is not None:
                    self.deliver(node, canon(node, child, 1, ack, sub, val), sent)
        elif typ == mt.internal:
            self.internal(f, sent, cbs)
        elif typ == mt.stream:
            self.stream(f, sent, cbs)
        return sent, cbs

    def internal(self, f, sent, cbs):
        node, child, typ, ack, sub, payload = f
        n = self.nodes.get(node)
        I = self.I
        if sub == I("I_ID_REQUEST"):
            nxt = max(self.nodes) + 1 if self.nodes else 1
            if nxt <= 254:
                self.nodes[nxt] = SNode(nxt)
                self.deliver(node, canon(node, child, 3, 0, I("I_ID_RESPONSE"), nxt), sent)
        elif sub == I("I_CONFIG"):
            self.deliver(node, canon(node, child, 3, 0, sub, "M" if self.metric else "I"), sent)
        elif sub == I("I_TIME"):
            self.deliver(node, canon(node, child, 3, 0, sub, self.clock), sent)
        elif sub == I("I_BATTERY_LEVEL"):
            if n is None:
                self.need_presentation(node, sent)
            else:
                try:
                    b = int(payload)
                    n.battery = b if 0 <= b <= 100 else 0
                except ValueError:
                    n.battery = 0
                cbs.append(f)
        elif sub == I("I_SKETCH_NAME"):
            if n is None:
                self.need_presentation(node, sent)
            else:
                n.sketch_name = payload
                cbs.append(f)
        elif sub == I("I_SKETCH_VERSION"):
            if n is None:
                self.need_presentation(node, sent)
            else:
                n.sketch_version = payload
                cbs.append(f)
        elif sub == I("I_GATEWAY_READY"):
            cbs.append(f)
            if self.v2:
                self.deliver(255, canon(255, child, 3, 0, I("I_DISCOVER"), ""), sent)
        elif self.v2 and sub == I("I_DISCOVER_RESPONSE"):
            if n is None:
                self.need_presentation(node, sent)
        elif self.v2 and sub == I("I_HEARTBEAT_RESPONSE"):
            if n is None:
                self.need_presentation(node, sent)
            else:
                if not self.v22:
                    self.wake(n, sent)
                try:
                    n.heartbeat = int(payload)
                except ValueError:
                    n.heartbeat = 0
                cbs.append(f)
        elif self.v22 and sub == I("I_PRE_SLEEP_NOTIFICATION"):
            if n is None:
                self.need_presentation(node, sent)
            else:
                self.wake(n, sent)

    def wake(self, n, sent):
        """The burst: withheld lines oldest first, then one set per reported value type with a
        pending desired value, children in presentation order, value types in first-report order."""
        for cid in n.children:
            n.tracked.add(cid)
        if n.children:
            n.sleeping = True
        sent.extend(n.hold)
        n.hold = []
        for cid, (t, d, vals) in n.children.items():
            for vt in vals:
                v = n.desired.get((cid, vt))
                if v is not None:
                    sent.append(canon(n.id, cid, 1, 0, vt, v))

    def stream(self, f, sent, cbs):
        node, child, typ, ack, sub, payload = f
        n = self.nodes.get(node)
        st = self.const.Stream
        if n is None:
            self.need_presentation(node, sent)
            return
        if sub == st.ST_FIRMWARE_CONFIG_REQUEST:
            cbs.append(f)
            w = unpack_words(payload, 5)
            if w is None:
                return                      # malformed: ignored
            if n.session in ("requested", "offered"):
                n.session = "offered"
                data = self.firmware.get(n.fw)
                if data is not None:
                    blocks = len(data) // 16
                    sent.append(canon(node, 255, 4, ack, int(st.ST_FIRMWARE_CONFIG_RESPONSE),
                                      hexw(n.fw[0], n.fw[1], blocks, crc_modbus(data))))
        elif sub == st.ST_FIRMWARE_REQUEST:
            cbs.append(f)
            w = unpack_words(payload, 3)
            if w is None:
                return
            if n.session in ("offered", "fetching"):
                n.session = "fetching"
                data = self.firmware.get((w[0], w[1]))
                if data is not None:
                    blk = data[w[2] * 16: w[2] * 16 + 16]
                    sent.append(canon(node, 255, 4, ack, int(st.ST_FIRMWARE_RESPONSE),
                                      hexw(w[0], w[1], w[2]) + blk.hex()))

    # ---- controller calls -----------------------------------------------------------------
    def set_value(self, op, ob, at):
        _, node, child, vtype, value, ack = op
        sent = []
        n = self.nodes.get(node)
        if n is None or child not in n.children:
            if ob.exc is None:
                self.need_presentation(node, sent)
            return sent
        if ob.exc is not None:
            return sent                      # refused to the caller: nothing may change
        try:
            vt = int(vtype)
        except (TypeError, ValueError):
            self.flag("C08", "bad-value-type-accepted", f"set_child_value accepted value type {vtype!r}", at)
            return sent
        if n.sleeping:
            n.desired[(child, vt)] = value
        else:
            sent.append(canon(node, child, 1, 0 if ack is None else ack, vt, value))
        return sent

    def update(self, op, ob):
        _, nids, fwt, fwv, image = op
        if ob.exc is not None:
            return
        try:
            fwt, fwv = int(fwt), int(fwv)
        except ValueError:
            return
        if not (0 <= fwt <= 0xFFFF and 0 <= fwv <= 0xFFFF):
            return
        if image is not None and len(image) == 0:
            return      # a firmware file without data is no firmware: nothing is loaded or scheduled
        if image is not None:
            data = pad_fw(image)
            if len(data) // 16 > 0xFFFF:
                return
            self.firmware[(fwt, fwv)] = data
        if (fwt, fwv) not in self.firmware:
            return
        for nid in nids:
            n = self.nodes.get(nid)
            if n is None:
                continue
            n.session = "requested"
            n.fw = (fwt, fwv)
            n.reboot = True


def judge(hist, obs, version, kind="base", persist="none"):
    """Walk the history; return the list of failures (each tagged with its property)."""
    nocb = kind.endswith("-nocb")
    kind = kind[:-5] if nocb else kind
    kind = kind[:-8] if kind.endswith("-raisecb") else kind
    sp = Spec(version, kind)
    prev = None
    from .gw import Obs
    blank = Obs()
    blank.state = "-"
    blank.ota = "req=() unst=() st=() fw=()"
    blank.need_save = "1" if persist != "none" else "-"
    prev = blank
    for at, (op, ob) in enumerate(zip(hist, obs)):
        k = op[0]
        if k == "F":
            from .gw import file_as_update
            same = file_as_update(op)
            if same is None:
                op, k = ("T", sp.clock), "T"        # no effect at all
                if ob.sent or ob.cbs or ob.state != prev.state or ob.ota != prev.ota:
                    sp.flag("C10", "bad-file-had-effect", "update_fw with an unusable firmware file changed state "
                            "or produced output", at)
            else:
                op, k = same, "U"
        exp_sent, exp_cbs = None, None
        concerned = None
        sleeping_before = {nid for nid, n in sp.nodes.items() if n.sleeping}
        if k == "L":
            f = accepted(op[1], version)
            if ob.exc is not None:
                sp.flag("C01", "logic-raised", f"processing a line raised {ob.exc}", at, exc=ob.exc,
                        accepted=f is not None)
                if f is not None and sp.is_wake(f):
                    sp.flag("C08", "wake-up-raised", f"the wake-up flush raised {ob.exc}", at, exc=ob.exc)
                    sp.flag("C07", "wake-up-raised", f"the wake-up flush raised {ob.exc}", at, exc=ob.exc)
                elif f is not None and f[2] == 2:
                    sp.flag("C08", "value-request-raised", f"a value request raised {ob.exc}", at, exc=ob.exc)
                    sp.flag("C05", "value-request-raised", f"a value request raised {ob.exc}", at, exc=ob.exc)
                elif f is not None and f[2] == 4:
                    sp.flag("C10", "stream-request-raised", f"a stream request raised {ob.exc}", at, exc=ob.exc)
            if f is None:
                if (ob.sent or ob.cbs or ob.state != prev.state or ob.ota != prev.ota):
                    sp.flag("C01", "rejected-line-had-effect", "a rejected line changed state or produced output", at)
                prev = ob
                continue
            concerned = f[0]
            if ob.exc is None:
                wake = sp.is_wake(f)
                exp_sent, exp_cbs = sp.inbound(f)
                if f[2] == 3 and f[4] == sp.I("I_ID_REQUEST"):
                    check_ids(sp, ob, at, prev)
        elif k == "S":
            concerned = op[1]
            exp_sent = sp.set_value(op, ob, at)
            exp_cbs = []
            if ob.exc is not None and (ob.state != prev.state):
                sp.flag("C08", "refused-call-changed-state", "set_child_value raised but changed state", at)
            if ob.exc is not None:
                exp_sent = None
        elif k == "U":
            sp.update(op, ob)
            exp_sent, exp_cbs = [], []
        elif k == "T":
            sp.clock = op[1]
        elif k == "M":
            sp.metric = bool(op[1])
        elif k in ("K", "X"):
            if ob.exc is None and persist != "none":
                pass
        elif k == "R":
            # C14 / C06: what was held at the stop must be what the restart loads
            before = obs[at - 1].tree if at >= 1 else "-"
            if hist[at - 1][0] == "X" and ob.tree != before:
                sp.flag("C14", "stop-lost-state", "state after restart differs from state at stop()", at)
                sp.desync = True
            for n in sp.nodes.values():
                n.sleeping = False
                n.tracked = set()
                n.desired = {}
                n.hold = []
                n.reboot = False
                n.session = "idle"
            if hist[at - 1][0] == "X":
                # follow the real loaded tree only if it equals the spec (else already flagged)
                pass
            sp.firmware = {}
        # ---- compare with the real observation -------------------------------------------
        if exp_sent is not None and sp.kind == "mqtt":
            # the MQTT gateway maps a command to topic levels + payload by decoding it again: a command whose
            # payload holds the field separator cannot be expressed and is dropped by send() (C17's domain)
            exp_sent = [s for s in exp_sent if len(s.rstrip().split(";")) == 6]
        if exp_sent is not None and ob.exc is None:
            if [s for s in ob.sent] != exp_sent:
                prop = "C05"
                if k == "L" and sp.is_wake(accepted(op[1], version) or (0, 0, 0, 0, 0, "")):
                    prop = "C08"
                elif k == "L" and (accepted(op[1], version) or (0, 0, 0))[2] == 4:
                    prop = "C10"
                sp.flag(prop, "reply-differs", f"emitted {ob.sent!r}, prescribed {exp_sent!r}", at,
                        op=k)
                if prop != "C05":
                    # what goes out at a wake-up / for a stream request is a prescribed reply as well
                    sp.flag("C05", "reply-differs", f"emitted {ob.sent!r}, prescribed {exp_sent!r}", at, op=k)
            if nocb and ob.cbs:
                sp.flag("C04", "callback-without-callback", "a callback was recorded although none is configured", at)
            if not nocb and exp_cbs is not None and list(ob.cbs) != [tuple(c[:5]) + (str(c[5]),) for c in exp_cbs]:
                sp.flag("C04", "callbacks-differ", f"callbacks {ob.cbs!r}, expected {exp_cbs!r}", at)
            if not ob.cb_state_ok:
                sp.flag("C04", "callback-before-state", "state seen inside the callback differs from state after the step", at)
        if ob.exc is None and k in ("L", "S", "U") and ob.tree != sp.tree():
            sp.flag("C04", "tree-differs", f"tree {ob.tree!r} expected {sp.tree()!r}", at)
        # ---- C07: nothing for a sleeping node outside its own wake-up step ------------------
        for s in ob.sent:
            parts = s.split(";")
            try:
                dest, typ = int(parts[0]), int(parts[2])
            except (ValueError, IndexError):
                continue
            if dest in sleeping_before and typ != 4:
                f = accepted(op[1], version) if k == "L" else None
                if not (f is not None and sp.is_wake(f) and f[0] == dest):
                    sp.flag("C07", "sent-to-sleeping-node", f"{s!r} sent to sleeping node {dest}", at)
        # ---- C05: every emitted line is canonical, valid, addressed to the node concerned ----
        for s in ob.sent:
            f = accepted(s, version)
            if f is None:
                sp.flag("C05", "emitted-invalid", f"emitted line {s!r} is not valid for {version}", at, op=k)
                continue
            if canon(*f) != s:
                sp.flag("C05", "emitted-not-canonical", f"emitted line {s!r} is not canonical", at)
            if concerned is not None and f[0] not in (concerned, 255):
                sp.flag("C05", "emitted-misaddressed", f"{s!r} not addressed to node {concerned}", at)
        prev = ob
    return sp.fail


def check_ids(sp, ob, at, prev):
    import re
    known_before = {int(x) for x in re.findall(r"(?:^| )N(-?\d+)\{", prev.tree if prev.tree else "")}
    for s in ob.sent:
        parts = s.rstrip("\n").split(";")
        if len(parts) == 6 and parts[2] == "3" and parts[4] == str(sp.I("I_ID_RESPONSE")):
            try:
                nid = int(parts[5])
            except ValueError:
                sp.flag("C06", "id-not-int", f"id response payload {parts[5]!r}", at)
                continue
            if not 1 <= nid <= 254:
                sp.flag("C06", "id-out-of-range", f"id {nid} handed out", at)
            if nid in sp.handed:
                sp.flag("C06", "id-handed-out-twice", f"id {nid} handed out twice", at)
            if nid in known_before:
                sp.flag("C06", "id-of-known-node", f"id {nid} handed out while that node is known", at)
            sp.handed.append(nid)
