"""Shared check body for the gateway family (C01, C04-C08, C10, C14): generate histories, run the
real code, judge with the property oracle (gw_spec), run the Lean model on the same ops and
compare through the property's own projection (DESIGN.md 5.4)."""
import json
import multiprocessing
import os
import random
import re

from . import common, gw, gw_spec
from .common import Result, digest

OBS_RE = re.compile(r"^sent=(\S+) cb=(\S+) exc=(\S+) ns=(\S+) st=(.*) ota=(req=.*)$")


def parse_obs(line):
    m = OBS_RE.match(line)
    if not m:
        return None
    return dict(zip(("sent", "cb", "exc", "ns", "st", "ota"), m.groups()))


def tree_only(st):
    st = re.sub(r",D\[[^\]]*\],Q\[[^\]]*\]", "", st)
    return re.sub(r",r=[01]", "", st)


def sleep_only(st):
    return " ".join(f"{n}:{'S' if d else '-'}:{q}" for n, d, q in
                    re.findall(r"N(-?\d+)\{[^{}]*?D\[([^\]]*)\],Q\[([^\]]*)\]", st))


PROJECTIONS = {
    "C01": lambda o: (o["exc"],),
    "C04": lambda o: (tree_only(o["st"]), o["cb"]),
    "C05": lambda o: (o["sent"],),
    "C06": lambda o: (o["sent"], tuple(re.findall(r"(?:^| )N(-?\d+)\{", o["st"]))),
    "C07": lambda o: (o["sent"], sleep_only(o["st"])),
    "C08": lambda o: (o["sent"], o["exc"], sleep_only(o["st"]),
                      tuple(re.findall(r"D\[([^\]]*)\]", o["st"]))),
    "C10": lambda o: (o["sent"], o["ota"], tuple(re.findall(r",r=([01])", o["st"]))),
    "C14": lambda o: (o["ns"], tree_only(o["st"])),
}


def load_corpus(prop):
    out = []
    d = os.path.join(common.VERIF, "corpus", prop)
    if not os.path.isdir(d):
        return out
    for name in sorted(os.listdir(d)):
        if name.endswith(".json"):
            with open(os.path.join(d, name), encoding="utf-8") as fh:
                c = json.load(fh)
            c["name"] = name
            c["hist"] = [decode_op(o) for o in c["hist"]]
            out.append(c)
    return out


def encode_op(op):
    if op[0] == "U":
        return ["U", list(op[1]), op[2], op[3], None if op[4] is None else op[4].hex()]
    return list(op)


def decode_op(o):
    if o[0] == "U":
        return ("U", o[1], o[2], o[3], None if o[4] is None else bytes.fromhex(o[4]))
    return tuple(o)


def _work(args):
    """One history on the real code + oracle (runs in a worker process)."""
    import logging
    logging.disable(logging.CRITICAL)
    idx, version, kind, persist, hist = args
    obs, _ = gw.run_history(hist, version, kind, persist)
    fails = gw_spec.judge(hist, obs, version, kind, persist)
    return idx, [o.line() for o in obs], fails


def stop_then_restart(hist):
    """Scripted episodes are woven in at random positions; whatever landed between a stop and its restart is
    moved in front of the stop (a stopped gateway is not used any more until it is started again)."""
    out, i = [], 0
    while i < len(hist):
        if hist[i][0] == "X":
            j = i + 1
            while j < len(hist) and hist[j][0] not in ("R", "X"):
                j += 1
            if j < len(hist) and hist[j][0] == "R":
                out.extend(hist[i + 1:j])
                out.extend([hist[i], hist[j]])
                i = j + 1
                continue
        out.append(hist[i])
        i += 1
    return out


def repeat_tail(version, hist):
    """search suffix: the value reports and value requests of the history once more (what a node does after a
    restart of the gateway: it carries on)"""
    tail = [op for op in hist if op[0] == "L" and len(op[1].split(";")) == 6 and op[1].split(";")[2] in ("1", "2")]
    return tail[-10:]


def make_cases(prop, tier, seed, cfg):
    rng = random.Random(seed * 1000003 + int(prop[1:]))
    cases = []
    for c in load_corpus(prop):
        cases.append((c["version"], c.get("kind", "base"), c.get("persist", "none"), c["hist"], c["name"]))
    n = (cfg["quick"] if tier == "quick" else cfg["thorough"]) * common.effort(tier)
    for i in range(n):
        version = rng.choice(cfg.get("versions", gw.VERSIONS))
        kind = rng.choice(cfg.get("kinds", ["base", "base", "tcp", "mqtt"]))
        persist = rng.choice(cfg.get("persist", ["none"]))
        length = rng.choice(cfg.get("lengths", [12, 25, 40]))
        hist = gw.gen_history(rng, version, length, persist=persist != "none", ota=cfg.get("ota", True),
                              sleep=cfg.get("sleep", True), malformed=cfg.get("malformed", 0.2),
                              bias=cfg.get("bias"))
        for extra in cfg.get("post", []):
            hist = extra(rng, version, hist)
        cases.append((version, kind, persist, stop_then_restart(hist), f"gen{i}"))
    return cases


def shrink(prop, version, kind, persist, hist, key):
    """Delta-debug the op list while the oracle still reports the same structural key."""
    def fails(h):
        if any(op[0] == "R" and (i == 0 or h[i - 1][0] != "X") for i, op in enumerate(h)):
            return False        # a restart without the stop before it is a crash, outside the histories judged
        try:
            obs, _ = gw.run_history(h, version, kind, persist)
            return any(f["prop"] == prop and f["key"] == key for f in gw_spec.judge(h, obs, version, kind, persist))
        except Exception:  # noqa: BLE001
            return False
    cur = list(hist)
    chunk = max(1, len(cur) // 2)
    budget = 200
    while chunk >= 1 and budget > 0:
        i = 0
        changed = False
        while i < len(cur) and budget > 0:
            cand = cur[:i] + cur[i + chunk:]
            budget -= 1
            if cand and fails(cand):
                cur = cand
                changed = True
            else:
                i += chunk
        if not changed:
            chunk //= 2
    return cur


def run_family(prop, tier, seed, driver, cfg, relevant, extra_oracle=None):
    """relevant(hist, obs_lines) -> bool: did the history reach a branch this property is about."""
    res = Result()
    cases = make_cases(prop, tier, seed, cfg)
    jobs = [(i, c[0], c[1], c[2], c[3]) for i, c in enumerate(cases)]
    procs = min(14, os.cpu_count() or 4)
    if len(jobs) > 40:
        with multiprocessing.Pool(procs) as pool:
            results = pool.map(_work, jobs, chunksize=8)
    else:
        results = [_work(j) for j in jobs]
    results.sort()
    proj = PROJECTIONS[prop]
    lines, meta = [], []
    elsewhere = {}       # case index -> {op index -> what the oracle filed there under another property's name}
    for (i, impl_lines, fails), case in zip(results, cases):
        version, kind, persist, hist, name = case
        res.evaluations += len(hist)
        res.count("histories")
        for op in hist:
            res.count("op:" + op[0])
        if relevant(hist, impl_lines):
            res.distinct.add(digest([version, kind, persist, [gw.op_wire(o) for o in hist]]))
        if extra_oracle is not None:
            fails = list(fails) + [dict(f, prop=prop) for f in extra_oracle(hist, impl_lines)]
        for f in fails:
            if f["prop"] != prop:
                elsewhere.setdefault(i, {}).setdefault(f["at"], f)
                continue
            res.count("oracle:" + f["key"]["kind"])
            if len([x for x in res.oracle_failures if x["key"] == f["key"]]) == 0:
                small = hist[: f["at"] + 1] if f.get("noshrink") else \
                    shrink(prop, version, kind, persist, hist[: f["at"] + 1], f["key"])
                res.oracle_failures.append({
                    "key": f["key"], "what": f["what"][:300],
                    "replay": {"version": version, "kind": kind, "persist": persist,
                               "hist": [encode_op(o) for o in small], "case": name}})
            else:
                res.oracle_failures.append({"key": f["key"], "what": f["what"][:300], "replay": None})
        lines.append(gw.gw_wire(version, kind, persist))
        meta.append((i, -1))
        for j, op in enumerate(hist):
            lines.append(gw.op_wire(op))
            meta.append((i, j))
    # correspondence through the property's projection
    if driver is not None:
        try:
            model = driver.run(lines)
        except Exception as exc:  # noqa: BLE001
            res.corr_diffs.append({"name": f"{prop}-driver", "case": "driver", "model": str(exc)[:300], "impl": ""})
            model = None
        if model is not None:
            bad_hist = set()
            for (i, j), mline in zip(meta, model):
                if j < 0 or i in bad_hist:
                    continue
                iline = results[i][1][j]
                mo, io = parse_obs(mline), parse_obs(iline)
                if mo is None or io is None or proj(mo) != proj(io):
                    bad_hist.add(i)
                    version, kind, persist, hist, name = cases[i]
                    other = elsewhere.get(i, {}).get(j)
                    if other is not None and mo is not None and io is not None and len(res.oracle_failures) < 30:
                        # the code departs from the prescribed behaviour at this very step (the oracle filed it under
                        # another property) and the departure shows through this property's projection
                        res.count(f"oracle:{other['key'].get('kind')}@{other['prop']}")
                        res.oracle_failures.append({
                            "key": dict(other["key"], filed_under=other["prop"]),
                            "what": (f"{other['what']} — step {j}, visible through {prop}'s projection: model "
                                     f"{str(proj(mo))[:160]}, code {str(proj(io))[:160]}")[:600],
                            "replay": {"version": version, "kind": kind, "persist": persist,
                                       "hist": [encode_op(o) for o in hist[: j + 1]], "case": name}})
                    res.corr_diffs.append({
                        "name": f"{prop}-projection", "case": {"case": name, "version": version, "kind": kind,
                                                                "persist": persist, "op_index": j,
                                                                "op": gw.op_wire(hist[j])[:200]},
                        "model": str(proj(mo) if mo else mline)[:300], "impl": str(proj(io) if io else iline)[:300]})
            res.traces_validated = len(cases) - len(bad_hist)
            # a disagreement is not by itself a violation: search around it for a concrete failing input
            if res.corr_diffs and not res.oracle_failures and cfg.get("search_suffixes"):
                tried = 0
                for d in res.corr_diffs[:8]:
                    name = d["case"]["case"]
                    case = next(c for c in cases if c[4] == name)
                    version, kind, persist, hist, _ = case
                    j = d["case"]["op_index"]
                    for suffix in cfg["search_suffixes"]:
                        h2 = list(hist[: j + 1]) + list(suffix(version, hist[: j + 1]))
                        if persist == "none" and any(op[0] in ("X", "R") for op in h2[j + 1:]):
                            continue          # a restart without persistence forgets everything, by design
                        tried += 1
                        try:
                            obs2, _ = gw.run_history(h2, version, kind, persist)
                            all2 = gw_spec.judge(h2, obs2, version, kind, persist)
                            # what the oracle finds on the extended history counts whichever property it is filed
                            # under: the search only runs after a disagreement seen through this property's projection
                            fails2 = [f for f in all2 if f["prop"] == prop] or [f for f in all2 if f["at"] > j]
                        except Exception:  # noqa: BLE001
                            fails2 = []
                        if fails2:
                            f = fails2[0]
                            small = shrink(f["prop"], version, kind, persist, h2[: f["at"] + 1], f["key"])
                            res.oracle_failures.append({
                                "key": f["key"], "what": f["what"][:300] + " (found by searching around a model/code disagreement)",
                                "replay": {"version": version, "kind": kind, "persist": persist,
                                           "hist": [encode_op(o) for o in small], "case": name + "+search"}})
                            break
                    if res.oracle_failures:
                        break
                res.extra["search_histories_tried"] = tried
    for case, (i, impl_lines, _) in list(zip(cases, results))[:3]:
        res.sample({"version": case[0], "kind": case[1], "persist": case[2],
                    "ops": [gw.op_wire(o)[:80] for o in case[3][:6]],
                    "first_obs": impl_lines[0][:160] if impl_lines else ""})
    res.extra["histories"] = len(cases)
    return res


def replay_family(prop, payload):
    import logging
    logging.disable(logging.CRITICAL)
    r = payload.get("replay") or {}
    if not r:
        print(json.dumps(payload, indent=1)[:2000])
        return 0
    hist = [decode_op(o) for o in r["hist"]]
    obs, _ = gw.run_history(hist, r["version"], r["kind"], r["persist"])
    fails = [f for f in gw_spec.judge(hist, obs, r["version"], r["kind"], r["persist"]) if f["prop"] == prop]
    lines = [gw.gw_wire(r["version"], r["kind"], r["persist"])] + [gw.op_wire(o) for o in hist]
    try:
        model = common.Driver().run(lines)[1:]
    except Exception as exc:  # noqa: BLE001
        model = [str(exc)] * len(hist)
    for op, o, m in zip(hist, obs, model):
        print("op   :", gw.op_wire(op)[:200])
        print(" impl:", o.line()[:400])
        print(" model:", m[:400])
    print("oracle:", fails)
    return 1 if fails else 0
