"""Shared pieces of the persistence checks (C11, C12, C13, C15): projections, state generators,
fresh-gateway loading, and a fault-injecting / recording shim for the file operations of
mysensors.persistence (installed from outside: module attributes `open` and `os` of
mysensors.persistence are replaced for the duration of one call; /repo is not edited)."""
import contextlib
import errno
import os
import random
import shutil

from .common import enc_str

FORMATS = ("json", "pickle")

EXOTIC = ["", "a", " ", "\x00", "\"", "'", "\\", "{", "}", "[", "]", ":", ",", "\n", "\t", "\r", "é", "ß", "漢",
          "\U0001F600", "\U0010FFFF", "퟿", "", "\x7f", "\x85", " ", "null", "1", "0"]


def exotic_text(rng, wire=False):
    """A payload: empty, NUL, quotes, braces, astral planes...  `wire`: something a line can carry."""
    k = rng.choice([0, 0, 1, 1, 2, 3, 5, 9])
    s = "".join(rng.choice(EXOTIC) if rng.random() < 0.8 else chr(rng.choice(
        [rng.randrange(0x20, 0x7f), rng.randrange(0xa0, 0xd7ff), rng.randrange(0xe000, 0x10ffff)]))
        for _ in range(k))
    if wire:
        s = s.replace(";", "").replace("\n", "").replace("\r", "").rstrip()
    return s


# ---------------------------------------------------------------------------------------------
# projections (type-exact: an int key and a str key print differently)
# ---------------------------------------------------------------------------------------------

def pkey(k):
    return str(k) if type(k) is int else "s" + enc_str(str(k))


def pint(v):
    return str(v) if type(v) is int else f"!{type(v).__name__}:{v}"


def pstr(v):
    return enc_str(v) if type(v) is str else f"!{type(v).__name__}:{v}"


def popt(v, f):
    return "None" if v is None else f(v)


def project(sensors, transient=True):
    """Canonical text of a sensors mapping; same layout as the model driver's `showSensors`."""
    out = []
    for sid, s in sensors.items():
        if not (hasattr(s, "children") and hasattr(s, "sensor_id")):
            out.append(f"N{pkey(sid)}{{not-a-node:{type(s).__name__}}}")        # e.g. a plain dict after a bad load
            continue
        ch = []
        for cid, c in s.children.items():
            if not (hasattr(c, "values") and hasattr(c, "id")):
                ch.append(f"{pkey(cid)}:not-a-child:{type(c).__name__}")
                continue
            vals = ",".join(f"{pkey(k)}={pstr(v)}" for k, v in c.values.items())
            ch.append(f"{pkey(cid)}:{pint(c.id)}:{pint(c.type)}:{pstr(c.description)}:V({vals})")
        ds, q, r = [], "", "0"
        if transient:
            for cid, c in s.new_state.items():
                vals = ",".join(f"{pkey(k)}={popt(v, pstr)}" for k, v in c.values.items())
                ds.append(f"{pkey(cid)}:V({vals})")
            q = ";".join(pstr(x) for x in s.queue)
            r = "1" if s.reboot is True else ("0" if s.reboot is False else f"!{s.reboot!r}")
        out.append(
            f"N{pkey(sid)}{{id={pint(s.sensor_id)},t={popt(s.type, pint)},sn={popt(s.sketch_name, pstr)},"
            f"sv={popt(s.sketch_version, pstr)},b={pint(s.battery_level)},v={pstr(s.protocol_version)},"
            f"h={pint(s.heartbeat)},r={r},C[{';'.join(ch)}],D[{';'.join(ds)}],Q[{q}]}}")
    return " ".join(out) if out else "-"


def project_reset(sensors):
    """What a load of a save of `sensors` is meant to give (transient fields at their defaults)."""
    return project(sensors, transient=False)


def project_nodes(sensors):
    """Per-node persisted projection (for "every node is one complete version" checks)."""
    return {pkey(sid): project({sid: s}, transient=False) for sid, s in sensors.items()}


def typed(sensors):
    """Is the mapping inside the model's typed state space?"""
    try:
        return _typed(sensors)
    except AttributeError:
        return False            # something in it is not a node / child object at all


def _typed(sensors):
    for sid, s in sensors.items():
        if type(sid) is not int or type(s.sensor_id) is not int:
            return False
        if not (s.type is None or type(s.type) is int):
            return False
        for v in (s.sketch_name, s.sketch_version):
            if not (v is None or type(v) is str):
                return False
        if type(s.battery_level) is not int or type(s.heartbeat) is not int or type(s.protocol_version) is not str:
            return False
        if type(s.reboot) is not bool:
            return False
        for cid, c in s.children.items():
            if type(cid) is not int or type(c.id) is not int or type(c.type) is not int or type(c.description) is not str:
                return False
            if any(type(k) is not int or type(v) is not str for k, v in c.values.items()):
                return False
        for cid, c in s.new_state.items():
            if type(cid) is not int:
                return False
            if any(type(k) is not int or not (v is None or type(v) is str) for k, v in c.values.items()):
                return False
        if any(type(x) is not str for x in s.queue):
            return False
    return True


def wire_state(sensors):
    """State tokens of the driver's P11 command."""
    def o(v, f):
        return "N" if v is None else f(v)
    toks = []
    for sid, s in sensors.items():
        toks.append(":".join(["N", str(sid), str(s.sensor_id), o(s.type, str), o(s.sketch_name, lambda x: "s" + enc_str(x)),
                              o(s.sketch_version, lambda x: "s" + enc_str(x)), str(s.battery_level),
                              enc_str(s.protocol_version), str(s.heartbeat), "1" if s.reboot else "0"]))
        for cid, c in s.children.items():
            toks.append(f"C:{cid}:{c.id}:{c.type}:{enc_str(c.description)}")
            for k, v in c.values.items():
                toks.append(f"V:{k}:{enc_str(v)}")
        for cid, c in s.new_state.items():
            toks.append(f"D:{cid}")
            for k, v in c.values.items():
                toks.append(f"W:{k}:{o(v, lambda x: 's' + enc_str(x))}")
        for x in s.queue:
            toks.append("Q:" + enc_str(x))
    return toks


# ---------------------------------------------------------------------------------------------
# states
# ---------------------------------------------------------------------------------------------

def direct_state(rng, size=None, exotic=True):
    """A sensors mapping constructed directly from the real classes."""
    from collections import deque
    from mysensors.sensor import ChildSensor, Sensor
    sensors = {}
    ids = [0, 1, 2, 7, 100, 254, 255]
    rng.shuffle(ids)
    n = size if size is not None else rng.choice([0, 1, 1, 2, 3, 5])
    text = (lambda: exotic_text(rng)) if exotic else (lambda: rng.choice(["", "x", "abc", "21.5"]))
    for sid in ids[:n]:
        s = Sensor(sid)
        if rng.random() < 0.7:
            s.type = rng.choice([17, 18, 0, 255])
        if rng.random() < 0.6:
            s.sketch_name = text()
        if rng.random() < 0.6:
            s.sketch_version = text()
        s.battery_level = rng.choice([0, 1, 50, 100, 100, 7])
        s.protocol_version = rng.choice(["1.4", "1.5", "2.0", "2.1", "2.2", "2.3.1", " 2.0", "2.0.0", "v2.1", "1.4"])
        s.heartbeat = rng.choice([0, 1, -5, 1000, 2 ** 31, 2 ** 70, 10 ** 40])
        cids = [0, 1, 2, 5, 254, 255]
        rng.shuffle(cids)
        for cid in cids[:rng.choice([0, 1, 2, 3])]:
            c = ChildSensor(cid, rng.choice([0, 3, 6, 23, 39]), text())
            vts = [0, 1, 2, 16, 24, 47, 56, 255]
            rng.shuffle(vts)
            for vt in vts[:rng.choice([0, 0, 1, 2, 4])]:
                c.values[vt] = text()
            s.children[cid] = c
        # transient state that must not come back
        if s.children and rng.random() < 0.5:
            s.init_smart_sleep_mode()
            for cid, c in s.new_state.items():
                for vt in list(s.children[cid].values)[:2]:
                    c.values[vt] = rng.choice([None, "1", text()])
        if rng.random() < 0.4:
            s.queue = deque([f"{sid};1;1;0;2;{i}\n" for i in range(rng.choice([1, 2]))])
        if rng.random() < 0.3:
            s.reboot = True
        sensors[sid] = s
    return sensors


class NullTransport:
    def __init__(self):
        self.sent = []
        self.can_log = False
        self.protocol = None
        self.connect_task = None

    def send(self, message):
        if message:
            self.sent.append(message)

    def connect(self):
        pass

    def disconnect(self):
        pass


def history_lines(rng, version, n):
    """Lines that build a network on a real gateway: presentations, sets with exotic payloads,
    sketch names, battery, heartbeats, id requests."""
    from mysensors.const import get_const
    const = get_const(version)
    mt, internal, pres, sr = const.MessageType, const.Internal, const.Presentation, const.SetReq
    nodes = [0, 1, 2, 254, 253]
    lines = []
    free_text = [sr.V_VAR1, sr.V_VAR2, sr.V_VAR3]
    if hasattr(sr, "V_TEXT"):
        free_text.append(sr.V_TEXT)
    for _ in range(n):
        r = rng.random()
        node = rng.choice(nodes)
        if r < 0.15:
            lines.append(f"{node};255;{int(mt.presentation)};0;{int(pres.S_ARDUINO_NODE)};"
                         f"{rng.choice(['1.4', '2.0', '2.2', '2.3.1', ' 2.1', 'junk', version])}\n")
        elif r < 0.35:
            lines.append(f"{node};{rng.choice([0, 1, 5, 254])};{int(mt.presentation)};0;"
                         f"{int(rng.choice(list(pres)))};{exotic_text(rng, wire=True)}\n")
        elif r < 0.6:
            lines.append(f"{node};{rng.choice([0, 1, 5, 254])};{int(mt.set)};0;{int(rng.choice(free_text))};"
                         f"{exotic_text(rng, wire=True)}\n")
        elif r < 0.7:
            lines.append(f"{node};{rng.choice([0, 1, 5])};{int(mt.set)};0;{int(sr.V_TEMP)};{rng.choice(['21.5', '-3', '0'])}\n")
        elif r < 0.78:
            lines.append(f"{node};255;{int(mt.internal)};0;{int(internal.I_SKETCH_NAME)};{exotic_text(rng, wire=True)}\n")
        elif r < 0.84:
            lines.append(f"{node};255;{int(mt.internal)};0;{int(internal.I_SKETCH_VERSION)};{exotic_text(rng, wire=True)}\n")
        elif r < 0.9:
            lines.append(f"{node};255;{int(mt.internal)};0;{int(internal.I_BATTERY_LEVEL)};{rng.choice(['0', '55', '100', '101', 'x'])}\n")
        elif r < 0.92:
            lines.append(f"255;255;{int(mt.internal)};0;{int(internal.I_ID_REQUEST)};\n")
        elif version >= "2.0":
            sub = internal.I_HEARTBEAT_RESPONSE
            if version >= "2.2" and rng.random() < 0.6:
                sub = internal.I_PRE_SLEEP_NOTIFICATION
            lines.append(f"{node};255;{int(mt.internal)};0;{int(sub)};{rng.choice(['1', '123456', '500'])}\n")
    return lines


def make_gateway(version="2.2", persistence_file=None, flavour="async"):
    """A real gateway on a do-nothing transport (inline pump for `async`)."""
    from mysensors import BaseAsyncGateway, BaseSyncGateway
    cls = BaseAsyncGateway if flavour == "async" else BaseSyncGateway
    kwargs = {"protocol_version": version}
    if persistence_file:
        kwargs.update(persistence=True, persistence_file=persistence_file)
    return cls(NullTransport(), **kwargs)


def feed(gw, line):
    """One inbound line through the real pump entry (`logic`)."""
    return gw.logic(line)


def gateway_state(rng, version, n, audit=None):
    """`audit` collects (node, child, value type, value, persisted projection before, after) whenever a desired
    value set by the controller for a sleeping node changed what a save would write."""
    gw = make_gateway(version)
    for line in history_lines(rng, version, n):
        try:
            feed(gw, line)
        except Exception:  # noqa: BLE001  (other properties' business)
            pass
        if rng.random() < 0.05 and gw.sensors:
            # controller side: reboot requests, desired values on sleeping nodes
            nid = rng.choice(list(gw.sensors))
            gw.sensors[nid].reboot = True
    for nid, s in gw.sensors.items():
        if s.new_state and rng.random() < 0.8:
            for cid, c in s.children.items():
                # a value type the node has reported, and some it has not reported (yet)
                for vt in list(c.values)[:1] + [t for t in (0, 2, 3, 24, 47) if t not in c.values]:
                    value = rng.choice(["1", "0", "x"])
                    before = project_reset({nid: s})
                    try:
                        gw.set_child_value(nid, cid, vt, value)
                    except Exception:  # noqa: BLE001
                        pass
                    after = project_reset({nid: s})
                    if audit is not None and before != after:
                        audit.append((nid, cid, vt, value, before, after))
    return gw.sensors


def persistence_for(sensors, path):
    """A real `Persistence` object over `sensors` (the schedule factory is not used)."""
    from mysensors.persistence import Persistence
    return Persistence(sensors, lambda save: save, path)


def save_bytes(sensors, workdir, fmt, name="enc"):
    """Serialisation of `sensors` by the real save, as bytes."""
    path = os.path.join(workdir, f"{name}.{fmt}")
    for p in (path, path + ".bak"):
        if os.path.exists(p):
            os.remove(p)
    pers = persistence_for(sensors, path)
    pers.save_sensors()
    with open(path, "rb") as fh:
        data = fh.read()
    os.remove(path)
    return data


@contextlib.contextmanager
def spelled(path, how):
    """`path` named the way a user may name it: 0 absolute, 1 relative to the working directory (which is
    changed for the duration), 2 through a symbolic link to its directory."""
    cwd = os.getcwd()
    named = path
    try:
        if how == 1:
            os.chdir(os.path.dirname(path))
            named = os.path.basename(path)
        elif how == 2:
            link = os.path.dirname(path).rstrip("/") + "-link"
            try:
                if not os.path.islink(link):
                    os.symlink(os.path.dirname(path), link)
                named = os.path.join(link, os.path.basename(path))
            except OSError:
                named = path
        yield named
    finally:
        os.chdir(cwd)


_SPELLING = [0]


def fresh_load(path):
    """`safe_load_sensors()` of a fresh gateway on `path`: (exception or None, sensors).  The file is named
    as an absolute path, relative to the working directory, or through a symbolic link to its directory, in
    rotation — what is loaded must not depend on how the user spelled the path."""
    _SPELLING[0] += 1
    how = _SPELLING[0] % 3
    cwd = os.getcwd()
    named = path
    try:
        if how == 1:
            os.chdir(os.path.dirname(path))
            named = os.path.basename(path)
        elif how == 2:
            link = os.path.dirname(path).rstrip("/") + "-link"
            try:
                if not os.path.islink(link):
                    os.symlink(os.path.dirname(path), link)
                named = os.path.join(link, os.path.basename(path))
            except OSError:
                named = path
        gw = make_gateway("2.2", persistence_file=named)
        try:
            gw.tasks.persistence.safe_load_sensors()
        except BaseException as exc:  # noqa: BLE001
            return exc, gw.sensors
        return None, gw.sensors
    finally:
        os.chdir(cwd)


def tmp_name(path):
    base, ext = os.path.splitext(path)
    return f"{base}.tmp{ext}"


def put(path, data):
    if data is None:
        if os.path.exists(path):
            os.remove(path)
        return
    with open(path, "wb") as fh:
        fh.write(data)


def get(path):
    try:
        with open(path, "rb") as fh:
            return fh.read()
    except FileNotFoundError:
        return None


# ---------------------------------------------------------------------------------------------
# fault-injecting, recording file-operation shim
# ---------------------------------------------------------------------------------------------

class Crash(BaseException):
    """The process dies here (BaseException: no handler of the library may swallow it)."""


class FileProxy:
    def __init__(self, shim, real, path):
        self._shim, self._real, self._path = shim, real, path

    def write(self, data):
        self._shim.op("write", self._path)
        self._shim.buffered.add(self._path)          # in the process's buffer, not yet handed to the OS
        return self._real.write(data)

    def flush(self):
        self._shim.op("flush", self._path)
        out = self._real.flush()
        self._shim.buffered.discard(self._path)
        return out

    def fileno(self):
        return self._real.fileno()

    def close(self):
        if self._real.closed:
            return
        try:
            self._shim.op("close", self._path)
        finally:
            if self._shim.dead:
                # the process is gone: buffered data never reaches the file
                self._shim.abandon(self._real)
            else:
                if self._path in self._shim.buffered:
                    # close() hands the rest of the buffer to the OS only now: after any fsync, so not durable
                    self._shim.buffered.discard(self._path)
                    self._shim.unsynced.add(self._path)
                self._real.close()

    def __enter__(self):
        return self

    def __exit__(self, *exc):
        self.close()
        return False

    def __getattr__(self, name):
        return getattr(self._real, name)


class OsProxy:
    def __init__(self, shim):
        self._shim = shim

    def __getattr__(self, name):
        return getattr(os, name)

    def open(self, path, flags, *args, **kwargs):
        # os.open used to create the file to be written (e.g. to set its mode)
        writing = flags & (os.O_WRONLY | os.O_RDWR | os.O_CREAT | os.O_APPEND | os.O_TRUNC)
        if writing:
            self._shim.op("open", os.path.basename(path))
        fd = os.open(path, flags, *args, **kwargs)
        if writing:
            self._shim.fd_path[fd] = path
            self._shim.unsynced.add(path)
        return fd

    def fsync(self, fd):
        path = self._shim.fd_path.get(fd)
        self._shim.op("fsync", path)
        res = os.fsync(fd)
        if path not in self._shim.buffered:
            self._shim.unsynced.discard(path)        # only what was flushed before is made durable
        return res

    def rename(self, src, dst):
        self._shim.op("rename", os.path.basename(src), os.path.basename(dst))
        res = os.rename(src, dst)
        if src in self._shim.unsynced:
            self._shim.unsynced.discard(src)
            self._shim.unsynced.add(dst)
        else:
            self._shim.unsynced.discard(dst)
        return res

    def replace(self, src, dst):
        # on POSIX os.replace is os.rename: the same atomic, overwriting system call
        return self.rename(src, dst)

    def remove(self, path):
        self._shim.op("remove", os.path.basename(path))
        res = os.remove(path)
        self._shim.unsynced.discard(path)
        return res

    def unlink(self, path):
        return self.remove(path)

    def link(self, src, dst):
        self._shim.op("link", os.path.basename(src), os.path.basename(dst))
        res = os.link(src, dst)
        if src in self._shim.unsynced:
            self._shim.unsynced.add(dst)
        return res

    def access(self, path, mode):
        if self._shim.deny_access and mode == os.W_OK:
            return False
        return os.access(path, mode)


class FsShim:
    """mode: None (record only) | "crash" | "fail"; `at` = index of the real operation before
    which the process dies / which raises OSError."""

    def __init__(self, mode=None, at=None, on_crash=None, only=None, deny_access=False):
        self.mode, self.at, self.on_crash = mode, at, on_crash
        self.only = only            # predicate (name, args): fail the first matching op instead of an index
        self.ops = []
        self.unsynced = set()
        self.buffered = set()
        self.fd_path = {}
        self.dead = False
        self.fired = False
        self.deny_access = deny_access
        self._abandoned = []

    def op(self, name, *args):
        if self.dead:
            raise Crash()
        idx = len(self.ops)
        hit = (self.at is not None and idx == self.at) or (self.only is not None and self.only(name, args))
        if hit and not self.fired and self.mode == "crash":
            self.fired = True
            self.dead = True
            if self.on_crash:
                self.on_crash(self)
            raise Crash()
        self.ops.append((name,) + args)
        if hit and not self.fired and self.mode == "fail":
            self.fired = True
            raise OSError(errno.EIO, f"injected failure of {name}")

    def abandon(self, real):
        # keep the object alive, unflushed, until the test is over; detach its buffer
        self._abandoned.append(real)

    def open(self, path, mode="r", *args, **kwargs):
        if isinstance(path, int):
            # a descriptor from os.open (already recorded there)
            real = open(path, mode, *args, **kwargs)
            return FileProxy(self, real, self.fd_path.get(path))
        if "w" in mode or "a" in mode or "+" in mode:
            self.op("open", os.path.basename(path))
            real = open(path, mode, *args, **kwargs)
            self.fd_path[real.fileno()] = path
            self.unsynced.add(path)
            return FileProxy(self, real, path)
        return open(path, mode, *args, **kwargs)

    def cleanup(self):
        for real in self._abandoned:
            try:
                real.close()
            except (OSError, ValueError):
                pass
        self._abandoned = []

    @contextlib.contextmanager
    def installed(self):
        import mysensors.persistence as mp
        had_open = "open" in mp.__dict__
        old_open = mp.__dict__.get("open")
        old_os = mp.os
        mp.open = self.open
        mp.os = OsProxy(self)
        try:
            yield self
        finally:
            mp.os = old_os
            if had_open:
                mp.open = old_open
            else:
                del mp.open
            self.cleanup()


MODEL_OP = {"open": "openTmp", "write": "write", "flush": "flush", "fsync": "fsync", "close": "close"}


def model_ops(real_ops, main, bak, tmp):
    """Real recorded operations → the model's operation names (consecutive writes collapse)."""
    out = []
    main, bak, tmp = (os.path.basename(p) for p in (main, bak, tmp))
    for op in real_ops:
        name = op[0]
        if name == "rename":
            if op[1:] == (main, bak):
                m = "renMainBak"
            elif op[1:] == (tmp, main):
                m = "renTmpMain"
            else:
                m = f"rename({op[1]},{op[2]})"
        elif name == "remove":
            m = "rmBak" if op[1] == bak else f"remove({op[1]})"
        elif name == "open":
            m = "openTmp" if op[1] == tmp else f"open({op[1]})"
        else:
            m = MODEL_OP.get(name, name)
        if m == "write" and out and out[-1] == "write":
            continue
        out.append(m)
    return out


def rmtree(path):
    shutil.rmtree(path, ignore_errors=True)


# ---------------------------------------------------------------------------------------------
# fake timers / fake asyncio.sleep for the save scheduler
# ---------------------------------------------------------------------------------------------

class FakeTimer:
    """Stands in for threading.Timer inside mysensors.task: records, never runs by itself."""
    instances = []

    def __init__(self, interval, function, args=None, kwargs=None):
        self.interval, self.function = interval, function
        self.args, self.kwargs = args or [], kwargs or {}
        self.started = False
        self.cancelled = False
        self.fired = False
        FakeTimer.instances.append(self)

    def start(self):
        self.started = True

    def cancel(self):
        self.cancelled = True

    def fire(self):
        self.fired = True
        self.function(*self.args, **self.kwargs)


@contextlib.contextmanager
def fake_timers():
    import threading
    import types
    import mysensors.task as mt
    old = mt.threading
    FakeTimer.instances = []
    mt.threading = types.SimpleNamespace(Timer=FakeTimer, Thread=threading.Thread, Event=threading.Event)
    try:
        yield FakeTimer
    finally:
        mt.threading = old


def op_matcher(model_op, main):
    """Predicate on a real (name, args) for the model operation name."""
    bak = os.path.basename(main) + ".bak"
    tmp = os.path.basename(tmp_name(main))
    simple = {"openTmp": "open", "write": "write", "flush": "flush", "fsync": "fsync", "close": "close"}
    if model_op in simple:
        return lambda name, args: name == simple[model_op]
    if model_op == "renMainBak":
        return lambda name, args: name == "rename" and args[1] == bak
    if model_op == "renTmpMain":
        return lambda name, args: name == "rename" and args[0] == tmp
    if model_op == "rmBak":
        return lambda name, args: name == "remove"
    raise ValueError(model_op)
