"""The shutdown window of the real `stop()` (C14 / C06), tied to Model/StopOrder.lean.

Real TCP gateways of both flavours (never started, never connected to a socket) get a fake
connection object behind their *real* Transport, so `Transport.send` / `disconnect` decide what
goes out.  Id requests are handled by the real pump code at four places: before stop(), at the
moment stop() reaches `transport.disconnect()`, at the moment it reaches the final
`save_sensors()`, and after stop() has returned.  Recorded: the order of stop()'s own two actions
(must equal the model's `script`), the ids that went out on the wire and the nodes a fresh gateway
loads from the file (must equal the model's `STOPRUN` of the same schedule; the oracle asks for
"every id handed out is in the file" directly)."""
import itertools
import os
import shutil
import tempfile

from . import persist_util as pu
from .common import digest

ID_REQUEST = "255;255;3;0;3;\n"


class Conn:
    """what protocol.transport is: a serial ReaderThread / TCPTransport / asyncio transport"""

    def __init__(self):
        self.written = []
        self.closed = False

    def write(self, data):
        if self.closed:
            raise OSError(9, "Bad file descriptor")
        self.written.append(bytes(data))

    def close(self):
        self.closed = True

    def is_closing(self):
        return self.closed


def make(flavour, path):
    import mysensors.gateway_tcp as gtcp
    cls = gtcp.TCPGateway if flavour == "sync" else gtcp.AsyncTCPGateway
    gw = cls("127.0.0.1", persistence=True, persistence_file=path, protocol_version="2.2")
    conn = Conn()
    gw.tasks.transport.protocol.transport = conn
    return gw, conn


def pump(gw, n):
    """the message pump handles n id requests (threaded flavour: what _poll_queue does with the queue)"""
    for _ in range(n):
        gw.tasks.add_job(gw.logic, ID_REQUEST)
        queue = getattr(gw.tasks, "queue", None)
        while queue:
            job = queue.popleft()
            reply = gw.tasks.run_job(job)
            gw.tasks.transport.send(reply)


def run_window(flavour, fmt, counts, workdir, reconnecting=False):
    """counts = (tick, p0, p1, p2, p3, p4, p5): id requests handled before everything (p0); if tick: a
    periodic save with p1 requests handled while it writes (after the network was serialised); then stop()
    with p2 requests at the moment of the disconnect, p3 between disconnect and final save, p4 while the final
    save writes, p5 after stop() returned.  Returns (order of stop's actions, ids handed out, node ids in the
    file, need_save at the end, exception name or None)."""
    import asyncio
    tick, p0, p1, p2, p3, p4, p5 = counts
    store = os.path.join(workdir, "store")
    os.makedirs(store, exist_ok=True)
    path = os.path.join(store, f"win.{fmt}")
    for p in (path, path + ".bak"):
        if os.path.exists(p):
            os.remove(p)
    # every third window names the file the way the library's default does: a bare name in the working directory
    bare = sum(counts) % 3 == 2 and tick != 2
    cwd = os.getcwd()
    if bare:
        os.chdir(store)
    try:
        return _run_window(flavour, fmt, counts, store, path, os.path.basename(path) if bare else path, reconnecting)
    finally:
        os.chdir(cwd)


def _run_window(flavour, fmt, counts, store, path, named, reconnecting):
    import asyncio
    tick, p0, p1, p2, p3, p4, p5 = counts
    gw, conn = make(flavour, named)
    order = []
    stopped = [False]
    swap_failed = [False]
    during = [0]
    in_stop = [False]
    tr, pers = gw.tasks.transport, gw.tasks.persistence
    real_disconnect, real_save, real_action = tr.disconnect, pers.save_sensors, pers._perform_file_action

    def disconnect():
        order.append("disconnect")
        pump(gw, p2)
        return real_disconnect()

    def save_sensors():
        if in_stop[0]:
            order.append("save")
            pump(gw, p3)
            during[0] = p4
        try:
            return real_save()
        finally:
            # nothing was written (nothing marked unsaved): the same lines are handled all the same
            n, during[0] = during[0], 0
            pump(gw, n)

    nested = [None]

    def perform_file_action(filename, action):
        result = real_action(filename, action)
        if action == "save":
            # the network has been serialised; the file has not been swapped in yet
            n, during[0] = during[0], 0
            pump(gw, n)
            hook, nested[0] = nested[0], None
            if hook is not None:
                hook()
        return result
    tr.disconnect = disconnect
    pers.save_sensors = save_sensors
    pers._perform_file_action = perform_file_action
    exc = None
    try:
        pump(gw, p0)
        if tick == 1:
            during[0] = p1
            pers.save_sensors()
        elif tick == 2:
            # the storage is away for this one periodic save (unmounted, directory missing): nothing can be
            # written, the network stays marked unsaved, the lines are handled all the same
            os.rename(store, store + ".away")
            try:
                during[0] = p1
                pers.save_sensors()
            except OSError:
                pass
            finally:
                os.rename(store + ".away", store)
        elif tick in (5, 6):
            # the user's stop() arrives while a periodic save is writing (the save timer runs on its own thread):
            # p1 lines after the periodic save serialised the network, then the whole of stop() — p2 lines at its
            # disconnect — and only then does the periodic save get to swap its file in.  Tick 6: a file from an
            # earlier save exists.
            if tick == 6:
                pers.save_sensors()
                pump(gw, 1)

            def stop_inside():
                pump(gw, p1)
                in_stop[0] = True
                gw.stop()
                in_stop[0] = False
            nested[0] = stop_inside
            try:
                pers.save_sensors()
            except OSError:
                pass                    # the periodic save lost the race for the temporary file: logged, not fatal
            stopped[0] = True
        elif tick in (3, 4):
            # a periodic save that wrote its data but could not swap the file in: the first (tick 3) or the
            # second (tick 4) rename / replace of the swap fails once (target busy, sharing violation).  Before
            # it, a periodic save that works (so there is a file to swap) and p1 lines that change the network
            import mysensors.persistence as pmod
            pers.save_sensors()
            pump(gw, p1)
            real_os, calls = pmod.os, [0]

            class FailingOs:
                def __getattr__(self, name):
                    attr = getattr(real_os, name)
                    if name not in ("rename", "replace", "renames", "link"):
                        return attr

                    def swap_step(*a, **kw):
                        calls[0] += 1
                        if calls[0] == tick - 2:
                            raise OSError(16, "Device or resource busy")
                        return attr(*a, **kw)
                    return swap_step
            pmod.os = FailingOs()
            try:
                pers.save_sensors()
            except OSError:
                swap_failed[0] = True
            finally:
                pmod.os = real_os
        in_stop[0] = True
        if stopped[0]:
            pass
        elif flavour == "sync":
            gw.stop()
        else:
            loop = asyncio.new_event_loop()

            async def dialling():
                # what async_connect does between attempts; like it, it lets the cancellation through
                await asyncio.sleep(3600)

            async def stop_it():
                if reconnecting:
                    # the link was lost and the gateway is re-dialling when the user stops it
                    tr.connect_task = asyncio.ensure_future(dialling())
                    await asyncio.sleep(0)
                await gw.stop()
            try:
                loop.run_until_complete(stop_it())
                loop.run_until_complete(loop.shutdown_default_executor())
            finally:
                loop.close()
        in_stop[0] = False
        pump(gw, p5)
    except BaseException as e:  # noqa: BLE001  (CancelledError is a BaseException)
        exc = type(e).__name__
    handed = []
    for w in conn.written:
        parts = w.decode().strip().split(";")
        if parts[:5] == ["255", "255", "3", "0", "4"]:
            handed.append(int(parts[5]))
    err, loaded = pu.fresh_load(path)
    in_file = sorted(loaded) if err is None else ["load-raised"]
    if tick in (3, 4) and not swap_failed[0] and exc is None:
        exc = "swap-did-not-fail"       # the save got by without the failing call: told apart by model_line
    if tick in (5, 6) and exc is None:
        exc = "no-model"                # two saves at once: outside the window model (its `hidle` premise)
    return order, handed, in_file, int(bool(pers.need_save)), exc


def model_line(counts, swap_failed=True):
    tick, p0, p1, p2, p3, p4, p5 = counts
    k = itertools.count(1)

    def procs(n):
        return [f"proc{next(k)}" for _ in range(n)]
    evs = procs(p0)
    if tick == 1:
        evs += ["saveStart"] + procs(p1) + ["saveEnd"]
    elif tick == 2:
        evs += procs(p1)            # a save that could not write: nothing saved, nothing marked saved
    elif tick in (3, 4):
        evs += ["saveStart", "saveEnd"] + procs(p1)     # then a save whose swap failed: as if it had not run
        if not swap_failed:
            evs += ["saveStart", "saveEnd"]
    evs += procs(p2) + ["disconnect"] + procs(p3) + ["saveStart"] + procs(p4) + ["saveEnd"] + procs(p5)
    return "STOPRUN " + " ".join(evs)


def windows(tier):
    top = 2 if tier == "quick" else 3
    for tick in (0, 1, 2, 3, 4, 5, 6):
        for c in itertools.product(range(top), repeat=6):
            if not tick and c[1]:
                continue
            if tick >= 2 and (c[3] or c[4] or c[5]):
                continue            # the failing periodic saves are combined with work before / at the disconnect only
            yield (tick,) + c


def timer_thread_check(res, workdir):
    """The threaded flavour's periodic save runs on a threading.Timer thread.  The interpreter waits for
    non-daemon threads at exit, so a save that is writing when the program ends (after a clean stop()) is
    completed; on a daemon thread it would be abandoned with need_save already cleared."""
    import mysensors.task as task_mod
    created = []

    class RecTimer:
        def __init__(self, interval, function, args=None, kwargs=None):
            self.interval, self.function, self.daemon, self.started = interval, function, False, False
            created.append(self)

        def start(self):
            self.started = True

        def cancel(self):
            pass

    class Proxy:
        Timer = RecTimer

        def __getattr__(self, name):
            return getattr(real, name)
    real = task_mod.threading
    task_mod.threading = Proxy()
    try:
        gw, _conn = make("sync", os.path.join(workdir, "timer.json"))
        gw.tasks.persistence.schedule_save_sensors()
    finally:
        task_mod.threading = real
    res.evaluations += 1
    res.count("timer-thread-check")
    rep = {"op": "timer-thread"}
    if not created or not created[-1].started:
        res.oracle_failures.append({"key": {"kind": "save-schedule-not-armed"}, "replay": rep,
                                    "what": "schedule_save_sensors() did not arm a timer for the next periodic save"})
    elif created[-1].daemon:
        res.oracle_failures.append({
            "key": {"kind": "save-timer-is-daemon"}, "replay": rep,
            "what": "the periodic save runs on a daemon timer thread: a save still writing when the program ends "
                    "after stop() is abandoned with need_save already cleared, and what it was writing is lost"})


def part(res, prop, driver, tier):
    """Adds to `res` (the property's Result)."""
    work = tempfile.mkdtemp(prefix="verif-stopwin-")
    lines, impl, cases = ["STOPSCRIPT"], [None], [None]
    try:
        timer_thread_check(res, work)
    except Exception as e:  # noqa: BLE001
        res.oracle_failures.append({"key": {"kind": "timer-thread-check-raised"}, "replay": {"op": "timer-thread"},
                                    "what": f"arming the periodic save raised {type(e).__name__}: {e}"})
    try:
        for flavour in ("sync", "async"):
            for fmt in ("json", "pickle"):
                for counts in windows(tier):
                    if tier == "quick" and fmt == "pickle" and sum(counts[1:]) not in (1, 2):
                        continue
                    if counts[0] in (5, 6) and flavour != "sync":
                        continue      # (the asyncio stop() awaits the cancelled save task first)
                    # asyncio flavour: every other window is a stop() issued while the gateway is re-dialling
                    reconnecting = flavour == "async" and sum(counts) % 2 == 1
                    order, handed, in_file, dirty, exc = run_window(flavour, fmt, counts, work, reconnecting)
                    res.evaluations += 1
                    res.count("stop-window:" + flavour + (":reconnecting" if reconnecting else ""))
                    if sum(counts[1:]):
                        res.distinct.add(digest(["stopwin", flavour, fmt, counts]))
                    rep = {"op": "stop-window", "flavour": flavour, "fmt": fmt, "counts": list(counts),
                           "reconnecting": reconnecting}
                    key = {"kind": "stop-window", "flavour": flavour}
                    swap_failed = True
                    no_model = exc == "no-model"
                    if no_model:
                        exc = None
                    if exc == "swap-did-not-fail":
                        exc, swap_failed = None, False
                    if exc is not None:
                        res.oracle_failures.append({"key": dict(key, what="raised"), "replay": rep,
                                                    "what": f"{flavour} stop() window {counts}: raised {exc}"})
                        continue
                    lost = [i for i in handed if i not in in_file]
                    if lost:
                        res.oracle_failures.append({
                            "key": dict(key, what="handed-not-saved"), "replay": rep,
                            "what": f"{flavour} gateway, {fmt}: ids {lost} went out on the wire but are not in the file "
                                    f"stop() left (order of stop's actions: {order}; periodic save first: {['no', 'yes', 'yes, storage unavailable', 'yes, then one whose file swap failed at the first step', 'yes, then one whose file swap failed at the second step', 'stop() arrives while it writes', 'stop() arrives while it writes (a file from an earlier save exists)'][counts[0]]}; "
                                    f"id requests before / while the periodic save writes / at the disconnect / before "
                                    f"the final save / while it writes / after stop = {counts[1:]})"})
                    if no_model:
                        continue
                    lines.append(model_line(counts, swap_failed))
                    impl.append(f"handed={','.join(map(str, handed)) or '-'} "
                                f"file={','.join(map(str, in_file)) or '-'} connected=0 dirty={dirty}")
                    cases.append((flavour, fmt, counts, ",".join(order)))
    finally:
        shutil.rmtree(work, ignore_errors=True)
    if driver is None:
        return
    try:
        out = driver.run(lines)
    except Exception as e:  # noqa: BLE001
        res.corr_diffs.append({"name": f"{prop}-stop-window-driver", "case": "driver", "model": str(e)[:300], "impl": ""})
        return
    script = out[0].replace("saveStart,saveEnd", "save")
    nd = 0
    for m, i, c in zip(out[1:], impl[1:], cases[1:]):
        res.traces_validated += 1
        flavour, fmt, counts, order = c
        if order != script and nd < 4:
            nd += 1
            res.corr_diffs.append({"name": f"{prop}-stop-order", "case": {"flavour": flavour, "fmt": fmt},
                                   "model": script, "impl": order})
        if m != i and nd < 8:
            nd += 1
            res.corr_diffs.append({"name": f"{prop}-stop-window", "model": m, "impl": i,
                                   "case": {"flavour": flavour, "fmt": fmt, "counts": list(counts)}})


def replay(r):
    if r.get("op") == "timer-thread":
        from .common import Result
        res = Result()
        work = tempfile.mkdtemp(prefix="verif-stopwin-")
        try:
            timer_thread_check(res, work)
        finally:
            shutil.rmtree(work, ignore_errors=True)
        print(res.oracle_failures or "pass")
        return 1 if res.oracle_failures else 0
    work = tempfile.mkdtemp(prefix="verif-stopwin-")
    try:
        order, handed, in_file, dirty, exc = run_window(r["flavour"], r["fmt"], tuple(r["counts"]), work,
                                                        bool(r.get("reconnecting")))
    finally:
        shutil.rmtree(work, ignore_errors=True)
    print("order of stop's actions:", order, " handed out:", handed, " in the file:", in_file, " raised:", exc)
    if exc in ("swap-did-not-fail", "no-model"):
        exc = None
    return 1 if exc is not None or any(i not in in_file for i in handed) else 0
