"""The shutdown window of the real `stop()` (C14 / C06), tied to Model/StopOrder.lean.

Real TCP gateways of both flavours (never started, never connected to a socket) get a fake
connection object behind their *real* Transport, so `Transport.send` / `disconnect` decide what
goes out.  Id requests are handled by the real pump code at four places: before stop(), at the
moment stop() reaches `transport.disconnect()`, at the moment it reaches the final
`save_sensors()`, and after stop() has returned.  Recorded: the order of stop()'s own two actions
(must equal the model's `script`), the ids that went out on the wire and the nodes a fresh gateway
loads from the file (must equal the model's `STOPRUN` of the same schedule; the oracle asks for
"every id handed out is in the file" directly)."""
import itertools
import os
import shutil
import tempfile

from . import persist_util as pu
from .common import digest

ID_REQUEST = "255;255;3;0;3;\n"


class Conn:
    """what protocol.transport is: a serial ReaderThread / TCPTransport / asyncio transport"""

    def __init__(self):
        self.written = []
        self.closed = False

    def write(self, data):
        if self.closed:
            raise OSError(9, "Bad file descriptor")
        self.written.append(bytes(data))

    def close(self):
        self.closed = True

    def is_closing(self):
        return self.closed


def make(flavour, path):
    import mysensors.gateway_tcp as gtcp
    cls = gtcp.TCPGateway if flavour == "sync" else gtcp.AsyncTCPGateway
    gw = cls("127.0.0.1", persistence=True, persistence_file=path, protocol_version="2.2")
    conn = Conn()
    gw.tasks.transport.protocol.transport = conn
    return gw, conn


def pump(gw, n):
    """the message pump handles n id requests (threaded flavour: what _poll_queue does with the queue)"""
    for _ in range(n):
        gw.tasks.add_job(gw.logic, ID_REQUEST)
        queue = getattr(gw.tasks, "queue", None)
        while queue:
            job = queue.popleft()
            reply = gw.tasks.run_job(job)
            gw.tasks.transport.send(reply)


def run_window(flavour, fmt, counts, workdir):
    """counts = procs (before stop, at disconnect, at final save, after stop).  Returns
    (order of stop's actions, ids handed out, node ids in the file, exception name or None)."""
    import asyncio
    path = os.path.join(workdir, f"win.{fmt}")
    for p in (path, path + ".bak"):
        if os.path.exists(p):
            os.remove(p)
    gw, conn = make(flavour, path)
    order = []
    tr, pers = gw.tasks.transport, gw.tasks.persistence
    real_disconnect, real_save = tr.disconnect, pers.save_sensors

    def disconnect():
        order.append("disconnect")
        pump(gw, counts[1])
        return real_disconnect()

    def save_sensors():
        order.append("save")
        pump(gw, counts[2])
        return real_save()
    tr.disconnect = disconnect
    pers.save_sensors = save_sensors
    exc = None
    try:
        pump(gw, counts[0])
        if flavour == "sync":
            gw.stop()
        else:
            loop = asyncio.new_event_loop()
            try:
                loop.run_until_complete(gw.stop())
                loop.run_until_complete(loop.shutdown_default_executor())
            finally:
                loop.close()
        pump(gw, counts[3])
    except Exception as e:  # noqa: BLE001
        exc = type(e).__name__
    handed = []
    for w in conn.written:
        parts = w.decode().strip().split(";")
        if parts[:5] == ["255", "255", "3", "0", "4"]:
            handed.append(int(parts[5]))
    err, loaded = pu.fresh_load(path)
    in_file = sorted(loaded) if err is None else ["load-raised"]
    return order, handed, in_file, exc


def model_line(counts):
    k = itertools.count(1)
    evs = [f"proc{next(k)}" for _ in range(counts[0] + counts[1])] + ["disconnect"]
    evs += [f"proc{next(k)}" for _ in range(counts[2])] + ["save"]
    evs += [f"proc{next(k)}" for _ in range(counts[3])]
    return "STOPRUN " + " ".join(evs)


def part(res, prop, driver, tier):
    """Adds to `res` (the property's Result)."""
    work = tempfile.mkdtemp(prefix="verif-stopwin-")
    lines, impl, cases = ["STOPSCRIPT"], [None], [None]
    top = 2 if tier == "quick" else 3
    try:
        for flavour in ("sync", "async"):
            for fmt in ("json", "pickle"):
                for counts in itertools.product(range(top), repeat=4):
                    if tier == "quick" and fmt == "pickle" and sum(counts) not in (1, 2):
                        continue
                    order, handed, in_file, exc = run_window(flavour, fmt, counts, work)
                    res.evaluations += 1
                    res.count("stop-window:" + flavour)
                    if sum(counts):
                        res.distinct.add(digest(["stopwin", flavour, fmt, counts]))
                    rep = {"op": "stop-window", "flavour": flavour, "fmt": fmt, "counts": list(counts)}
                    key = {"kind": "stop-window", "flavour": flavour}
                    if exc is not None:
                        res.oracle_failures.append({"key": dict(key, what="raised"), "replay": rep,
                                                    "what": f"{flavour} stop() window {counts}: raised {exc}"})
                        continue
                    lost = [i for i in handed if i not in in_file]
                    if lost:
                        res.oracle_failures.append({
                            "key": dict(key, what="handed-not-saved"), "replay": rep,
                            "what": f"{flavour} gateway, {fmt}: ids {lost} went out on the wire while stop() was running "
                                    f"but are not in the file it left (order of stop's actions: {order}; id requests "
                                    f"before stop / at disconnect / at final save / after stop = {counts})"})
                    lines.append(model_line(counts))
                    impl.append(f"handed={','.join(map(str, handed)) or '-'} "
                                f"file={','.join(map(str, in_file)) or '-'} connected=0")
                    cases.append((flavour, fmt, counts, ",".join(order)))
    finally:
        shutil.rmtree(work, ignore_errors=True)
    if driver is None:
        return
    try:
        out = driver.run(lines)
    except Exception as e:  # noqa: BLE001
        res.corr_diffs.append({"name": f"{prop}-stop-window-driver", "case": "driver", "model": str(e)[:300], "impl": ""})
        return
    script = out[0]
    nd = 0
    for m, i, c in zip(out[1:], impl[1:], cases[1:]):
        res.traces_validated += 1
        flavour, fmt, counts, order = c
        if order != script and nd < 4:
            nd += 1
            res.corr_diffs.append({"name": f"{prop}-stop-order", "case": {"flavour": flavour, "fmt": fmt},
                                   "model": script, "impl": order})
        if m != i and nd < 8:
            nd += 1
            res.corr_diffs.append({"name": f"{prop}-stop-window", "model": m, "impl": i,
                                   "case": {"flavour": flavour, "fmt": fmt, "counts": list(counts)}})


def replay(r):
    work = tempfile.mkdtemp(prefix="verif-stopwin-")
    try:
        order, handed, in_file, exc = run_window(r["flavour"], r["fmt"], tuple(r["counts"]), work)
    finally:
        shutil.rmtree(work, ignore_errors=True)
    print("order of stop's actions:", order, " handed out:", handed, " in the file:", in_file, " raised:", exc)
    return 1 if exc is not None or any(i not in in_file for i in handed) else 0
