import MySensors.Driver.Main
def main : IO Unit := MySensors.Driver.driverMain
