import MySensors.Py.Str
import MySensors.Py.Int
import MySensors.Model.Rule
import MySensors.Model.Codec
import MySensors.Generated.Tables
import MySensors.Driver.Main
import MySensors.Properties.C09
