/- Driver commands for the framing and pump models (C19). -/
import MySensors.Driver.MqttCmd
import MySensors.Model.Framing
import MySensors.Model.Pump

namespace MySensors.Driver
open MySensors

def hexDigitOf (n : Nat) : Char :=
  if n < 10 then Char.ofNat (48 + n) else Char.ofNat (87 + n)

def showHex (b : Bytes) : String :=
  if b.isEmpty then "e" else String.ofList (b.flatMap fun x => [hexDigitOf (x / 16), hexDigitOf (x % 16)])

/-- the driver's stand-in decoder: one character per byte (the harness applies the real
    decoder to the raw packets; the model is parametric in it) -/
def rawDec (b : Bytes) : Str := b.map Char.ofNat

def showPackets (ps : List Bytes) : String :=
  if ps.isEmpty then "-" else "|".intercalate (ps.map showHex)

/-- feed chunks one by one, collecting raw packets -/
def feedRaw (buf : Bytes) : List Bytes → List Bytes × Bytes
  | [] => ([], buf)
  | c :: cs =>
    let r := packetLoop (buf ++ c).length (buf ++ c)
    let r' := feedRaw r.2 cs
    (r.1 ++ r'.1, r'.2)

def drainPump : Nat → PS GW → PS GW
  | 0, p => p
  | n + 1, p => if p.queue.isEmpty then p else drainPump n (pumpOne gwSplit p)

/-- pump tokens: `A:<line>` arrive, `P` pump one job, `D` pump until the queue is empty,
    `I:<line>` the asyncio flavour's inline add_job, `O:<op>` a controller call -/
def pumpToken (ps : PS GW) (tok : String) : Option (PS GW) :=
  match tok.splitOn ":" with
  | ["A", d] => (decStr d).map fun s => evStep gwSplit ps (.arrive s)
  | ["P"] => some (pumpOne gwSplit ps)
  | ["D"] =>
    some (drainPump 1000000 ps)
  | ["I", d] => (decStr d).map fun s =>
      let r := gwSplit ps.st s
      { ps with st := r.1, emitted := ps.emitted ++ r.2.nested ++ r.2.reply }
  | "O" :: cmd :: args => (parseOp cmd args).map fun op => ctlStep ps op
  | _ => none

/-- event tokens: `L` connection_lost, `M` connection_made, anything else a hex chunk -/
def parseConnEv (tok : String) : Option ConnEv :=
  if tok == "L" then some .lost
  else if tok == "M" then some .made
  else (parseHexBytes tok).map .data

/-- read tokens: `N` the socket was not readable, `e` an empty read, anything else the bytes read -/
def parseRead (tok : String) : Option (Option Bytes) :=
  if tok == "N" then some none else (parseHexBytes tok).map some

def showRawLines (ls : List Str) : String := showPackets (ls.map fun l => l.map Char.toNat)

def framingCmd (cmd : String) (args : List String) : Option String :=
  match cmd, args with
  | "TCPREAD", toks => do
    let rs ← toks.mapM parseRead
    let r := tcpReader rawDec {} rs
    some s!"buf={showHex r.1.buffer} lines={showRawLines r.2}"
  | "EVENTS", toks => do
    let evs ← toks.mapM parseConnEv
    let k := feedEvents true rawDec {} evs
    let d := feedEvents false rawDec {} evs
    some s!"kbuf={showHex k.1.buffer} klines={showRawLines k.2} dbuf={showHex d.1.buffer} dlines={showRawLines d.2}"
  | "FRAME", chunks => do
    let cs ← chunks.mapM parseHexBytes
    let r := feedRaw [] cs
    let whole := segments cs.flatten
    some s!"buf={showHex r.2} lines={showPackets r.1} seg={showPackets whole.1} tail={showHex whole.2}"
  | "CHUNK", [n, d] => do
    let b ← parseHexBytes d
    some (showPackets (chunksOf (← n.toNat?) b))
  | "PUMP", v :: k :: persist :: toks => do
    let g : GW := { const := ← parseConst v, kind := ← parseKind k, persist := persist != "none" }
    let ps ← toks.foldlM pumpToken ({ st := g } : PS GW)
    let em := if ps.emitted.isEmpty then "-" else "|".intercalate (ps.emitted.map encStr)
    some s!"em={em} q={ps.queue.length} st={showState ps.st} ota={showOta ps.st.ota}"
  | _, _ => none

end MySensors.Driver
