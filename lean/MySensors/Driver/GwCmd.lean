/- Driver commands for the gateway model: op parsing and the canonical observation line. -/
import MySensors.Driver.Wire
import MySensors.Model.Gateway
import MySensors.Model.UpdateFw

namespace MySensors.Driver
open MySensors

def optS {α} (f : α → String) : Option α → String
  | none => "None"
  | some a => f a

def showChild (c : Int × Child) : String :=
  let vals := ",".intercalate (c.2.values.map fun (k, v) => s!"{k}={encStr v}")
  s!"{c.1}:{c.2.type}:{encStr c.2.desc}:V({vals})"

def showDesired (d : Int × List (Int × Option Str)) : String :=
  let vals := ",".intercalate (d.2.map fun (k, v) => s!"{k}={optS encStr v}")
  s!"{d.1}:V({vals})"

def showNode (kn : Int × Node) : String :=
  let n := kn.2
  let ch := ";".intercalate (n.children.map showChild)
  let ds := ";".intercalate (n.desired.map showDesired)
  let q := ";".intercalate (n.queue.map encStr)
  "N" ++ toString kn.1 ++ "{t=" ++ optS toString n.type ++ ",sn=" ++ optS encStr n.sketchName ++
    ",sv=" ++ optS encStr n.sketchVersion ++ ",b=" ++ toString n.battery ++ ",v=" ++ encStr n.version ++
    ",h=" ++ toString n.heartbeat ++ ",r=" ++ (if n.reboot then "1" else "0") ++
    ",C[" ++ ch ++ "],D[" ++ ds ++ "],Q[" ++ q ++ "]}"

def showState (g : GW) : String :=
  if g.sensors.isEmpty then "-" else " ".intercalate (g.sensors.map showNode)

def insertBy {α} (lt : α → α → Bool) (x : α) : List α → List α
  | [] => [x]
  | y :: ys => if lt x y then x :: y :: ys else y :: insertBy lt x ys

def sortBy {α} (lt : α → α → Bool) (l : List α) : List α := l.foldr (insertBy lt) []

def showStore (s : List (Int × (Int × Int))) : String :=
  ",".intercalate ((sortBy (fun a b => a.1 < b.1) s).map fun (n, (t, v)) => s!"{n}:{t}:{v}")

def showOta (o : OtaState) : String :=
  let fw := ",".intercalate ((sortBy (fun (a b : (Int × Int) × Fw) =>
      a.1.1 < b.1.1 || (a.1.1 == b.1.1 && a.1.2 < b.1.2)) o.firmware).map
    fun ((t, v), f) => s!"{t}:{v}:{f.blocks}:{f.crc}")
  s!"req=({showStore o.requested}) unst=({showStore o.unstarted}) st=({showStore o.started}) fw=({fw})"

def showExc : Option Exc → String
  | none => "none"
  | some .valueError => "ValueError"
  | some .volInvalid => "VolInvalid"
  | some .keyError => "KeyError"
  | some .structError => "StructError"
  | some .typeError => "TypeError"

def showCb (m : Msg) : String := s!"{m.node}:{m.child}:{m.type}:{m.ack}:{m.sub}:{encStr m.payload}"

def showObs (g : GW) (o : Out) : String :=
  let sent := if o.sent.isEmpty then "-" else "|".intercalate (o.sent.map encStr)
  let cbs := if o.cbs.isEmpty then "-" else "|".intercalate (o.cbs.map showCb)
  let ns := if g.persist then (if g.needSave then "1" else "0") else "-"
  s!"sent={sent} cb={cbs} exc={showExc o.exc} ns={ns} st={showState g} ota={showOta g.ota}"

def parseConst : String → Option ConstId
  | "1.4" => some .v14 | "1.5" => some .v15 | "2.0" => some .v20
  | "2.1" => some .v21 | "2.2" => some .v22 | _ => none

def parseKind : String → Option Kind
  | "base" => some .base | "tcp" => some .tcp | "mqtt" => some .mqtt | _ => none

def hexNib (c : Char) : Option Nat := hexVal c

def parseHexBytes (w : String) : Option (List Nat) :=
  if w == "e" then some [] else unhexlify w.toList

def parseIntList (w : String) : Option (List Int) :=
  if w == "-" then some [] else (w.splitOn ",").mapM decInt

/-- value type on the wire: `i<int>` or `s<encoded str>` -/
def parseVT (w : String) : Option VT :=
  match w.toList with
  | 'i' :: r => (String.ofList r).toInt?.map VT.int
  | 's' :: r => (decStr (String.ofList r)).map VT.str
  | _ => none

def parseOp (cmd : String) (args : List String) : Option Op :=
  match cmd, args with
  | "L", [d] => (decStr d).map Op.line
  | "S", [n, c, vt, v, a] => do
    let ack ← if a == "-" then some none else (decInt a).map some
    some (.setValue (← decInt n) (← decInt c) (← parseVT vt) (← decStr v) ack)
  | "U", [nids, t, v, img] => do
    let image ← if img == "-" then some none else (parseHexBytes img).map some
    some (.update (← parseIntList nids) (← decInt t) (← decInt v) image)
  | "UF", [nids, t, v, f] => do
    -- Gateway.update_fw with a firmware file: "~" no path, "!" unreadable path, else the file's text
    let file ← if f == "~" then some FwFile.noPath else if f == "!" then some FwFile.unreadable
               else (decStr f).map FwFile.text
    some (updateFwOp (← parseIntList nids) (← decInt t) (← decInt v) file)
  | "T", [t] => (decInt t).map Op.clock
  | "M", [b] => some (.metric (b == "1"))
  | "K", [] => some .saveTick
  | "X", [] => some .stop
  | "R", [] => some .restart
  | _, _ => none

/-- `G <ver> <kind> <persist>` -/
def parseGw : List String → Option GW
  | [v, k, p] => do
    some { const := ← parseConst v, kind := ← parseKind k, persist := p != "none" }
  | _ => none

end MySensors.Driver
