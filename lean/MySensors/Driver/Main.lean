import MySensors.Driver.StopCmd
import MySensors.Driver.Wire
import MySensors.Driver.GwCmd
import MySensors.Driver.PersistCmd
import MySensors.Driver.OtaCmd
import MySensors.Driver.FramingCmd
import MySensors.Driver.TablesCmd
import MySensors.Driver.SpecCmd
import MySensors.Driver.TransportCmd

namespace MySensors.Driver
open MySensors

structure DState where
  gw : GW := { const := .v14 }

def valCmd (cmd : String) (args : List String) : Option String :=
  match cmd, args with
  | "VAL", v :: ws => do
    let c ← parseConst v
    let m ← parseMsg ws
    some (if validate c m then "ok" else "invalid")
  | "FLOAT", [d] => do
    let s ← decStr d
    some (match pyFloat s with
      | none => "err"
      | some .nan => "nan"
      | some (.inf n) => if n then "-inf" else "inf"
      | some (.fin q) => s!"fin {q.num}/{q.den}")
  | "VER", [d] => do
    let s ← decStr d
    some (match isVersion s, selectConst s with
      | some ok, some c => s!"{ok} {repr c}"
      | _, _ => "unknown")
  | _, _ => none

/-- state-free command groups; each property family adds its own `…Cmd` here -/
def cmdTable : List (String → List String → Option String) :=
  [codecCmd, valCmd, mqttCmd, framingCmd, otaCmd, persistCmd, tablesCmd, specCmd, Transport.trCmd, Transport.supCmd,
   stopCmd]

/-- one protocol line → new driver state and one output line -/
def stepLine (st : DState) (line : String) : DState × String :=
  match (line.trimAscii.toString.splitOn " ").filter (· ≠ "") with
  | [] => (st, "bad-op")
  | cmd :: args =>
    if cmd == "G" then
      match parseGw args with
      | some g => ({ st with gw := g }, "ok")
      | none => (st, "bad-op")
    else
      match parseOp cmd args with
      | some op =>
        let (g', o) := step st.gw op
        ({ st with gw := g' }, showObs g' o)
      | none =>
        match cmdTable.findSome? (fun f => f cmd args) with
        | some out => (st, out)
        | none => (st, "bad-op")

partial def loop (h : IO.FS.Stream) (out : IO.FS.Stream) (st : DState) : IO Unit := do
  let line ← h.getLine
  if line.isEmpty then return ()
  let (st', o) := stepLine st line
  out.putStrLn o
  loop h out st'

def driverMain : IO Unit := do
  let out ← IO.getStdout
  loop (← IO.getStdin) out {}
  out.flush

end MySensors.Driver
