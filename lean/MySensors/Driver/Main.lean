import MySensors.Driver.Wire

namespace MySensors.Driver

/-- one protocol line → one output line; state-free commands only for now -/
def stepLine (line : String) : String :=
  match (line.trimAscii.toString.splitOn " ").filter (· ≠ "") with
  | [] => "bad-op"
  | cmd :: args =>
    match codecCmd cmd args with
    | some out => out
    | none => "bad-op"

partial def loop (h : IO.FS.Stream) (out : IO.FS.Stream) : IO Unit := do
  let line ← h.getLine
  if line.isEmpty then return ()
  out.putStrLn (stepLine line)
  loop h out

def driverMain : IO Unit := do
  let out ← IO.getStdout
  loop (← IO.getStdin) out
  out.flush

end MySensors.Driver
