/- Driver commands for the MQTT model (C17). -/
import MySensors.Driver.GwCmd
import MySensors.Model.Mqtt

namespace MySensors.Driver
open MySensors

def decQos (w : String) : Option (Option Int) :=
  if w == "N" then some none else (decInt w).map some

def showEnded : Ended → String
  | .returned => "returned"
  | .raised => "raised"

def showSubs (l : List (Str × Int)) : String :=
  if l.isEmpty then "-" else "|".intercalate (l.map fun (t, q) => s!"{encStr t}:{q}")

/-- an op token `O:S:1:1:i2:49:-` → the gateway op -/
def parseOpToken (tok : String) : Option Op :=
  match tok.splitOn ":" with
  | "O" :: cmd :: args => parseOp cmd args
  | _ => none

/-- subscription history: `START` = `init_topics()`, `O:…` = a gateway op (a restart is a new
    process: fresh gateway object loading the file).  Collects every `sub_callback` call. -/
def subHistory (inPrefix : Str) (raises : Bool) : GW → List String → List (Str × Int) → Option (List (Str × Int))
  | _, [], acc => some acc
  | g, tok :: toks, acc =>
    if tok == "START" then
      subHistory inPrefix raises g toks (acc ++ (startSubs inPrefix (fun _ => raises) g).1)
    else
      match parseOpToken tok with
      | none => none
      | some op =>
        let r := step g op
        subHistory inPrefix raises r.1 toks (acc ++ stepSubs inPrefix (fun _ => raises) g r.2)

def mqttCmd (cmd : String) (args : List String) : Option String :=
  match cmd, args with
  | "MQRECV", [p, t, pl, q] => do
    let r := mqttRecv (← decStr p) (← decStr t) (← decStr pl) (← decQos q)
    some (showOptStr r)
  | "MQSEND", [op, retain, raises, msg] => do
    let m ← if msg == "N" then some none else (decStr msg).map some
    let r := mqttSend (← decStr op) (retain == "1") (raises == "1") m
    let body := match r.1 with
      | .skipped => "skipped"
      | .dropped => "dropped"
      | .published t pl q rt => s!"pub {encStr t} {encStr pl} {q} {if rt then 1 else 0}"
    some (body ++ " ended=" ++ showEnded r.2)
  | "MQSUB", p :: raises :: topics => do
    let ts ← topics.mapM decStr
    let r := subscribeAll (← decStr p) (fun _ => raises == "1") ts
    some (showSubs r.1 ++ " ended=" ++ showEnded r.2)
  | "MQHIST", v :: persist :: p :: raises :: toks => do
    let g : GW := { const := ← parseConst v, kind := .mqtt, persist := persist != "none" }
    let r ← subHistory (← decStr p) (raises == "1") g toks []
    some (showSubs r)
  | _, _ => none

end MySensors.Driver
