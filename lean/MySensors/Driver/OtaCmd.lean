/-
  Driver commands for the OTA packing model and the Intel-HEX model (property C09).
  Byte strings travel as lower-case hex ("e" = empty), text as comma-separated code points.

    OTAPREP <hex image>            → "<blocks> <crc> <hex data>"          prepare_fw
    OTACRC <hex data>              → "<crc>"                              compute_crc
    OTAFWHEX <w1,w2,…|->           → "ok <text>" | "none"                 fw_int_to_hex
    OTAFWINT <text> <n>            → "ok <w1,w2,…|->" | "none"            fw_hex_to_int
    OTABLK <t> <v> <i> <hex data>  → "ok <text>" | "none"                 payload of respond_fw
    IHEXLOAD <text>                → "ok <hex bytes>" | "none"            load_fw
    IHEXWRITE <base> <recLen> <hex image> → "<text>"                      the model's writer
-/
import MySensors.Driver.Wire
import MySensors.Model.Ota
import MySensors.Model.IntelHex

namespace MySensors.Driver
open MySensors

def otaParseHex (w : String) : Option (List Nat) :=
  if w == "e" then some [] else unhexlify w.toList

def otaShowHex (bs : List Nat) : String :=
  if bs.isEmpty then "e" else String.ofList (hexBytes bs)

def otaParseNats (w : String) : Option (List Nat) :=
  if w == "-" then some [] else (w.splitOn ",").mapM String.toNat?

def otaShowNats (ws : List Nat) : String :=
  if ws.isEmpty then "-" else ",".intercalate (ws.map toString)

def otaCmd (cmd : String) (args : List String) : Option String :=
  match cmd, args with
  | "OTAPREP", [img] => do
    let bs ← otaParseHex img
    let fw := prepareFw bs
    some s!"{fw.blocks} {fw.crc} {otaShowHex fw.data}"
  | "OTACRC", [d] => do
    let bs ← otaParseHex d
    some (toString (crcModbus bs))
  | "OTAFWHEX", [ws] => do
    let l ← otaParseNats ws
    some (match fwIntToHex l with
      | some p => "ok " ++ encStr p
      | none => "none")
  | "OTAFWINT", [p, n] => do
    let s ← decStr p
    let k ← n.toNat?
    some (match fwHexToInt s k with
      | some ws => "ok " ++ otaShowNats ws
      | none => "none")
  | "OTABLK", [t, v, i, d] => do
    let t ← t.toNat?
    let v ← v.toNat?
    let i ← i.toNat?
    let data ← otaParseHex d
    some (match fwIntToHex [t, v, i] with
      | some p => "ok " ++ encStr (p ++ hexBytes (fwBlock data i))
      | none => "none")
  | "IHEXLOAD", [t] => do
    let s ← decStr t
    some (match hexLoad s with
      | some bs => "ok " ++ otaShowHex bs
      | none => "none")
  | "IHEXWRITE", [b, r, img] => do
    let base ← b.toNat?
    let recLen ← r.toNat?
    let bs ← otaParseHex img
    some (encStr (hexWrite base recLen bs))
  | _, _ => none

end MySensors.Driver
