/-
  Driver commands of the persistence family (C11, C12, C13, C15).

  P11 <json|pickle> <tok>*     state tokens → what the model's loader returns for the saved state
       N:<key>:<id>:<type|N>:<sn|N|s..>:<sv|N|s..>:<battery>:<version>:<heartbeat>:<reboot 0|1>
       C:<key>:<id>:<type>:<desc>      (child of the last node)
       V:<vt>:<value>                  (value of the last child)
       D:<child key>   W:<vt>:<N|s..>  (desired map of the last node)     Q:<line>  (hold queue)
  FSOPS <0|1>                  operation list of a save (file existed?)
  FSCRASH <cfg> <k> <dmgMain> <dmgBak> <dmgTmp> <staleBak> <staleTmp>
  FSFAIL  <cfg> <k> <staleBak> <staleTmp>
  LOAD13 <main> <bak>          a|e|d|g|h (absent, empty, damaged, good, hostile)
  SCHED <sync|async> <none|good> <event>*     ok | io:<op> | denied | merr | mok | msg
-/
import MySensors.Driver.Wire
import MySensors.Model.Persist
import MySensors.Model.Sched

namespace MySensors.Driver.P
open MySensors MySensors.Persist MySensors.Fs MySensors.Sched

/-! ### C11 -/

def pOpt {α} (f : String → Option α) (w : String) : Option (Option α) :=
  if w == "N" then some none
  else match w.toList with
    | 's' :: r => (f (String.ofList r)).map some
    | _ => none

def pOptInt (w : String) : Option (Option Int) :=
  if w == "N" then some none else (decInt w).map some

def updLast {α} (f : α → α) : List α → Option (List α)
  | [] => none
  | [x] => some [f x]
  | x :: xs => (updLast f xs).map (x :: ·)

def updLastNode (f : Node → Node) (s : List (Int × Node)) : Option (List (Int × Node)) :=
  updLast (fun p => (p.1, f p.2)) s

def addTok (s : List (Int × Node)) (tok : String) : Option (List (Int × Node)) :=
  match tok.splitOn ":" with
  | ["N", key, id, ty, sn, sv, bat, ver, hb, rb] => do
    let n : Node := { id := ← decInt id, type := ← pOptInt ty, sketchName := ← pOpt decStr sn, sketchVersion := ← pOpt decStr sv, battery := ← decInt bat, version := ← decStr ver, heartbeat := ← decInt hb, reboot := rb == "1" }
    some (s ++ [(← decInt key, n)])
  | ["C", key, id, ty, desc] => do
    let c : Child := ⟨← decInt id, ← decInt ty, ← decStr desc, []⟩
    let k ← decInt key
    updLastNode (fun n => { n with children := n.children ++ [(k, c)] }) s
  | ["V", vt, val] => do
    let k ← decInt vt
    let v ← decStr val
    let s' ← updLastNode (fun n =>
      { n with children := (updLast (fun (p : Int × Child) => (p.1, { p.2 with values := p.2.values ++ [(k, v)] })) n.children).getD n.children }) s
    some s'
  | ["D", key] => do
    let k ← decInt key
    updLastNode (fun n => { n with desired := n.desired ++ [(k, [])] }) s
  | ["W", vt, val] => do
    let k ← decInt vt
    let v ← pOpt decStr val
    updLastNode (fun n =>
      { n with desired := (updLast (fun (p : Int × List (Int × Option Str)) => (p.1, p.2 ++ [(k, v)])) n.desired).getD n.desired }) s
  | ["Q", line] => do
    let l ← decStr line
    updLastNode (fun n => { n with queue := n.queue ++ [l] }) s
  | _ => none

def optS' {α} (f : α → String) : Option α → String
  | none => "None"
  | some a => f a

def showPChild (c : Int × Child) : String :=
  let vals := ",".intercalate (c.2.values.map fun (k, v) => s!"{k}={encStr v}")
  s!"{c.1}:{c.2.id}:{c.2.type}:{encStr c.2.desc}:V({vals})"

def showPNode (kn : Int × Node) : String :=
  let n := kn.2
  let ch := ";".intercalate (n.children.map showPChild)
  let ds := ";".intercalate (n.desired.map fun d =>
    s!"{d.1}:V({",".intercalate (d.2.map fun (k, v) => s!"{k}={optS' encStr v}")})")
  let q := ";".intercalate (n.queue.map encStr)
  "N" ++ toString kn.1 ++ "{id=" ++ toString n.id ++ ",t=" ++ optS' toString n.type ++
    ",sn=" ++ optS' encStr n.sketchName ++ ",sv=" ++ optS' encStr n.sketchVersion ++
    ",b=" ++ toString n.battery ++ ",v=" ++ encStr n.version ++ ",h=" ++ toString n.heartbeat ++
    ",r=" ++ (if n.reboot then "1" else "0") ++ ",C[" ++ ch ++ "],D[" ++ ds ++ "],Q[" ++ q ++ "]}"

def showSensors (s : List (Int × Node)) : String :=
  if s.isEmpty then "-" else " ".intercalate (s.map showPNode)

/-! ### C12 / C13 -/

def showData : Data String → String
  | .whole s => s
  | .empty => "empty"
  | .damaged => "damaged"
  | .hostile => "hostile"

def showFile : Option (File String) → String
  | none => "absent"
  | some f => showData f.data

def showLoaded : Loaded String → String
  | .state s => s
  | .emptyNet => "emptyNet"
  | .raised => "raised"

def showStore (st : Store String) : String :=
  s!"{showFile st.main},{showFile st.bak},{showFile st.tmp}"

def parseCfg : String → Option Cfg
  | "none" => some .none | "good" => some .good | "goodBak" => some .goodBak
  | "goodTmp" => some .goodTmp | "goodBoth" => some .goodBoth | _ => none

def parseDmg : String → Option Dmg
  | "keep" => some .keep | "empty" => some .toEmpty | "damaged" => some .toDamaged | _ => none

/-- stale file: `w` complete older state, `e` empty, `d` damaged; suffix `u` = not synced -/
def parseStale (label : String) (w : String) : Option (File String) :=
  let synced := !w.endsWith "u"
  match w.toList.head? with
  | some 'w' => some ⟨.whole label, synced⟩
  | some 'e' => some ⟨.empty, synced⟩
  | some 'd' => some ⟨.damaged, synced⟩
  | _ => none

def parseCase (label : String) : String → Option (Option (File String))
  | "a" => some none
  | "e" => some (some ⟨.empty, true⟩)
  | "d" => some (some ⟨.damaged, true⟩)
  | "g" => some (some ⟨.whole label, true⟩)
  | "h" => some (some ⟨.hostile, true⟩)
  | _ => none

def showOp : FsOp → String
  | .openTmp => "openTmp" | .write => "write" | .flush => "flush" | .fsync => "fsync"
  | .close => "close" | .renMainBak => "renMainBak" | .renTmpMain => "renTmpMain" | .rmBak => "rmBak"

def parseFsOp : String → Option FsOp
  | "openTmp" => some .openTmp | "write" => some .write | "flush" => some .flush
  | "fsync" => some .fsync | "close" => some .close | "renMainBak" => some .renMainBak
  | "renTmpMain" => some .renTmpMain | "rmBak" => some .rmBak | _ => none

def reportStore (st : Store String) : String :=
  let l := safeLoad st
  let st2 := Fs.save "next" l.1
  s!"load={showLoaded l.2} files={showStore st} after={showStore l.1} next={showLoaded (loadable st2)}"

/-! ### C15 -/

def parseOutcome (cur : Int) : String → Option (Outcome Int)
  | "ok" => some .ok
  | "denied" => some .denied
  | "merr" => some (.mutatedErr (cur + 1))
  | "mok" => some (.mutatedOk (-1) (cur + 1))
  | w => match w.splitOn ":" with
    | ["io", op] => (parseFsOp op).map .ioError
    | _ => none

def showLoadedInt : Loaded Int → String
  | .state s => if s == -1 then "snap" else toString s
  | .emptyNet => "emptyNet"
  | .raised => "raised"

def showSys (s : Sys Int) : String :=
  s!"{if s.armed then 1 else 0},{if s.needSave then 1 else 0},{showLoadedInt (loadable s.disk)},{s.rounds},{s.cur}"

def schedRun (fl : Flavour) : Sys Int → List String → Option (List String)
  | _, [] => some []
  | s, w :: ws => do
    let s' ← if w == "msg" then some (handleMessage (s.cur + 1) s)
      else (parseOutcome s.cur w).map fun o => tick fl o s
    let rest ← schedRun fl s' ws
    some (showSys s' :: rest)

end MySensors.Driver.P

namespace MySensors.Driver
open MySensors MySensors.Persist MySensors.Fs MySensors.Sched MySensors.Driver.P

def persistCmd (cmd : String) (args : List String) : Option String :=
  match cmd, args with
  | "P11", fmt :: toks => do
    let s ← toks.foldlM addTok []
    let r ← if fmt == "json" then some (fromJson (toJson s))
      else if fmt == "pickle" then some (fromPickle (toPickle s)) else none
    some (match r with
      | some l => "ok " ++ showSensors l
      | none => "untyped")
  | "FSOPS", [e] => some (" ".intercalate ((saveOps (e == "1")).map showOp))
  | "FSCRASH", [cfg, k, dm, db, dt, sb, st] => do
    let d : Damage := ⟨← parseDmg dm, ← parseDmg db, ← parseDmg dt⟩
    let s0 := initial (← parseCfg cfg) "old" (← parseStale "staleBak" sb) (← parseStale "staleTmp" st)
    some (reportStore (crashAt "new" (← k.toNat?) d s0))
  | "FSFAIL", [cfg, k, sb, st] => do
    let s0 := initial (← parseCfg cfg) "old" (← parseStale "staleBak" sb) (← parseStale "staleTmp" st)
    some (reportStore (failAt "new" (← k.toNat?) none s0))
  | "LOAD13", [m, b] => do
    let st : Store String := { main := ← parseCase "main" m, bak := ← parseCase "bak" b }
    let l := safeLoad st
    some s!"load={showLoaded l.2} after={showStore l.1}"
  | "SCHED", fl :: d :: evs => do
    let fl ← if fl == "sync" then some Flavour.sync else if fl == "async" then some .async else none
    let disk : Store Int ← if d == "none" then some {} else if d == "good" then some { main := some ⟨.whole 0, true⟩ } else none
    let s0 : Sys Int := { cur := 0, disk := disk, armed := false }
    let outs ← schedRun fl s0 evs
    some (if outs.isEmpty then "-" else " ".intercalate outs)
  | _, _ => none

end MySensors.Driver
