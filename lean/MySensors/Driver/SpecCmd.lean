/-
  Driver command for the C04 tree specification, so that the *specification* itself (not only
  the gateway model) is run against the real gateway:

    SPEC <ver> <persist 0|1> <op> <op> …      op = K | X | R | C | <encoded inbound line>

    CBT <ver> <kind> <persist> <op words> / <op words> / …     (ops in the wire format of `parseOp`)

  (`C` = any controller call: no meaning for the tree.)  `CBT` runs the instrumented model
  (Model/GatewayTraced.lean) and prints, per op, the tree recorded at each callback (`-` = no
  callback), joined by `|` — compared with the tree the real callback reads from inside.  Output: one `<flag>@<tree>` per op,
  joined by `|`; flag = `r` rejected line, `0` / `1` accepted line without / with callback,
  `-` other ops; tree in the canonical persisted-projection text of harness/gw.py.
-/
import MySensors.Driver.GwCmd
import MySensors.Model.SpecTree
import MySensors.Model.GatewayTraced

namespace MySensors.Driver
open MySensors

def showPNode (kp : Int × PNode) : String :=
  let p := kp.2
  let ch := ";".intercalate (p.children.map showChild)
  "N" ++ toString kp.1 ++ "{t=" ++ optS toString p.type ++ ",sn=" ++ optS encStr p.sketchName ++
    ",sv=" ++ optS encStr p.sketchVersion ++ ",b=" ++ toString p.battery ++ ",v=" ++ encStr p.version ++
    ",h=" ++ toString p.heartbeat ++ ",C[" ++ ch ++ "]}"

def showTree (t : Tree) : String :=
  if t.isEmpty then "-" else " ".intercalate (t.map showPNode)

def parseSpecOp (w : String) : Option Op :=
  if w == "K" then some .saveTick
  else if w == "X" then some .stop
  else if w == "R" then some .restart
  else if w == "C" then some (.clock 0)
  else (decStr w).map Op.line

def specFlag (c : ConstId) (s : SpecState) : Op → String
  | .line l =>
    match acceptedMsg c l with
    | none => "r"
    | some m => if specNotifies c s.tree m then "1" else "0"
  | _ => "-"

def specTrace (c : ConstId) (persist : Bool) : SpecState → List Op → List String
  | _, [] => []
  | s, op :: ops =>
    let s' := specOp c persist s op
    (specFlag c s op ++ "@" ++ showTree s'.tree) :: specTrace c persist s' ops

/-- split a word list at the `/` separators -/
def splitOps : List String → List (List String)
  | [] => [[]]
  | w :: ws =>
    match splitOps ws with
    | [] => [[w]]
    | cur :: rest => if w == "/" then [] :: cur :: rest else (w :: cur) :: rest

def parseOpWords : List String → Option Op
  | [] => none
  | cmd :: args => parseOp cmd args

def cbtTrace : GW → List Op → List String
  | _, [] => []
  | g, op :: ops =>
    let r := tstep g op
    (if r.2.isEmpty then "-" else "&".intercalate (r.2.map showTree)) :: cbtTrace r.1.1 ops

def specCmd (cmd : String) (args : List String) : Option String :=
  match cmd, args with
  | "CBT", v :: k :: p :: ws => do
    let g ← parseGw [v, k, p]
    let ops ← ((splitOps ws).filter (fun o => !o.isEmpty)).mapM parseOpWords
    some (if ops.isEmpty then "-" else "|".intercalate (cbtTrace g ops))
  | "SPEC", v :: p :: ws => do
    let c ← parseConst v
    let ops ← ws.mapM parseSpecOp
    some (if ops.isEmpty then "-" else "|".intercalate (specTrace c (p == "1") ⟨[], none⟩ ops))
  | _, _ => none

end MySensors.Driver
