/- Driver commands for the shutdown-window model (C14 / C06). -/
import MySensors.Model.StopOrder

namespace MySensors.Driver
open MySensors.StopOrder

def showEv : Ev → String
  | .proc c => "proc" ++ toString c
  | .disconnect => "disconnect"
  | .saveStart => "saveStart"
  | .saveEnd => "saveEnd"

def parseEv (w : String) : Option (List Ev) :=
  if w == "disconnect" then some [.disconnect]
  else if w == "saveStart" then some [.saveStart]
  else if w == "saveEnd" then some [.saveEnd]
  else if w == "save" then some [.saveStart, .saveEnd]
  else if w.startsWith "proc" then (w.drop 4).toNat?.map fun c => [Ev.proc c]
  else none

def showNats (l : List Nat) : String :=
  if l.isEmpty then "-" else ",".intercalate (l.map toString)

/-- `STOPSCRIPT` → the order of stop()'s own actions;  `STOPRUN ev…` → what went out and what is in the file -/
def stopCmd (cmd : String) (args : List String) : Option String :=
  match cmd with
  | "STOPSCRIPT" => some (",".intercalate (script.map showEv))
  | "STOPRUN" =>
    (args.mapM parseEv).map fun evss =>
      let s := run {} evss.flatten
      s!"handed={showNats s.handed.reverse} file={showNats s.file.reverse} connected={if s.connected then 1 else 0} dirty={if s.dirty then 1 else 0}"
  | "STOPRUNMQTT" =>
    -- the thread-based MQTT gateway: `disconnect` is the moment stop() sets the stop event
    (args.mapM parseEv).map fun evss =>
      let s := runMqtt {} evss.flatten
      s!"handed={showNats s.handed.reverse} file={showNats s.file.reverse} connected={if s.connected then 1 else 0} dirty={if s.dirty then 1 else 0}"
  | _ => none

end MySensors.Driver
