/-
  Driver commands of the table / configuration properties (C03, C18):

    CHILD <ver> <ptype> [<valueType>=<payload> …]   ChildSensor(id, ptype).validate(ver, values)
                                                     → ok | invalid | internal
    CLASS <ver> <type> <sub>                         rule class of the reference table → name | none
    CHAIN <class>                                    description of the constructor chain
    OPTS <class> [<key> …]                           construct with that keyword set
                                                     → ok key>attr … | TypeError <stage> <key>
-/
import MySensors.Driver.Wire
import MySensors.Model.Validate
import MySensors.Model.Options
import MySensors.Generated.SerialApi

namespace MySensors.Driver
open MySensors

def parseConstT : String → Option ConstId
  | "1.4" => some .v14 | "1.5" => some .v15 | "2.0" => some .v20
  | "2.1" => some .v21 | "2.2" => some .v22 | _ => none

def parseGwClass : String → Option GwClass
  | "SerialGateway" => some .serial | "AsyncSerialGateway" => some .asyncSerial
  | "TCPGateway" => some .tcp | "AsyncTCPGateway" => some .asyncTcp
  | "MQTTGateway" => some .mqtt | "AsyncMQTTGateway" => some .asyncMqtt | _ => none

def keyName : Key → String
  | .event_callback => "event_callback" | .protocol_version => "protocol_version"
  | .persistence => "persistence" | .persistence_file => "persistence_file"
  | .port => "port" | .baud => "baud" | .host => "host" | .timeout => "timeout"
  | .reconnect_timeout => "reconnect_timeout" | .pub_callback => "pub_callback"
  | .sub_callback => "sub_callback" | .in_prefix => "in_prefix" | .out_prefix => "out_prefix"
  | .retain => "retain"

def allKeys : List Key :=
  [.event_callback, .protocol_version, .persistence, .persistence_file, .port, .baud, .host,
   .timeout, .reconnect_timeout, .pub_callback, .sub_callback, .in_prefix, .out_prefix, .retain]

def parseKey (w : String) : Option Key := allKeys.find? fun k => keyName k == w

def attrName : Attr → String
  | .gw_event_callback => "gateway.event_callback" | .gw_protocol_version => "gateway.protocol_version"
  | .tasks_persistence => "tasks.persistence" | .tasks_persistence_file => "tasks.persistence.persistence_file"
  | .gw_port => "gateway.port" | .gw_baud => "gateway.baud"
  | .gw_host => "gateway.server_address[0]" | .gw_tcp_port => "gateway.server_address[1]"
  | .tr_timeout => "transport.timeout" | .tr_reconnect_timeout => "transport.reconnect_timeout"
  | .tr_pub_callback => "transport._pub_callback" | .tr_sub_callback => "transport._sub_callback"
  | .tr_in_prefix => "transport.in_prefix" | .tr_out_prefix => "transport.out_prefix"
  | .tr_retain => "transport._retain"

def sortStrings (l : List String) : List String := (l.toArray.qsort (· < ·)).toList

/-- `Name[**](consumed keys, sorted)`: named parameters and popped keys alike -/
def showStage (s : Stage) : String :=
  s.name ++ (if s.varKw then "[**]" else "[]") ++
    "(" ++ ",".intercalate (sortStrings ((s.binds.map fun b => keyName b.1) ++ s.pops.map keyName)) ++ ")"

def showChain (d : ClassDesc) : String :=
  ">".intercalate (d.chain.map showStage) ++ " | " ++ ">".intercalate (d.transport.map showStage) ++
    " | " ++ (match d.transportKeys with
      | none => "all"
      | some ks => ",".intercalate (ks.map keyName)) ++
    " | " ++ ",".intercalate (d.required.map keyName) ++
    " | " ++ ",".intercalate (d.documented.map fun b => keyName b.1 ++ ">" ++ attrName b.2)

def showClass : RuleClass → String
  | .text => "text" | .textOr ws => "text_or:" ++ "|".intercalate (ws.map String.ofList)
  | .empty => "empty" | .binary => "binary" | .enum ws => "enum:" ++ "|".intercalate (ws.map String.ofList)
  | .percentInt => "percent_int" | .percentFloat => "percent_float" | .unitFloat => "unit_float"
  | .int => "int" | .nodeId1 => "node_id_1_254" | .nodeId0 => "node_id_0_254" | .config => "config"
  | .time => "time" | .rgb => "rgb" | .rgbw => "rgbw" | .gps => "gps" | .version => "version"

def parseValue (w : String) : Option (Int × Str) :=
  match w.splitOn "=" with
  | [k, v] => do some (← decInt k, ← decStr v)
  | _ => none

def tablesCmd (cmd : String) (args : List String) : Option String :=
  match cmd, args with
  | "CHILD", v :: p :: ws => do
    let c ← parseConstT v
    let pt ← decInt p
    let values ← ws.mapM parseValue
    some (match childValidate c pt values with
      | none => "internal"
      | some true => "ok"
      | some false => "invalid")
  | "CLASS", [v, t, s] => do
    let c ← parseConstT v
    let ty ← decInt t
    let sub ← decInt s
    some (match lookup (ty, sub) (SerialApi.spec c).rules with
      | some rc => showClass rc
      | none => "none")
  | "CHAIN", [w] => do
    let c ← parseGwClass w
    some (showChain (classDesc c))
  | "OPTS", w :: ks => do
    let c ← parseGwClass w
    let keys ← ks.mapM parseKey
    some (match construct c keys with
      | .ok asg => "ok" ++ String.join (asg.map fun a => " " ++ keyName a.1 ++ ">" ++ attrName a.2)
      | .typeError st k => s!"TypeError {st} {keyName k}")
  | _, _ => none

end MySensors.Driver
