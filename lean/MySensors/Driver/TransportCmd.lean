/- Driver commands for the transport race model (C16) and the supervisor / watchdog model (C20). -/
import MySensors.Model.Transport
import MySensors.Model.Supervisor

namespace MySensors.Driver.Transport

open MySensors

/-! ### C16 -/

def showConn : Tr.Conn → String
  | .c0 => "c0"
  | .c1 => "c1"

def showLabel : Tr.Label → String
  | .rTp => "R.tp"
  | .wTp => "W.tp"
  | .rPt => "R.pt"
  | .wPt => "W.pt"
  | .write c => "write." ++ showConn c
  | .close c => "close." ++ showConn c
  | .closeSerial c => "sclose." ++ showConn c
  | .cb => "cb"
  | .onLost => "onlost"
  | .onMade => "onmade"

def showStatus : Tr.Status → String
  | .running => "run"
  | .returned => "ret"
  | .raisedAttr => "AttributeError"
  | .raisedIndex => "IndexError"

def parseKind : String → Option Tr.Kind
  | "send" => some .send
  | "pinned" => some .sendPinned
  | "hook0" => some (.lossHook false)
  | "hook1" => some (.lossHook true)
  | "full0" => some (.lossFull false)
  | "full1" => some (.lossFull true)
  | "disc" => some .disconnect
  | "made" => some (.connMade false)
  | "madeg" => some (.connMade true)
  | _ => none

def parseStart : String → Option Tr.Start
  | "connected" => some .connected
  | "broken" => some .broken
  | "notconnected" => some .notConnected
  | "noproto" => some .noProtocol
  | _ => none

def parseOther : String → Option Tr.Other
  | "nothing" => some .nothing
  | "hook0" => some (.lossHook false)
  | "hook1" => some (.lossHook true)
  | "full0" => some (.lossFull false)
  | "full1" => some (.lossFull true)
  | "disc" => some .disconnect
  | "hook0+made" => some (.lossHookReconnect false)
  | "hook1+made" => some (.lossHookReconnect true)
  | "full0+made" => some (.lossFullReconnect false)
  | "full1+made" => some (.lossFullReconnect true)
  | "made" => some .connMade
  | "hook0+disc" => some (.lossHookDisconnect false)
  | "hook1+disc" => some (.lossHookDisconnect true)
  | _ => none

def parseNats (w : String) : Option (List Nat) :=
  if w == "-" then some [] else (w.splitOn ",").mapM String.toNat?

def showBool (b : Bool) : String := if b then "1" else "0"

def showCfg (c : Tr.Cfg) : String :=
  let sts := ",".intercalate (c.ths.map fun t => showStatus t.st)
  let att := if c.sh.attempts.isEmpty then "-" else
    ",".intercalate (c.sh.attempts.map fun a => showConn a.1 ++ ":" ++ showBool a.2)
  let pt := match c.sh.pt with | none => "None" | some x => showConn x
  s!"st={sts} att={att} tp={showBool c.sh.tp} pt={pt} o0={showBool c.sh.open0} o1={showBool c.sh.open1} lost={c.sh.onLost} made={c.sh.onMade} rc={c.sh.reconn} q={showBool (Tr.quiescent c)}"

/-- which threads can move, as a 0/1 string -/
def showEnabled (c : Tr.Cfg) : String :=
  String.join ((List.range c.ths.length).map fun i => showBool (Tr.stepAt i c).isSome)

def parseAct (w : String) : Option Tr.QAct :=
  if w == "u" then some Tr.QAct.pump else (w.drop 1).toNat?.map Tr.QAct.produce

def parseActs (sc : String) : Option (List Tr.QAct) :=
  if sc == "-" then some [] else (sc.splitOn ",").mapM parseAct

def trCmd (cmd : String) (args : List String) : Option String :=
  match cmd, args with
  | "TRSOLO", [k, st] => do
    let kind ← parseKind k
    let start ← parseStart st
    let c : Tr.Cfg := { sh := Tr.startSh start, ths := [{ kind := kind }] }
    some (match Tr.soloLabels 40 0 c with
      | [] => "-"
      | ls => ",".intercalate (ls.map showLabel))
  | "TRRUN", [snd, st, o, sc] => do
    let kind ← parseKind snd
    let start ← parseStart st
    let other ← parseOther o
    let sched ← parseNats sc
    let c := Tr.run (Tr.initWith kind { start := start, other := other }) sched
    some (showCfg c ++ " en=" ++ showEnabled c)
  | "TRCOUNT", [snd, st, o] => do
    let kind ← parseKind snd
    let start ← parseStart st
    let other ← parseOther o
    some (toString (Tr.allRuns 40 (Tr.initWith kind { start := start, other := other })).length)
  | "QRUN", [ps, sc] => do
    let counts ← parseNats ps
    let prod : List (List Tr.Job) := (List.range counts.length).map fun i =>
      (List.range (counts.getD i 0)).map fun k => (i, k)
    let acts ← parseActs sc
    let q := Tr.qrun (Tr.qinit prod) acts
    let showJobs (l : List Tr.Job) : String :=
      if l.isEmpty then "-" else ",".intercalate (l.map fun j => s!"{j.1}.{j.2}")
    let pc := match q.pc with | .c1 => "c1" | .pop => "pop" | .c2 => "c2" | .slp => "slp"
    some s!"sent={showJobs q.sent} queue={showJobs q.queue} pc={pc} raised={showBool q.raised}"
  | _, _ => none

/-! ### C20 -/

def parseFlavour : String → Option Sup.Flavour
  | "serialSync" => some .serialSync
  | "serialAsync" => some .serialAsync
  | "tcpSync" => some .tcpSync
  | "tcpAsync" => some .tcpAsync
  | _ => none

def parseEv : String → Option Sup.Ev
  | "connectOk" => some .connectOk
  | "connectFail" => some .connectFail
  | "connectTimeout" => some .connectTimeout
  | "readError" => some .readError
  | "writeError" => some .writeError
  | "send" => some .send
  | "peerCloseOrderly" => some .peerCloseOrderly
  | "peerCloseAbrupt" => some .peerCloseAbrupt
  | "probeTimeout" => some .probeTimeout
  | "userDisconnect" => some .userDisconnect
  | "stop" => some .stop
  | _ => none

def parseEvs (evs : String) : Option (List Sup.Ev) :=
  if evs == "-" then some [] else (evs.splitOn ",").mapM parseEv

def showOut : Sup.Out → String
  | .connMade => "connMade"
  | .connLost e => if e then "connLost(err)" else "connLost(None)"
  | .connectAttempt => "connectAttempt"
  | .write => "write"
  | .crash => "crash"

def showLink : Sup.Link → String
  | .idle => "idle"
  | .attempting tr => if tr then "attempting(tracked)" else "attempting"
  | .up => "up"
  | .upEof => "upEof"

def showTimed (os : List (Nat × Sup.Out)) : String :=
  if os.isEmpty then "-" else ",".intercalate (os.map fun o => s!"{o.1}:{showOut o.2}")

def parseLats (w : String) : Option (List (Option Nat)) :=
  if w == "-" then some [] else
    (w.splitOn ",").mapM fun t => if t == "x" then some none else t.toNat?.map some

def showSimOut : Sup.SimOut → String
  | .write => "w"
  | .handled => "h"
  | .drop => "d"

def showSim (l : List (Nat × Sup.SimOut)) : String :=
  if l.isEmpty then "-" else ",".intercalate (l.map fun o => s!"{o.1}:{showSimOut o.2}")

def supCmd (cmd : String) (args : List String) : Option String :=
  match cmd, args with
  | "SUP", [f, rt, evs] => do
    let fl ← parseFlavour f
    let rtn ← rt.toNat?
    let es ← parseEvs evs
    let r := Sup.trun fl rtn Sup.tinit es
    let body := if r.2.isEmpty then "-" else "|".intercalate (r.2.map showTimed)
    some s!"{body} ;proto={showBool r.1.l.proto} link={showLink r.1.l.link} now={r.1.now}"
  | "SUP0", [f, rt, evs] => do      -- the tree before the two C20 repairs (regression replays)
    let fl ← parseFlavour f
    let rtn ← rt.toNat?
    let es ← parseEvs evs
    let r := Sup.trunG false fl rtn Sup.tinit es
    let body := if r.2.isEmpty then "-" else "|".intercalate (r.2.map showTimed)
    some s!"{body} ;proto={showBool r.1.l.proto} link={showLink r.1.l.link} now={r.1.now}"
  | "WDCHECK", [rt, tc, td, now] => do
    let r := Sup.check (← rt.toNat?) { tCheck := ← tc.toNat?, tDisc := ← td.toNat? } (← now.toNat?)
    let o := match r.2 with | .idle => "idle" | .probe => "probe" | .drop => "drop"
    some s!"{r.1.tCheck} {r.1.tDisc} {o}"
  | "WDSYNC", [rt, poll, phase, pf, horizon, lats] => do
    let l ← parseLats lats
    some (showSim (Sup.syncSim (← rt.toNat?) (← poll.toNat?) (← phase.toNat?) (pf == "1") l (← horizon.toNat?)))
  | "WDASYNC", [rt, horizon, lats] => do
    let l ← parseLats lats
    some (showSim (Sup.asyncSim (← rt.toNat?) l (← horizon.toNat?)))
  | _, _ => none

end MySensors.Driver.Transport
