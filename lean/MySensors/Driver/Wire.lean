/-
  Line protocol helpers for the model driver.  Text fields travel as comma-separated
  decimal code points ("-" = empty string), so no UTF-8 handling is needed on either side.
-/
import MySensors.Model.Codec

namespace MySensors.Driver
open MySensors

def encStr (s : Str) : String :=
  if s.isEmpty then "-" else ",".intercalate (s.map fun c => toString c.toNat)

def decStr (w : String) : Option Str :=
  if w == "-" then some [] else
    (w.splitOn ",").mapM fun t => t.toNat?.map Char.ofNat

def decInt (w : String) : Option Int := w.toInt?

def showOptStr : Option Str → String
  | none => "none"
  | some s => "some:" ++ encStr s

def showMsg (m : Msg) : String :=
  s!"{m.node} {m.child} {m.type} {m.ack} {m.sub} {encStr m.payload}"

def parseMsg : List String → Option Msg
  | [n, c, t, a, s, p] => do
    some ⟨← decInt n, ← decInt c, ← decInt t, ← decInt a, ← decInt s, ← decStr p⟩
  | _ => none

/-- `k=v` keyword list for copy -/
def parseKw (ws : List String) : Option Kw :=
  ws.foldlM (init := ({} : Kw)) fun kw w =>
    match w.splitOn "=" with
    | ["node", v] => (decInt v).map fun x => { kw with node := some x }
    | ["child", v] => (decInt v).map fun x => { kw with child := some x }
    | ["type", v] => (decInt v).map fun x => { kw with type := some x }
    | ["ack", v] => (decInt v).map fun x => { kw with ack := some x }
    | ["sub", v] => (decInt v).map fun x => { kw with sub := some x }
    | ["payload", v] => (decStr v).map fun x => { kw with payload := some x }
    | _ => none

def codecCmd (cmd : String) (args : List String) : Option String :=
  match cmd, args with
  | "DEC", [d] => do
    let s ← decStr d
    some (match decode s with | some m => "ok " ++ showMsg m | none => "err")
  | "ENC", ws => do
    let m ← parseMsg ws
    some (match encode m with | some l => "ok " ++ encStr l | none => "none")
  | "CPY", n :: c :: t :: a :: s :: p :: kws => do
    let m ← parseMsg [n, c, t, a, s, p]
    let kw ← parseKw kws
    some (match m.copy kw with | .ok m' => "ok " ++ showMsg m' | .raised => "raised")
  | "INT", [d] => do
    let s ← decStr d
    some (match pyInt s with | some n => s!"ok {n}" | none => "err")
  | "RSTRIP", [d] => do
    let s ← decStr d
    some (encStr (rstrip s))
  | _, _ => none

end MySensors.Driver
