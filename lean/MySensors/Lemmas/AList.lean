/- Association-list (insertion-ordered dict) lemmas. -/
import MySensors.Model.Gateway

namespace MySensors

variable {ν : Type}

@[simp] theorem aget_nil (k : Int) : aget k ([] : List (Int × ν)) = none := rfl

theorem aget_cons (k k' : Int) (v : ν) (l : List (Int × ν)) :
    aget k ((k', v) :: l) = if k = k' then some v else aget k l := rfl

@[simp] theorem aget_aset_same (k : Int) (v : ν) (l : List (Int × ν)) : aget k (aset k v l) = some v := by
  induction l with
  | nil => simp [aset, aget]
  | cons p l ih =>
    obtain ⟨k', v'⟩ := p
    by_cases h : k = k' <;> simp [aset, aget, h, ih]

theorem aget_aset_ne (k k2 : Int) (v : ν) (l : List (Int × ν)) (h : k2 ≠ k) :
    aget k2 (aset k v l) = aget k2 l := by
  induction l with
  | nil => simp [aset, aget, h]
  | cons p l ih =>
    obtain ⟨k', v'⟩ := p
    by_cases h1 : k = k'
    · subst h1; simp [aset, aget, h]
    · by_cases h2 : k2 = k' <;> simp [aset, aget, h1, h2, ih]

theorem akeys_aset_of_mem (k : Int) (v : ν) (l : List (Int × ν)) (h : (aget k l).isSome) :
    akeys (aset k v l) = akeys l := by
  induction l with
  | nil => simp [aget] at h
  | cons p l ih =>
    obtain ⟨k', v'⟩ := p
    by_cases h1 : k = k'
    · subst h1; simp [aset, akeys]
    · simp [aget, h1] at h
      have := ih h
      simp [aset, akeys, h1] at this ⊢
      exact this

theorem akeys_aset_of_not_mem (k : Int) (v : ν) (l : List (Int × ν)) (h : aget k l = none) :
    akeys (aset k v l) = akeys l ++ [k] := by
  induction l with
  | nil => simp [aset, akeys]
  | cons p l ih =>
    obtain ⟨k', v'⟩ := p
    by_cases h1 : k = k'
    · subst h1; simp [aget] at h
    · simp [aget, h1] at h
      have := ih h
      simp [aset, akeys, h1] at this ⊢
      exact this

theorem aget_isSome_iff_mem_keys (k : Int) (l : List (Int × ν)) : (aget k l).isSome ↔ k ∈ akeys l := by
  induction l with
  | nil => simp [akeys]
  | cons p l ih =>
    obtain ⟨k', v'⟩ := p
    by_cases h1 : k = k'
    · subst h1; simp [aget, akeys]
    · simp [aget, akeys, h1] at ih ⊢; exact ih

theorem aget_none_iff_not_mem_keys (k : Int) (l : List (Int × ν)) : aget k l = none ↔ k ∉ akeys l := by
  rw [← aget_isSome_iff_mem_keys]; cases aget k l <;> simp

theorem aget_append_not_mem (k : Int) (l : List (Int × ν)) (k2 : Int) (v : ν) :
    aget k (l ++ [(k2, v)]) = match aget k l with | some x => some x | none => if k = k2 then some v else none := by
  induction l with
  | nil => simp [aget]
  | cons p l ih =>
    obtain ⟨k', v'⟩ := p
    by_cases h1 : k = k' <;> simp [aget, h1, ih]

theorem aget_mem {α : Type} (k : Int) (v : α) (l : List (Int × α)) (h : aget k l = some v) : (k, v) ∈ l := by
  induction l with
  | nil => simp [aget] at h
  | cons q l ih =>
    obtain ⟨k', v'⟩ := q
    by_cases e : k = k'
    · subst e; simp [aget] at h; subst h; exact List.mem_cons_self
    · simp [aget, e] at h; exact List.mem_cons_of_mem _ (ih h)

end MySensors
