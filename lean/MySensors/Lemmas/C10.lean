/-
  Step- and history-level facts for C10: which ops can touch the OTA stores and the reboot flags
  (instances of the fine-grained induction of GwQuiet.lean), what `logic` does on stream
  requests and on set messages of a rebooting node, and the invariants over `run`.
-/
import MySensors.Lemmas.GwQuiet
import MySensors.Lemmas.GwHist
import MySensors.Lemmas.SpecOta

namespace MySensors.C10
open MySensors

/-! ### the two relations -/

/-- the protocol version is unchanged and every known node except `ex` stays known with the
    same reboot flag -/
def NodesKept (ex : Option Int) (g g' : GW) : Prop :=
  g'.const = g.const ∧
  ∀ k, some k ≠ ex → ∀ n, aget k g.sensors = some n → ∃ n', aget k g'.sensors = some n' ∧ n'.reboot = n.reboot

/-- the firmware table and the session stores are unchanged -/
def OtaKept (g g' : GW) : Prop := g'.ota = g.ota

theorem nodesKept_of_sensors (ex : Option Int) (g g' : GW) (hc : g'.const = g.const) (hs : g'.sensors = g.sensors) :
    NodesKept ex g g' :=
  ⟨hc, fun k _ n hn => ⟨n, by rw [hs]; exact hn, rfl⟩⟩

theorem NodesKept.weaken {g g' : GW} (h : NodesKept none g g') (ex : Option Int) : NodesKept ex g g' :=
  ⟨h.1, fun k _ n hn => h.2 k (by simp) n hn⟩

theorem aget_addSensor (g : GW) (id k : Int) (n : Node) (h : aget k g.sensors = some n) :
    aget k (addSensor g id).sensors = some n := by
  unfold addSensor
  split
  · exact h
  · simp only [aget_append_not_mem, h]

theorem nodesKeptRel (ex : Option Int) : QuietRel (NodesKept ex) where
  refl g := ⟨rfl, fun _ _ n hn => ⟨n, hn, rfl⟩⟩
  trans h1 h2 := ⟨h2.1.trans h1.1, fun k hk n hn => by
    obtain ⟨n1, hn1, e1⟩ := h1.2 k hk n hn
    obtain ⟨n2, hn2, e2⟩ := h2.2 k hk n1 hn1
    exact ⟨n2, hn2, e2.trans e1⟩⟩
  setNode g k n n' hn _ hb := ⟨rfl, fun k2 _ n2 hn2 => by
    by_cases e : k2 = k
    · subst e
      rw [hn] at hn2; cases hn2
      exact ⟨n', by simp [setNode], hb⟩
    · exact ⟨n2, by simp only [setNode]; rw [aget_aset_ne _ _ _ _ e]; exact hn2, rfl⟩⟩
  alert g m := nodesKept_of_sensors ex _ _ rfl rfl
  addSensor g id := ⟨by unfold addSensor; split <;> rfl, fun k _ n hn => ⟨n, aget_addSensor g id k n hn, rfl⟩⟩
  setCanLog g := nodesKept_of_sensors ex _ _ rfl rfl

theorem addSensor_ota (g : GW) (id : Int) : (addSensor g id).ota = g.ota := by
  unfold addSensor; split <;> rfl

theorem otaKeptRel : QuietRel OtaKept where
  refl _ := rfl
  trans h1 h2 := h2.trans h1
  setNode _ _ _ _ _ _ _ := rfl
  alert _ _ := rfl
  addSensor g id := addSensor_ota g id
  setCanLog _ := rfl

/-! ### the node presentation -/

theorem aget_addSensor_self (g : GW) (id : Int) : ∃ n, aget id (addSensor g id).sensors = some n := by
  unfold addSensor
  cases h : aget id g.sensors with
  | some n => exact ⟨n, h⟩
  | none => exact ⟨{ id := id }, by simp [aget_append_not_mem, h]⟩

/-- the node presentation as one in-place update after `add_sensor` -/
theorem presentNode_eq (g : GW) (m : Msg) : ∃ n, aget m.node (addSensor g m.node).sensors = some n ∧
    presentNode g m = alert (setNode (addSensor g m.node) m.node { n with type := some m.sub, version := (safeVersion m.payload).getD defaultVersion, reboot := false }) m := by
  obtain ⟨n, hn⟩ := aget_addSensor_self g m.node
  exact ⟨n, hn, by simp [presentNode, withNode, hn]⟩

theorem presentNode_ota (g : GW) (m : Msg) : OtaKept g (presentNode g m).1 := by
  obtain ⟨n, _, e⟩ := presentNode_eq g m
  rw [e]; exact addSensor_ota g m.node

theorem presentNode_nodes (g : GW) (m : Msg) : NodesKept (some m.node) g (presentNode g m).1 := by
  obtain ⟨n, hn, e⟩ := presentNode_eq g m
  rw [e]
  refine (nodesKeptRel (some m.node)).trans ((nodesKeptRel _).addSensor g m.node) ?_
  refine ⟨rfl, fun k hk n2 hn2 => ?_⟩
  have hne : k ≠ m.node := fun e => hk (by rw [e])
  exact ⟨n2, by simp only [alert, setNode]; rw [aget_aset_ne _ _ _ _ hne]; exact hn2, rfl⟩

/-- after its presentation the node is known and its reboot flag is clear -/
theorem presentNode_clears (g : GW) (m : Msg) :
    ∃ n, aget m.node (presentNode g m).1.sensors = some n ∧ n.reboot = false := by
  obtain ⟨n, _, e⟩ := presentNode_eq g m
  rw [e]
  simp only [alert, setNode]
  exact ⟨_, aget_aset_same _ _ _, rfl⟩

/-! ### the stream handler -/

theorem streamResBy_frame (h : HandlerId) (g : GW) (m : Msg) :
    (streamResBy h g m).g.sensors = g.sensors ∧ (streamResBy h g m).g.const = g.const := by
  have hc : ∀ g m, (otaConfigResponse g m).g.sensors = g.sensors ∧ (otaConfigResponse g m).g.const = g.const := by
    intro g m
    unfold otaConfigResponse
    split
    · exact ⟨rfl, rfl⟩
    · split
      · exact ⟨rfl, rfl⟩
      · split
        · rw [configReply_g]; exact ⟨rfl, rfl⟩
        · exact ⟨rfl, rfl⟩
  have hb : ∀ g m, (otaBlockResponse g m).g.sensors = g.sensors ∧ (otaBlockResponse g m).g.const = g.const := by
    intro g m
    unfold otaBlockResponse
    split
    · split
      · exact ⟨rfl, rfl⟩
      · split
        · rw [blockReply_g]; exact ⟨rfl, rfl⟩
        · exact ⟨rfl, rfl⟩
    · exact ⟨rfl, rfl⟩
  unfold streamResBy
  split
  · exact hc g m
  · exact hb g m
  · exact ⟨rfl, rfl⟩

theorem handleStream_nodes (g : GW) (m : Msg) : NodesKept none g (handleStream g m).1 := by
  unfold handleStream
  apply q_ifKnown (nodesKeptRel none); intro g1
  split
  · exact q_ret (nodesKeptRel none) g1
  · rename_i h _
    refine (nodesKeptRel none).trans ?_ (q_finishStream (nodesKeptRel none) _ m)
    have := streamResBy_frame h g1 m
    exact nodesKept_of_sensors none _ _ this.2 this.1

theorem isKnown_none (g : GW) (node : Int) : isKnown g node none = knownNode g node := by
  unfold isKnown knownNode; cases aget node g.sensors <;> rfl

/-- the stores after a stream message: unchanged, or what the registered responder left -/
theorem handleStream_ota (g : GW) (m : Msg) :
    (handleStream g m).1.ota = g.ota ∨
    ∃ h, knownNode g m.node = true ∧ lookup m.sub g.t.streamHandlers = some h ∧
      (handleStream g m).1.ota = (streamResBy h g m).g.ota := by
  unfold handleStream ifKnown
  split
  · rename_i hk
    dsimp only
    split
    · exact Or.inl rfl
    · rename_i h hl
      exact Or.inr ⟨h, by rw [← isKnown_none]; exact hk, hl, q_finishStream otaKeptRel _ m⟩
  · exact Or.inl (q_requestPresentation otaKeptRel g m.node)

/-! ### lines: which handler, which effect on stores and reboot flags -/

def presentedMsg (g : GW) (m : Msg) : Option Int :=
  if validate g.const m && decide (m.type = g.t.mtPresentation) && decide (m.child = Tables.systemChildId) then some m.node else none

/-- the node whose (accepted) node presentation this line is -/
def presented (g : GW) (line : Str) : Option Int := (decode line).bind (presentedMsg g)

def streamMsg (g : GW) (m : Msg) : Bool := validate g.const m && decide (m.type = g.t.mtStream)

/-- is the line an accepted stream message? -/
def isStreamLine (g : GW) (line : Str) : Bool := ((decode line).map (streamMsg g)).getD false

theorem logic_dispatch (g : GW) (line : Str) (m : Msg) (h : HandlerId) (hd : decode line = some m)
    (hv : validate g.const m = true) (hl : lookup m.type g.t.typeHandlers = some h) :
    logic g line = dispatchBy h g m := by
  unfold logic
  simp only [hd, hv, ↓reduceIte]
  unfold dispatch
  simp only [hl]

/-- an accepted stream message is handled by the stream handler -/
theorem logic_stream (g : GW) (line : Str) (m : Msg) (hd : decode line = some m)
    (hv : validate g.const m = true) (ht : m.type = g.t.mtStream) : logic g line = handleStream g m := by
  rw [logic_dispatch g line m .handle_stream hd hv (by rw [ht]; exact (handler_of_type g.const).2.2.1)]
  rfl

/-- an accepted set message is handled by the set handler -/
theorem logic_set (g : GW) (line : Str) (m : Msg) (hd : decode line = some m)
    (hv : validate g.const m = true) (ht : m.type = g.t.mtSet) : logic g line = handleSet g m := by
  rw [logic_dispatch g line m .handle_set hd hv (by rw [ht]; exact (handler_of_type g.const).2.1)]
  rfl

theorem logic_nodes (g : GW) (line : Str) : NodesKept (presented g line) g (logic g line).1 := by
  apply q_logic (nodesKeptRel _)
  · intro m hd hv hl hc
    have ht := (type_of_handler g.const m.type _ hl).1 rfl
    have : presented g line = some m.node := by
      simp only [presented, hd, Option.bind_some, presentedMsg, hv, Bool.true_and]
      have e1 : m.type = g.t.mtPresentation := ht
      simp [e1, hc]
    rw [this]; exact presentNode_nodes g m
  · intro m _ _ _
    exact (handleStream_nodes g m).weaken _

theorem logic_ota_nonstream (g : GW) (line : Str) (h : isStreamLine g line = false) : OtaKept g (logic g line).1 := by
  apply q_logic otaKeptRel
  · intro m _ _ _ _; exact presentNode_ota g m
  · intro m hd hv hl
    have ht : m.type = g.t.mtStream := (type_of_handler g.const m.type _ hl).2.2 rfl
    simp [isStreamLine, hd, streamMsg, hv, ht] at h

theorem logic_ota (g : GW) (line : Str) :
    (logic g line).1.ota = g.ota ∨
    ∃ m h, decode line = some m ∧ knownNode g m.node = true ∧ (logic g line).1.ota = (streamResBy h g m).g.ota := by
  cases hs : isStreamLine g line with
  | false => exact Or.inl (logic_ota_nonstream g line hs)
  | true =>
    cases hd : decode line with
    | none => simp [isStreamLine, hd] at hs
    | some m =>
      simp only [isStreamLine, hd, Option.map_some, Option.getD_some, streamMsg, Bool.and_eq_true, decide_eq_true_eq] at hs
      rw [logic_stream g line m hd hs.1 hs.2]
      rcases handleStream_ota g m with h | ⟨h, hk, _, e⟩
      · exact Or.inl h
      · exact Or.inr ⟨m, h, rfl, hk, e⟩

/-! ### steps -/

theorem save_frame (g : GW) : (save g).ota = g.ota ∧ (save g).sensors = g.sensors ∧ (save g).const = g.const := by
  unfold save; split <;> exact ⟨rfl, rfl, rfl⟩

/-- does this op schedule node `n` (an accepted update call naming `n` while `n` is known)? -/
def schedules (g : GW) (n : Int) : Op → Bool
  | .update nids t v img => updateAccepted g t v img && decide (n ∈ nids) && knownNode g n
  | _ => false

/-- no op of the history schedules `n` -/
def neverScheduled (n : Int) : GW → List Op → Prop
  | _, [] => True
  | g, op :: ops => schedules g n op = false ∧ neverScheduled n (step g op).1 ops

/-- does this op end the reboot phase of node `k` (its node presentation, or a restart)? -/
def disturbs (g : GW) (k : Int) : Op → Bool
  | .restart => true
  | .line s => decide (presented g s = some k)
  | _ => false

def undisturbed (k : Int) : GW → List Op → Prop
  | _, [] => True
  | g, op :: ops => disturbs g k op = false ∧ undisturbed k (step g op).1 ops

/-- firmware images passed to update calls are byte strings -/
def opBytes : Op → Prop
  | .update _ _ _ img => imageIsBytes img
  | _ => True

/-- the store invariant holds after every op of every kind -/
theorem storesOk_step (g : GW) (op : Op) (hok : StoresOk g.ota) : StoresOk (step g op).1.ota := by
  cases op with
  | line s =>
    simp only [step, transportFilter_fst]
    rcases logic_ota g s with h | ⟨m, h, _, _, e⟩
    · rw [h]; exact hok
    · rw [e]
      obtain ⟨s', hs, _⟩ := streamResBy_sessions h g m hok
      exact hs.ok
  | setValue n c vt v a =>
    simp only [step, transportFilter_fst]
    have : OtaKept g (setChildValue g n c vt v a).1 := q_setChildValue otaKeptRel g n c vt v a
    rw [this]; exact hok
  | update nids t v img => exact (makeUpdate_spec g nids t v img).ok hok
  | clock t => exact hok
  | metric b => exact hok
  | saveTick => simp only [step, (save_frame g).1]; exact hok
  | stop => simp only [step, (save_frame g).1]; exact hok
  | restart => exact storesOk_empty

theorem rangesOk_step (g : GW) (op : Op) (hok : StoresOk g.ota) (hr : RangesOk g.ota) (hb : opBytes op) :
    RangesOk (step g op).1.ota := by
  cases op with
  | line s =>
    simp only [step, transportFilter_fst]
    rcases logic_ota g s with h | ⟨m, h, _, _, e⟩
    · rw [h]; exact hr
    · rw [e]
      obtain ⟨s', hs, _⟩ := streamResBy_sessions h g m hok
      exact hs.ranges hr
  | setValue n c vt v a =>
    simp only [step, transportFilter_fst]
    have : OtaKept g (setChildValue g n c vt v a).1 := q_setChildValue otaKeptRel g n c vt v a
    rw [this]; exact hr
  | update nids t v img => exact (makeUpdate_spec g nids t v img).ranges hr hb
  | clock t => exact hr
  | metric b => exact hr
  | saveTick => simp only [step, (save_frame g).1]; exact hr
  | stop => simp only [step, (save_frame g).1]; exact hr
  | restart => exact rangesOk_empty

theorem storesOk_run (g : GW) (ops : List Op) (hok : StoresOk g.ota) : StoresOk (run g ops).ota := by
  induction ops generalizing g with
  | nil => exact hok
  | cons op ops ih => exact ih _ (storesOk_step g op hok)

theorem inv_run_ota (g : GW) (ops : List Op) (hok : StoresOk g.ota) (hr : RangesOk g.ota)
    (hb : ∀ op ∈ ops, opBytes op) : StoresOk (run g ops).ota ∧ RangesOk (run g ops).ota := by
  induction ops generalizing g with
  | nil => exact ⟨hok, hr⟩
  | cons op ops ih =>
    exact ih _ (storesOk_step g op hok) (rangesOk_step g op hok hr (hb op List.mem_cons_self))
      (fun o ho => hb o (List.mem_cons_of_mem _ ho))

/-- an idle node stays idle under every op that does not schedule it -/
theorem idle_step (g : GW) (op : Op) (n : Int) (hok : StoresOk g.ota) (hi : absSession g.ota n = .idle)
    (hs : schedules g n op = false) : absSession (step g op).1.ota n = .idle := by
  cases op with
  | line s =>
    simp only [step, transportFilter_fst]
    rcases logic_ota g s with h | ⟨m, h, _, _, e⟩
    · rw [h]; exact hi
    · rw [e]
      obtain ⟨s', hs', hidle⟩ := streamResBy_sessions h g m hok
      by_cases hn : n = m.node
      · subst hn; rw [hs'.session]; exact hidle hi
      · rw [hs'.others n hn]; exact hi
  | setValue nd c vt v a =>
    simp only [step, transportFilter_fst]
    have : OtaKept g (setChildValue g nd c vt v a).1 := q_setChildValue otaKeptRel g nd c vt v a
    rw [this]; exact hi
  | update nids t v img =>
    have := (makeUpdate_spec g nids t v img).session n
    simp only [step]
    rw [this, hi]
    simp only [schedules] at hs
    simp [specUpdate, hs]
  | clock t => exact hi
  | metric b => exact hi
  | saveTick => simp only [step, (save_frame g).1]; exact hi
  | stop => simp only [step, (save_frame g).1]; exact hi
  | restart => rfl

theorem idle_run (g : GW) (ops : List Op) (n : Int) (hok : StoresOk g.ota) (hi : absSession g.ota n = .idle)
    (hs : neverScheduled n g ops) : absSession (run g ops).ota n = .idle := by
  induction ops generalizing g with
  | nil => exact hi
  | cons op ops ih => exact ih _ (storesOk_step g op hok) (idle_step g op n hok hi hs.1) hs.2

/-! ### the reboot flag -/

def rebooting (g : GW) (k : Int) : Prop := ∃ n, aget k g.sensors = some n ∧ n.reboot = true

theorem NodesKept.rebooting {ex : Option Int} {g g' : GW} {k : Int} (h : NodesKept ex g g') (hk : some k ≠ ex)
    (hr : rebooting g k) : rebooting g' k := by
  obtain ⟨n, hn, hb⟩ := hr
  obtain ⟨n', hn', e⟩ := h.2 k hk n hn
  exact ⟨n', hn', e.trans hb⟩

/-- the reboot flag of a node survives every op except its own node presentation and a restart -/
theorem rebooting_step (g : GW) (op : Op) (k : Int) (hr : rebooting g k) (hd : disturbs g k op = false) :
    rebooting (step g op).1 k := by
  cases op with
  | line s =>
    simp only [step, transportFilter_fst]
    simp only [disturbs, decide_eq_false_iff_not] at hd
    exact (logic_nodes g s).rebooting (fun e => hd e.symm) hr
  | setValue nd c vt v a =>
    simp only [step, transportFilter_fst]
    exact (q_setChildValue (nodesKeptRel none) g nd c vt v a).rebooting (by simp) hr
  | update nids t v img =>
    obtain ⟨n, hn, hb⟩ := hr
    have hsp := (makeUpdate_spec g nids t v img).nodes k
    simp only [step]
    rw [hn] at hsp
    exact ⟨_, hsp, by simp [hb]⟩
  | clock t => exact hr
  | metric b => exact hr
  | saveTick => obtain ⟨n, hn, hb⟩ := hr; exact ⟨n, by simp only [step, (save_frame g).2.1]; exact hn, hb⟩
  | stop => obtain ⟨n, hn, hb⟩ := hr; exact ⟨n, by simp only [step, (save_frame g).2.1]; exact hn, hb⟩
  | restart => simp [disturbs] at hd

theorem rebooting_run (g : GW) (ops : List Op) (k : Int) (hr : rebooting g k) (hu : undisturbed k g ops) :
    rebooting (run g ops) k := by
  induction ops generalizing g with
  | nil => exact hr
  | cons op ops ih => exact ih _ (rebooting_step g op k hr hu.1) hu.2

/-! ### what is sent: stream replies -/

theorem numDigits_small (n : Int) (h0 : 0 ≤ n) (h : n < 1000) : numDigits n ≤ PyTables.intMaxDigits := by
  have e : (10 : Nat) ^ 3 = 1000 := by decide
  have := natDigits_length_le n.natAbs 3 (by omega) (by omega)
  unfold numDigits
  exact Nat.le_trans this (by decide)

/-- table facts: the stream sub-types and their handlers, the reboot request, in every version -/
theorem ota_tables (c : ConstId) :
    ∃ cq cr bq br rb, (Tables.tables c).stConfigRequest = some cq ∧ (Tables.tables c).stConfigResponse = some cr ∧
      (Tables.tables c).stRequest = some bq ∧ (Tables.tables c).stResponse = some br ∧
      lookup cq (Tables.tables c).streamHandlers = some .handle_firmware_config_request ∧
      lookup bq (Tables.tables c).streamHandlers = some .handle_firmware_request ∧
      (Tables.tables c).iReboot = some rb ∧
      numDigits rb ≤ PyTables.intMaxDigits ∧ numDigits (Tables.tables c).mtInternal ≤ PyTables.intMaxDigits := by
  cases c <;> exact ⟨_, _, _, _, _, rfl, rfl, rfl, rfl, by decide, by decide, rfl,
    numDigits_small _ (by decide) (by decide), numDigits_small _ (by decide) (by decide)⟩

/-- stream messages are never withheld -/
theorem route_stream (g : GW) (rep : Msg) (ht : rep.type = g.t.mtStream) : route g rep = emit g [encLine rep] := by
  have hne : ¬ rep.type = g.t.mtPresentation := by rw [ht]; exact (handler_of_type g.const).2.2.2.1
  have hh : holds g rep = false := by
    unfold holds
    cases aget rep.node g.sensors <;> simp [ht]
  simp [route, hne, hh]

theorem out_cb_append (m : Msg) (o : Out) (he : o.cbs = []) (hs : o.subs = []) :
    (({ cbs := [m] } : Out) ++ o) = { sent := o.sent, cbs := [m], exc := o.exc } := by
  show Out.append _ _ = _
  simp [Out.append, he, hs]

/-- a responder result without exception: the callback fires, the reply (if any) is sent -/
theorem finishStream_ok (r : StreamRes) (m : Msg) (he : r.exc = none)
    (ht : ∀ rep, r.reply = some rep → rep.type = r.g.t.mtStream) :
    finishStream r m = ((alert r.g m).1, { sent := (r.reply.map encLine).toList, cbs := [m] }) := by
  unfold finishStream
  simp only [he]
  unfold seq
  simp only [alert]
  cases hr : r.reply with
  | none => simp [ret, out_cb_append]
  | some rep =>
    have := route_stream { r.g with needSave := if r.g.persist then true else r.g.needSave } rep (ht rep hr)
    simp only [this, emit]
    rw [out_cb_append _ _ rfl rfl]
    rfl

theorem handleStream_known (g : GW) (m : Msg) (h : HandlerId) (hk : knownNode g m.node = true)
    (hl : lookup m.sub g.t.streamHandlers = some h) :
    handleStream g m = finishStream (streamResBy h g m) m := by
  unfold handleStream ifKnown
  rw [isKnown_none, hk]
  simp only [↓reduceIte, hl]

theorem handleStream_unknown (g : GW) (m : Msg) (hk : knownNode g m.node = false) :
    handleStream g m = requestPresentation g m.node := by
  unfold handleStream ifKnown
  rw [isKnown_none, hk]
  simp

/-- an accepted config / block request of a known node, against the automaton's output `sp` -/
theorem stream_step (g : GW) (line : Str) (m : Msg) (h : HandlerId) (sp : Session × Option Msg)
    (hd : decode line = some m) (hv : validate g.const m = true) (ht : m.type = g.t.mtStream)
    (hk : knownNode g m.node = true) (hl : lookup m.sub g.t.streamHandlers = some h)
    (href : Refines g m (streamResBy h g m) sp) (hty : ∀ rep, sp.2 = some rep → rep.type = m.type) :
    (logic g line).2 = { sent := (sp.2.map encLine).toList, cbs := [m] } ∧
    absSession (logic g line).1.ota m.node = sp.1 ∧
    (∀ n, n ≠ m.node → absSession (logic g line).1.ota n = absSession g.ota n) ∧
    (logic g line).1.ota.firmware = g.ota.firmware ∧
    (logic g line).1.sensors = g.sensors := by
  have hc := (streamResBy_frame h g m).2
  rw [logic_stream g line m hd hv ht, handleStream_known g m h hk hl,
    finishStream_ok _ m href.exc (by
      intro rep hr
      rw [href.reply] at hr
      rw [hty rep hr, ht]
      show (Tables.tables g.const).mtStream = (Tables.tables (streamResBy h g m).g.const).mtStream
      rw [hc])]
  refine ⟨by rw [href.reply], href.session, href.others, href.fw, ?_⟩
  exact (streamResBy_frame h g m).1

theorem streamResBy_idle (h : HandlerId) (g : GW) (m : Msg) (hi : absSession g.ota m.node = .idle) :
    (streamResBy h g m).reply = none ∧ (streamResBy h g m).g = g := by
  obtain ⟨a, b, c⟩ := abs_idle_inv hi
  unfold streamResBy
  split
  · rw [config_nopick g m (pickConfig_none a b)]; exact ⟨rfl, rfl⟩
  · rw [block_nopick g m (pickBlock_none b c)]; exact ⟨rfl, rfl⟩
  · exact ⟨rfl, rfl⟩

theorem finishStream_silent (r : StreamRes) (m : Msg) (hr : r.reply = none) : (finishStream r m).2.sent = [] := by
  unfold finishStream
  split
  · rfl
  · unfold seq
    simp only [alert, hr, ret]
    rfl

/-- any stream message of a known node whose session is idle: nothing is sent, no store changes -/
theorem idle_silent (g : GW) (m : Msg) (hk : knownNode g m.node = true) (hi : absSession g.ota m.node = .idle) :
    (handleStream g m).2.sent = [] ∧ (handleStream g m).1.ota = g.ota := by
  cases hl : lookup m.sub g.t.streamHandlers with
  | none =>
    unfold handleStream ifKnown
    rw [isKnown_none, hk]
    simp [hl, ret]
  | some h =>
    rw [handleStream_known g m h hk hl]
    obtain ⟨h1, h2⟩ := streamResBy_idle h g m hi
    refine ⟨finishStream_silent _ m h1, ?_⟩
    have : OtaKept (streamResBy h g m).g (finishStream (streamResBy h g m) m).1 := q_finishStream otaKeptRel _ m
    rw [this, h2]

/-! ### what is sent: the reboot request -/

/-- the reboot request for the node of `m`: child 255, type internal, ack 0, sub I_REBOOT, empty payload -/
def rebootMsg (g : GW) (m : Msg) (sub : Int) : Msg := ⟨m.node, Tables.systemChildId, g.t.mtInternal, 0, sub, []⟩

theorem aset_ne_nil {ν} (k : Int) (v : ν) (l : List (Int × ν)) : aset k v l ≠ [] := by
  cases l with
  | nil => simp [aset]
  | cons p l => obtain ⟨k', v'⟩ := p; by_cases h : k = k' <;> simp [aset, h]

theorem clearDesired_sleeping (n : Node) (c vt : Int) : (clearDesired n c vt).sleeping = n.sleeping := by
  unfold clearDesired
  split
  · rfl
  · rename_i dv hdv
    have h1 : n.desired ≠ [] := by intro e; rw [e] at hdv; simp at hdv
    have h2 := aset_ne_nil c (aset vt none dv) n.desired
    simp only [Node.sleeping]
    cases hx : n.desired with
    | nil => exact absurd hx h1
    | cons a b =>
      cases hy : aset c (aset vt none dv) (a :: b) with
      | nil => rw [hx] at h2; exact absurd hy h2
      | cons a' b' => rfl

theorem updateChildValue_sleeping (n : Node) (c vt : Int) (v : Str) : (updateChildValue n c vt v).sleeping = n.sleeping := by
  unfold updateChildValue; split
  · rfl
  · rw [clearDesired_sleeping]; rfl

theorem clearDesired_queue (n : Node) (c vt : Int) : (clearDesired n c vt).queue = n.queue := by
  unfold clearDesired; split <;> rfl

theorem updateChildValue_queue (n : Node) (c vt : Int) (v : Str) : (updateChildValue n c vt v).queue = n.queue := by
  unfold updateChildValue; split
  · rfl
  · rw [clearDesired_queue]

/-- where the reboot request goes: sent at once, or appended to the hold queue of a sleeping node -/
def deliverReboot (g3 : GW) (m : Msg) (reb : Msg) (sleeping : Bool) : Res :=
  if sleeping then (enqueue g3 m.node (encLine reb), { cbs := [m] })
  else (g3, { sent := [encLine reb], cbs := [m] })

/-- an accepted set message of a known child of a rebooting node: value stored, callback, and
    exactly one reply — the reboot request -/
theorem handleSet_rebooting (g : GW) (line : Str) (m : Msg) (n : Node) (sub : Int) (hd : decode line = some m)
    (hn : aget m.node g.sensors = some n) (hc : (aget m.child n.children).isSome = true)
    (hb : n.reboot = true) (hs : g.t.iReboot = some sub) :
    handleSet g m = deliverReboot (alert (setNode g m.node (updateChildValue n m.child m.sub m.payload)) m).1 m
      (rebootMsg g m sub) n.sleeping := by
  have hk : isKnown g m.node (some m.child) = true := by simp [isKnown, hn, hc]
  unfold handleSet ifKnown
  simp only [hk, ↓reduceIte, withNode, hn]
  unfold seq
  simp only [alert, hb, rebootReply, ↓reduceIte]
  have hs' : (Tables.tables g.const).iReboot = some sub := hs
  simp only [GW.t, setNode, hs', withConst, replyCopy, C02.copy_decoded line m _ hd]
  have hmod : m.modify { child := some Tables.systemChildId, type := some (Tables.tables g.const).mtInternal, ack := some 0, sub := some sub, payload := some [] } = rebootMsg g m sub := rfl
  rw [hmod]
  have hne : ¬ (Tables.tables g.const).mtInternal = (Tables.tables g.const).mtPresentation := (handler_of_type g.const).2.2.2.2.1
  have hns : ¬ (Tables.tables g.const).mtInternal = (Tables.tables g.const).mtStream := (handler_of_type g.const).2.2.2.2.2
  unfold route holds
  simp only [GW.t, rebootMsg, hne, ↓reduceIte, aget_aset_same, updateChildValue_sleeping, hns, decide_false, Bool.not_false, Bool.true_and]
  unfold deliverReboot
  cases n.sleeping with
  | true =>
    simp only [↓reduceIte, ret]
    rw [out_cb_append _ _ rfl rfl]
  | false =>
    simp only [Bool.false_eq_true, ↓reduceIte, emit]
    rw [out_cb_append _ _ rfl rfl]

/-- the text of the reboot request -/
theorem encLine_rebootMsg (g : GW) (line : Str) (m : Msg) (sub : Int) (hd : decode line = some m)
    (hs : g.t.iReboot = some sub) : encLine (rebootMsg g m sub) = canon (rebootMsg g m sub) := by
  obtain ⟨_, _, _, _, rb, _, _, _, _, _, _, hrb, h1, h2⟩ := ota_tables g.const
  have e : sub = rb := by
    have : some sub = some rb := by rw [← hs]; exact hrb
    exact Option.some.inj this
  subst e
  have hl : intsWithinLimit (rebootMsg g m sub) :=
    ⟨(decode_some line m hd).2.1, numDigits_small 255 (by decide) (by decide), h2, numDigits_small 0 (by decide) (by decide), h1⟩
  simp [encLine, encode_eq_canon _ hl]

/-! ### executable forms (for the non-vacuity examples) -/

instance decNeverScheduled (n : Int) : (g : GW) → (ops : List Op) → Decidable (neverScheduled n g ops)
  | _, [] => isTrue trivial
  | g, op :: ops =>
    have := decNeverScheduled n (step g op).1 ops
    inferInstanceAs (Decidable (schedules g n op = false ∧ neverScheduled n (step g op).1 ops))

instance decUndisturbed (k : Int) : (g : GW) → (ops : List Op) → Decidable (undisturbed k g ops)
  | _, [] => isTrue trivial
  | g, op :: ops =>
    have := decUndisturbed k (step g op).1 ops
    inferInstanceAs (Decidable (disturbs g k op = false ∧ undisturbed k (step g op).1 ops))

instance decOpBytes : (op : Op) → Decidable (opBytes op)
  | .update _ _ _ (some img) => inferInstanceAs (Decidable (∀ b ∈ img, b < 256))
  | .update _ _ _ none => isTrue trivial
  | .line _ => isTrue trivial
  | .setValue _ _ _ _ _ => isTrue trivial
  | .clock _ => isTrue trivial
  | .metric _ => isTrue trivial
  | .saveTick => isTrue trivial
  | .stop => isTrue trivial
  | .restart => isTrue trivial

/-- the lines sent by each step of a history -/
def sentsOf (g : GW) : List Op → List (List Str)
  | [] => []
  | op :: ops => (step g op).2.sent :: sentsOf (step g op).1 ops

/-- the session of node `n` after each step of a history -/
def sessionsOf (n : Int) (g : GW) : List Op → List Session
  | [] => []
  | op :: ops => absSession (step g op).1.ota n :: sessionsOf n (step g op).1 ops

end MySensors.C10
