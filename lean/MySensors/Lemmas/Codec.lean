/- Codec lemmas: `decode (canon m) = some m`, and what `decode` guarantees. -/
import MySensors.Model.Codec
import MySensors.Lemmas.Int

namespace MySensors

theorem isSpace_nl : isSpace '\n' = true := by decide
theorem isSpace_semi : isSpace ';' = false := by decide

theorem encode_eq_canon (m : Msg) (hl : intsWithinLimit m) : encode m = some (canon m) := by
  rcases hl with ⟨h1, h2, h3, h4, h5⟩
  simp [encode, encodeWith, canon, pyStrInt_eq, h1, h2, h3, h4, h5]

theorem encode_some (m : Msg) (l : Str) (h : encode m = some l) :
    l = canon m ∧ intsWithinLimit m := by
  unfold encode encodeWith at h
  unfold pyStrInt at h
  unfold intsWithinLimit
  by_cases h1 : numDigits m.node ≤ PyTables.intMaxDigits <;>
  by_cases h2 : numDigits m.child ≤ PyTables.intMaxDigits <;>
  by_cases h3 : numDigits m.type ≤ PyTables.intMaxDigits <;>
  by_cases h4 : numDigits m.ack ≤ PyTables.intMaxDigits <;>
  by_cases h5 : numDigits m.sub ≤ PyTables.intMaxDigits <;>
  simp [h1, h2, h3, h4, h5, canon] at h ⊢ <;> exact h.symm

theorem joinWith_snoc (d : Char) (init : List Str) (p : Str) (h : init ≠ []) :
    joinWith d (init ++ [p]) = joinWith d init ++ d :: p := by
  induction init with
  | nil => exact absurd rfl h
  | cons f fs ih =>
    cases fs with
    | nil => simp [joinWith]
    | cons g gs =>
      have := ih (by simp)
      simp only [List.cons_append, joinWith] at this ⊢
      rw [this]; simp

theorem getLast?_append_cons {α} (a : List α) (d : α) (p : List α) :
    (a ++ d :: p).getLast? = (d :: p).getLast? := by
  rw [List.getLast?_append]
  cases h : (d :: p).getLast? with
  | none => simp at h
  | some x => simp

/-- last character of `X ++ d :: p`: the last of `p`, or `d` when `p` is empty -/
theorem getLast?_join_payload (a : Str) (d : Char) (p : Str) (c : Char)
    (h : (a ++ d :: p).getLast? = some c) : (p = [] ∧ c = d) ∨ p.getLast? = some c := by
  rw [getLast?_append_cons] at h
  cases p with
  | nil => simp at h; exact Or.inl ⟨rfl, h.symm⟩
  | cons x xs => rw [List.getLast?_cons_cons] at h; exact Or.inr h

/-- the body of the canonical line (without the newline) is an `rstrip` fixed point -/
theorem rstrip_canon (m : Msg) (hp : endsNonSpace m.payload) :
    rstrip (canon m) = joinWith ';' [renderInt m.node, renderInt m.child, renderInt m.type,
      renderInt m.ack, renderInt m.sub, m.payload] := by
  unfold rstrip canon
  rw [rstripBy_append_true _ _ _ isSpace_nl]
  apply rstripBy_fixed
  intro c hc
  have e : [renderInt m.node, renderInt m.child, renderInt m.type, renderInt m.ack,
      renderInt m.sub, m.payload] = [renderInt m.node, renderInt m.child, renderInt m.type,
      renderInt m.ack, renderInt m.sub] ++ [m.payload] := rfl
  rw [e, joinWith_snoc _ _ _ (by simp)] at hc
  rcases getLast?_join_payload _ _ _ _ hc with ⟨_, rfl⟩ | h
  · exact isSpace_semi
  · exact hp c h

theorem decode_canon (m : Msg) (hp : carryable m.payload) (hl : intsWithinLimit m) :
    decode (canon m) = some m := by
  rcases hl with ⟨h1, h2, h3, h4, h5⟩
  unfold decode
  rw [rstrip_canon m hp.2, splitOn_join]
  · have : [renderInt m.node, renderInt m.child, renderInt m.type, renderInt m.ack,
        renderInt m.sub, m.payload] = [renderInt m.node, renderInt m.child, renderInt m.type,
        renderInt m.ack, renderInt m.sub] ++ [m.payload] := rfl
    rw [this, popLast_append_singleton]
    simp [pyInt_renderInt, h1, h2, h3, h4, h5]
  · simp
  · intro f hf
    simp at hf
    rcases hf with rfl | rfl | rfl | rfl | rfl | rfl
    all_goals first | exact renderInt_noSemi _ | exact hp.1

/-- what an accepted line guarantees about the decoded message -/
theorem decode_some (l : Str) (m : Msg) (h : decode l = some m) :
    carryable m.payload ∧ intsWithinLimit m := by
  unfold decode at h
  cases hpop : popLast (splitOn ';' (rstrip l)) with
  | none => rw [hpop] at h; simp at h
  | some ip =>
    obtain ⟨hdr, payload⟩ := ip
    rw [hpop] at h
    simp only at h
    have hsplit := popLast_some _ _ _ hpop
    match hhdr : hdr.map pyInt, h with
    | [some n, some c, some t, some a, some s], h =>
      simp at h
      subst h
      -- header fields
      have hlen : hdr.length = 5 := by
        have := congrArg List.length hhdr; simpa using this
      match hdr, hlen, hhdr with
      | [f1, f2, f3, f4, f5], _, hhdr =>
        simp at hhdr
        rcases hhdr with ⟨e1, e2, e3, e4, e5⟩
        refine ⟨⟨?_, ?_⟩, pyInt_numDigits _ _ e1, pyInt_numDigits _ _ e2, pyInt_numDigits _ _ e3,
          pyInt_numDigits _ _ e4, pyInt_numDigits _ _ e5⟩
        · exact splitOn_fields_noDelim ';' (rstrip l) payload (by rw [hsplit]; simp)
        · -- the payload is the tail of an rstripped string
          intro ch hch
          have hj := join_splitOn ';' (rstrip l)
          rw [hsplit] at hj
          have hlast : (rstrip l).getLast? = some ch := by
            rw [← hj, joinWith_snoc _ _ _ (by simp), getLast?_append_cons]
            cases hpl : payload with
            | nil => rw [hpl] at hch; simp at hch
            | cons x xs =>
              rw [hpl] at hch
              rw [List.getLast?_cons_cons]; exact hch
          exact rstripBy_last isSpace l ch hlast

end MySensors
