/- Lemmas for the framing model (core Lean only). -/
import MySensors.Model.Framing

namespace MySensors

/-! ### one `buffer.split(TERMINATOR, 1)` against the specification `segments` -/

theorem segments_splitOnce (buf : Bytes) :
    segments buf = match splitOnce buf with
      | none => ([], buf)
      | some pr => (pr.1 :: (segments pr.2).1, (segments pr.2).2) := by
  induction buf with
  | nil => rfl
  | cons b bs ih =>
    by_cases hb : b = nl
    · simp [segments, splitOnce, hb]
    · cases hs : splitOnce bs with
      | none =>
        rw [hs] at ih
        simp only [segments, splitOnce, hb, if_false, hs, ih]
      | some pr =>
        rw [hs] at ih
        simp only [segments, splitOnce, hb, if_false, hs, ih]

theorem splitOnce_length (buf : Bytes) (pr : Bytes × Bytes) (h : splitOnce buf = some pr) :
    pr.1.length + 1 + pr.2.length = buf.length := by
  induction buf generalizing pr with
  | nil => simp [splitOnce] at h
  | cons b bs ih =>
    by_cases hb : b = nl
    · simp [splitOnce, hb] at h
      subst h
      simp
      omega
    · cases hs : splitOnce bs with
      | none => simp [splitOnce, hb, hs] at h
      | some q =>
        simp [splitOnce, hb, hs] at h
        subst h
        have := ih q hs
        simp
        omega

/-- the `while` loop computes the specification whenever the fuel covers the buffer -/
theorem packetLoop_eq_segments (fuel : Nat) (buf : Bytes) (h : buf.length ≤ fuel) :
    packetLoop fuel buf = segments buf := by
  induction fuel generalizing buf with
  | zero =>
    have : buf = [] := List.length_eq_zero_iff.mp (Nat.le_zero.mp h)
    subst this; rfl
  | succ k ih =>
    rw [segments_splitOnce]
    cases hs : splitOnce buf with
    | none => simp [packetLoop, hs]
    | some pr =>
      have hl := splitOnce_length buf pr hs
      have := ih pr.2 (by omega)
      simp [packetLoop, hs, this]

/-! ### the specification is compositional -/

theorem segments_append (a b : Bytes) :
    segments (a ++ b) = ((segments a).1 ++ (segments ((segments a).2 ++ b)).1,
      (segments ((segments a).2 ++ b)).2) := by
  induction a with
  | nil => simp [segments]
  | cons x xs ih =>
    by_cases hx : x = nl
    · simp [segments, hx, ih]
    · cases hp : (segments xs).1 with
      | nil =>
        simp only [List.cons_append, segments, hx, if_false, ih, hp, List.nil_append]
      | cons p ps =>
        simp only [List.cons_append, segments, hx, if_false, ih, hp]

theorem segments_noNl (r : Bytes) (h : nl ∉ r) : segments r = ([], r) := by
  induction r with
  | nil => rfl
  | cons x xs ih =>
    have hx : x ≠ nl := by intro e; apply h; simp [e]
    have := ih (by intro e; apply h; simp [e])
    simp [segments, hx, this]

theorem segments_line (p rest : Bytes) (h : nl ∉ p) :
    segments (p ++ nl :: rest) = (p :: (segments rest).1, (segments rest).2) := by
  induction p with
  | nil => simp [segments]
  | cons x xs ih =>
    have hx : x ≠ nl := by intro e; apply h; simp [e]
    have := ih (by intro e; apply h; simp [e])
    simp only [List.cons_append, segments, hx, if_false, this]

theorem segments_fst_noNl (s : Bytes) : ∀ p ∈ (segments s).1, nl ∉ p := by
  induction s with
  | nil => simp [segments]
  | cons x xs ih =>
    by_cases hx : x = nl
    · simp only [segments, hx, if_true]
      intro p hp
      simp at hp
      rcases hp with rfl | hp
      · simp
      · exact ih p hp
    · cases hp : (segments xs).1 with
      | nil => simp [segments, hx, hp]
      | cons q qs =>
        rw [hp] at ih
        simp only [segments, hx, if_false, hp]
        intro p hp'
        simp at hp'
        rcases hp' with rfl | hp'
        · have := ih q (by simp)
          simp; exact ⟨fun e => hx e.symm, this⟩
        · exact ih p (by simp [hp'])

theorem segments_snd_noNl (s : Bytes) : nl ∉ (segments s).2 := by
  induction s with
  | nil => simp [segments]
  | cons x xs ih =>
    by_cases hx : x = nl
    · simp only [segments, hx, if_true]; exact ih
    · cases hp : (segments xs).1 with
      | nil =>
        simp only [segments, hx, if_false, hp]
        simp; exact ⟨fun e => hx e.symm, ih⟩
      | cons q qs =>
        simp only [segments, hx, if_false, hp]; exact ih

theorem segments_rebuild (s : Bytes) :
    s = ((segments s).1.map (· ++ [nl])).flatten ++ (segments s).2 := by
  induction s with
  | nil => simp [segments]
  | cons x xs ih =>
    by_cases hx : x = nl
    · simp only [segments, hx, if_true]
      simp
      exact ih
    · cases hp : (segments xs).1 with
      | nil =>
        rw [hp] at ih
        simp only [segments, hx, if_false, hp]
        simp at ih ⊢
        exact ih
      | cons q qs =>
        rw [hp] at ih
        simp only [segments, hx, if_false, hp]
        simp at ih ⊢
        exact ih

theorem segments_unique (ps : List Bytes) (r : Bytes) (hps : ∀ p ∈ ps, nl ∉ p) (hr : nl ∉ r) :
    segments ((ps.map (· ++ [nl])).flatten ++ r) = (ps, r) := by
  induction ps with
  | nil => simpa using segments_noNl r hr
  | cons p ps ih =>
    have h1 := ih (fun q hq => hps q (by simp [hq]))
    have : ((p :: ps).map (· ++ [nl])).flatten ++ r = p ++ nl :: ((ps.map (· ++ [nl])).flatten ++ r) := by
      simp
    rw [this, segments_line p _ (hps p (by simp)), h1]

/-! ### data_received in terms of the specification -/

theorem dataReceived_eq (dec : Bytes → Str) (f : Framer) (data : Bytes) :
    dataReceived dec f data
      = ({ buffer := (segments (f.buffer ++ data)).2 }, (segments (f.buffer ++ data)).1.map dec) := by
  unfold dataReceived
  simp only [packetLoop_eq_segments _ _ (Nat.le_refl _)]

/-- between calls the buffer never holds a terminator -/
theorem dataReceived_buffer_noNl (dec : Bytes → Str) (f : Framer) (data : Bytes) :
    nl ∉ (dataReceived dec f data).1.buffer := by
  rw [dataReceived_eq]; exact segments_snd_noNl _

theorem feedAll_eq (dec : Bytes → Str) (f : Framer) (chunks : List Bytes) (hf : nl ∉ f.buffer) :
    feedAll dec f chunks = dataReceived dec f chunks.flatten := by
  induction chunks generalizing f with
  | nil =>
    simp only [feedAll, List.flatten_nil, dataReceived_eq, List.append_nil, segments_noNl _ hf,
      List.map_nil]
  | cons c cs ih =>
    have hb := dataReceived_buffer_noNl dec f c
    show ((feedAll dec (dataReceived dec f c).1 cs).1,
      (dataReceived dec f c).2 ++ (feedAll dec (dataReceived dec f c).1 cs).2) = _
    rw [ih _ hb]
    simp only [dataReceived_eq, List.flatten_cons]
    rw [← List.append_assoc, segments_append (f.buffer ++ c) cs.flatten]
    simp

/-! ### chunking -/

theorem chunksAux_flatten {α} (n : Nat) (xs cur : List α) :
    (chunksAux n xs cur).flatten = cur ++ xs := by
  induction xs generalizing cur with
  | nil =>
    unfold chunksAux
    split <;> simp_all
  | cons x xs ih =>
    unfold chunksAux
    split
    · simp [ih]
    · rw [ih]; simp

theorem chunksOf_flatten {α} (n : Nat) (s : List α) : (chunksOf n s).flatten = s := by
  unfold chunksOf; rw [chunksAux_flatten]; rfl

theorem chunksAux_length {α} (n : Nat) (hn : 0 < n) (xs cur : List α) (hc : cur.length < n) :
    ∀ c ∈ chunksAux n xs cur, c.length ≤ n := by
  induction xs generalizing cur with
  | nil =>
    unfold chunksAux
    split
    · simp
    · intro c hcm; simp at hcm; subst hcm; omega
  | cons x xs ih =>
    unfold chunksAux
    split
    · intro c hcm
      simp at hcm
      rcases hcm with rfl | hcm
      · simp; omega
      · exact ih [] (by simpa using hn) c hcm
    · rename_i hlt
      exact ih (cur ++ [x]) (by simp; omega)

/-! ### the TCP reader thread -/

theorem tcpReader_eq (dec : Bytes → Str) (f : Framer) (reads : List (Option Bytes)) (hf : nl ∉ f.buffer) :
    tcpReader dec f reads = dataReceived dec f (readBytes reads) := by
  induction reads generalizing f with
  | nil => simp [tcpReader, readBytes, dataReceived_eq, segments_noNl _ hf]
  | cons r rs ih =>
    cases r with
    | none => simpa [tcpReader, readBytes] using ih f hf
    | some d =>
      by_cases hd : d.isEmpty = true
      · have : d = [] := by simpa using hd
        subst this
        simpa [tcpReader, readBytes] using ih f hf
      · have hb := dataReceived_buffer_noNl dec f d
        simp only [tcpReader, hd, readBytes, Bool.false_eq_true, if_false]
        rw [ih _ hb]
        simp only [dataReceived_eq]
        rw [← List.append_assoc, segments_append (f.buffer ++ d) (readBytes rs)]
        simp

/-! ### connection events -/

theorem connStep_buffer_noNl (keep : Bool) (dec : Bytes → Str) (f : Framer) (e : ConnEv)
    (hf : nl ∉ f.buffer) : nl ∉ (connStep keep dec f e).1.buffer := by
  cases e with
  | data b => exact dataReceived_buffer_noNl dec f b
  | lost => cases keep <;> simp [connStep, hf]
  | made => simpa [connStep] using hf

/-- the code as it is (`keep = true`): connection boundaries are invisible to the framing -/
theorem feedEvents_keep (dec : Bytes → Str) (f : Framer) (evs : List ConnEv) :
    feedEvents true dec f evs = feedAll dec f (dataOf evs) := by
  induction evs generalizing f with
  | nil => rfl
  | cons e es ih =>
    cases e with
    | data b => simp only [feedEvents, connStep, dataOf, feedAll, ih]
    | lost => simp [feedEvents, connStep, dataOf, ih]
    | made => simp [feedEvents, connStep, dataOf, ih]

theorem sessions_ne_nil (evs : List ConnEv) : sessions evs ≠ [] := by
  induction evs with
  | nil => simp [sessions]
  | cons e es ih =>
    cases e with
    | data b =>
      cases h : sessions es with
      | nil => exact absurd h ih
      | cons s ss => simp [sessions, h]
    | lost => simp [sessions]
    | made => simpa [sessions] using ih

/-- the other policy (`keep = false`): the lines are the complete segments of each
    connection's own stream, and the buffer is the tail of the last one -/
theorem feedEvents_drop (dec : Bytes → Str) (f : Framer) (evs : List ConnEv) (hf : nl ∉ f.buffer) :
    (feedEvents false dec f evs).2 = sessLines dec f.buffer (sessions evs) := by
  induction evs generalizing f with
  | nil => simp [feedEvents, sessions, sessLines, segments_noNl _ hf]
  | cons e es ih =>
    cases e with
    | data b =>
      have hb := dataReceived_buffer_noNl dec f b
      have h := ih (dataReceived dec f b).1 hb
      cases hs : sessions es with
      | nil => exact absurd hs (sessions_ne_nil es)
      | cons s ss =>
        simp only [feedEvents, connStep, sessions, hs, sessLines, h]
        rw [dataReceived_eq]
        simp only
        rw [← List.append_assoc f.buffer b s, segments_append (f.buffer ++ b) s]
        simp
    | lost =>
      have h := ih ({} : Framer) (by simp)
      simp only [feedEvents, connStep, sessions, sessLines, List.append_nil, segments_noNl _ hf] at h ⊢
      simpa using h
    | made =>
      simpa [feedEvents, connStep, sessions] using ih f hf

theorem sessLines_complete (dec : Bytes → Str) (buf : Bytes) (ss : List Bytes) :
    ∀ l ∈ sessLines dec buf ss, ∃ p, nl ∉ p ∧ l = dec p := by
  induction ss generalizing buf with
  | nil => simp [sessLines]
  | cons s ss ih =>
    intro l hl
    simp only [sessLines, List.mem_append, List.mem_map] at hl
    rcases hl with ⟨p, hp, rfl⟩ | hl
    · exact ⟨p, segments_fst_noNl _ p hp, rfl⟩
    · exact ih [] l hl

end MySensors
