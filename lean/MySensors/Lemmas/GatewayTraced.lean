/-
  The instrumented handlers (Model/GatewayTraced.lean): erasing the trace gives the model
  (`tstep_erase`), and every tree recorded at a callback is the tree at the end of the step, one
  per callback (`tstep_good`).
-/
import MySensors.Lemmas.SpecTree
import MySensors.Model.GatewayTraced

namespace MySensors

/-! ### erasure -/

theorem tlift_fst (r : Res) : (tlift r).1 = r := rfl
theorem talert_fst (g : GW) (m : Msg) : (talert g m).1 = alert g m := rfl

theorem tseq_fst (r : TRes) (f : GW → TRes) : (tseq r f).1 = seq r.1 (fun g => (f g).1) := by
  unfold tseq seq
  split <;> rename_i h <;> simp only [h]

theorem tifKnown_fst (g : GW) (n : Int) (c : Option Int) (f : GW → TRes) :
    (tifKnown g n c f).1 = ifKnown g n c (fun g => (f g).1) := by
  unfold tifKnown ifKnown; split <;> rfl

theorem twithNode_fst (g : GW) (n : Int) (f : Node → TRes) :
    (twithNode g n f).1 = withNode g n (fun x => (f x).1) := by
  unfold twithNode withNode; cases aget n g.sensors <;> rfl

theorem tpresentNode_erase (g : GW) (m : Msg) : (tpresentNode g m).1 = presentNode g m := by
  unfold tpresentNode presentNode
  simp only [twithNode_fst, talert_fst]

theorem tpresentChild_erase (g : GW) (m : Msg) : (tpresentChild g m).1 = presentChild g m := by
  unfold tpresentChild presentChild
  simp only [tifKnown_fst, twithNode_fst]
  congr; funext g1; congr; funext n
  cases aget m.child n.children <;> rfl

theorem thandlePresentation_erase (g : GW) (m : Msg) : (thandlePresentation g m).1 = handlePresentation g m := by
  unfold thandlePresentation handlePresentation
  by_cases hc : m.child = Tables.systemChildId
  · rw [if_pos hc, if_pos hc]; exact tpresentNode_erase g m
  · rw [if_neg hc, if_neg hc]; exact tpresentChild_erase g m

theorem thandleSet_erase (g : GW) (m : Msg) : (thandleSet g m).1 = handleSet g m := by
  unfold thandleSet handleSet
  simp only [tifKnown_fst, twithNode_fst, tseq_fst, talert_fst, tlift_fst]

theorem thandleHeartbeat_erase (g : GW) (m : Msg) : (thandleHeartbeat g m).1 = handleHeartbeat g m := by
  unfold thandleHeartbeat handleHeartbeat
  simp only [twithNode_fst, talert_fst]

theorem thandleInternalBy_erase (h : HandlerId) (g : GW) (m : Msg) :
    (thandleInternalBy h g m).1 = handleInternalBy h g m := by
  cases h <;>
    simp only [thandleInternalBy, handleInternalBy, tifKnown_fst, twithNode_fst, tseq_fst, talert_fst,
      tlift_fst, thandleHeartbeat_erase]

theorem tfinishStream_erase (r : StreamRes) (m : Msg) : (tfinishStream r m).1 = finishStream r m := by
  unfold tfinishStream finishStream
  cases r.exc with
  | some e => rfl
  | none =>
    simp only [tseq_fst, talert_fst, tlift_fst]
    congr

theorem thandleStream_erase (g : GW) (m : Msg) : (thandleStream g m).1 = handleStream g m := by
  unfold thandleStream handleStream
  simp only [tifKnown_fst]
  congr; funext g1
  cases lookup m.sub g1.t.streamHandlers with
  | none => rfl
  | some h => exact tfinishStream_erase _ m

theorem thandleInternal_erase (g : GW) (m : Msg) : (thandleInternal g m).1 = handleInternal g m := by
  unfold thandleInternal handleInternal
  by_cases hc : g.kind = .tcp ∧ some m.sub = g.t.iVersion
  · rw [if_pos hc, if_pos hc]; rfl
  · rw [if_neg hc, if_neg hc]
    cases lookup m.sub g.t.internalHandlers with
    | none => rfl
    | some h => exact thandleInternalBy_erase h g m

theorem tdispatchBy_erase (h : HandlerId) (g : GW) (m : Msg) : (tdispatchBy h g m).1 = dispatchBy h g m := by
  cases h <;> simp only [tdispatchBy, dispatchBy, tlift_fst, thandleSet_erase, thandleInternal_erase,
    thandleStream_erase]
  by_cases hc : g.kind = .mqtt ∧ addsChild g m = true
  · rw [if_pos hc, if_pos hc]; simp only [thandlePresentation_erase]
  · rw [if_neg hc, if_neg hc]; exact thandlePresentation_erase g m

theorem tdispatch_erase (g : GW) (m : Msg) : (tdispatch g m).1 = dispatch g m := by
  unfold tdispatch dispatch
  cases lookup m.type g.t.typeHandlers with
  | none => rfl
  | some h => exact tdispatchBy_erase h g m

theorem tlogic_erase (g : GW) (l : Str) : (tlogic g l).1 = logic g l := by
  unfold tlogic logic
  cases decode l with
  | none => rfl
  | some m =>
    by_cases hv : validate g.const m = true
    · simp only [hv, ↓reduceIte]; exact tdispatch_erase g m
    · simp only [hv]; rfl

/-- **erasing the trace gives the model** -/
theorem tstep_erase (g : GW) (op : Op) : (tstep g op).1 = step g op := by
  cases op <;> simp only [tstep, step, tlogic_erase, tlift_fst]

/-! ### what the callbacks see -/

/-- one recorded tree per callback, each equal to the tree at the end of the computation -/
def Good (r : TRes) : Prop :=
  r.2.length = r.1.2.cbs.length ∧ ∀ t ∈ r.2, t = r.1.1.persisted

theorem good_lift (r : Res) (h : r.2.cbs = []) : Good (tlift r) := by
  unfold Good tlift
  simp [h]

theorem good_lift_obs (r : Res) (t : Tree) (h : obs r = (t, [])) : Good (tlift r) := by
  simp only [obs, Prod.mk.injEq] at h
  exact good_lift r h.2

theorem good_alert (g : GW) (m : Msg) : Good (talert g m) := by
  refine ⟨rfl, ?_⟩
  intro t ht
  simp only [talert, List.mem_singleton] at ht
  rw [ht]; rfl

theorem good_seq_alert (g : GW) (m : Msg) (k : GW → Res) (hk : Silent k) :
    Good (tseq (talert g m) fun g3 => tlift (k g3)) := by
  have h := hk (alert g m).1
  simp only [obs, Prod.mk.injEq] at h
  have hex : (talert g m).1.2.exc = none := rfl
  unfold Good tseq
  simp only [hex]
  refine ⟨?_, ?_⟩
  · show ([g.persisted] ++ []).length = ((alert g m).2 ++ (k (alert g m).1).2).cbs.length
    rw [cbs_append, h.2]; rfl
  · intro t ht
    have : t = g.persisted := by simpa [talert, tlift] using ht
    rw [this]
    show _ = (k (alert g m).1).1.persisted
    rw [h.1]; rfl

theorem good_seq_first (r : Res) (f : GW → TRes) (hr : r.2.cbs = []) (hf : ∀ g, Good (f g)) :
    Good (tseq (tlift r) f) := by
  unfold tseq
  simp only [tlift]
  split
  · exact good_lift r hr
  · have := hf r.1
    unfold Good at this ⊢
    simp only [cbs_append, hr, List.nil_append]
    exact this

theorem good_ifKnown (g : GW) (n : Int) (c : Option Int) (f : GW → TRes) (hf : Good (f g)) :
    Good (tifKnown g n c f) := by
  unfold tifKnown
  split
  · exact hf
  · exact good_lift_obs _ _ (obs_requestPresentation g n)

theorem good_withNode (g : GW) (n : Int) (f : Node → TRes) (hf : ∀ x, Good (f x)) : Good (twithNode g n f) := by
  unfold twithNode
  split
  · exact good_lift _ rfl
  · exact hf _

theorem good_handleHeartbeat (g : GW) (m : Msg) : Good (thandleHeartbeat g m) :=
  good_withNode _ _ _ fun _ => good_alert _ _

theorem good_handlePresentation (g : GW) (m : Msg) : Good (thandlePresentation g m) := by
  unfold thandlePresentation
  split
  · exact good_withNode _ _ _ fun _ => good_alert _ _
  · apply good_ifKnown
    apply good_withNode; intro n
    split
    · exact good_lift _ rfl
    · exact good_alert _ _

theorem good_handleSet (g : GW) (m : Msg) : Good (thandleSet g m) := by
  apply good_ifKnown
  apply good_withNode; intro n
  exact good_seq_alert _ m (fun g3 => rebootReply g3 m n.reboot) (silent_rebootReply m n.reboot)

theorem cbs_quiet_internal (h : HandlerId) (g : GW) (m : Msg) (hn : internalMeaning h = .other ∨ internalMeaning h = .idRequest)
    (hh : h ≠ .handle_heartbeat_response) : (handleInternalBy h g m).2.cbs = [] := by
  have := obs_handleInternalBy h g m (fun e => absurd e hh)
  simp only [obs, obsBy, Prod.mk.injEq] at this
  rw [this.2]
  rcases hn with hn | hn <;> simp [hn, notifiesBy]

theorem good_handleInternalBy (h : HandlerId) (g : GW) (m : Msg) : Good (thandleInternalBy h g m) := by
  cases h
  case handle_battery_level =>
    exact good_ifKnown _ _ _ _ (good_withNode _ _ _ fun _ => good_alert _ _)
  case handle_sketch_name =>
    exact good_ifKnown _ _ _ _ (good_withNode _ _ _ fun _ => good_alert _ _)
  case handle_sketch_version =>
    exact good_ifKnown _ _ _ _ (good_withNode _ _ _ fun _ => good_alert _ _)
  case handle_gateway_ready => exact good_alert g m
  case handle_gateway_ready_20 =>
    exact good_seq_alert g m _ fun g1 => obs_withConst g1 _ _ fun a => obs_replyCopy g1 m _
  case handle_heartbeat_response =>
    apply good_ifKnown
    apply good_seq_first
    · have := obs_smartSleep g m.node
      simp only [obs, Prod.mk.injEq] at this
      exact this.2
    · intro g2; exact good_handleHeartbeat g2 m
  case handle_heartbeat_response_22 => exact good_ifKnown _ _ _ _ (good_handleHeartbeat g m)
  case handle_id_request => exact good_lift _ (cbs_quiet_internal _ g m (Or.inr rfl) (by decide))
  case handle_config => exact good_lift _ (cbs_quiet_internal _ g m (Or.inl rfl) (by decide))
  case handle_time => exact good_lift _ (cbs_quiet_internal _ g m (Or.inl rfl) (by decide))
  case handle_log_message => exact good_lift _ (cbs_quiet_internal _ g m (Or.inl rfl) (by decide))
  case handle_discover_response => exact good_lift _ (cbs_quiet_internal _ g m (Or.inl rfl) (by decide))
  case handle_pre_sleep_notification => exact good_lift _ (cbs_quiet_internal _ g m (Or.inl rfl) (by decide))
  all_goals exact good_lift _ rfl

theorem good_finishStream (r : StreamRes) (m : Msg) : Good (tfinishStream r m) := by
  unfold tfinishStream
  split
  · exact good_lift _ rfl
  · apply good_seq_alert r.g m (fun g3 => match r.reply with | none => ret g3 | some rep => route g3 rep)
    intro g3
    dsimp only
    split
    · rfl
    · exact obs_route g3 _

theorem good_handleStream (g : GW) (m : Msg) : Good (thandleStream g m) := by
  apply good_ifKnown
  split
  · exact good_lift _ rfl
  · exact good_finishStream _ m

theorem good_handleInternal (g : GW) (m : Msg) : Good (thandleInternal g m) := by
  unfold thandleInternal
  split
  · exact good_lift _ rfl
  · split
    · exact good_lift _ rfl
    · exact good_handleInternalBy _ g m

theorem good_dispatchBy (h : HandlerId) (g : GW) (m : Msg) : Good (tdispatchBy h g m) := by
  cases h
  case handle_presentation =>
    simp only [tdispatchBy]
    split
    · have := good_handlePresentation g m
      unfold Good at this ⊢
      simp only [cbs_append, List.append_nil]
      exact this
    · exact good_handlePresentation g m
  case handle_set => exact good_handleSet g m
  case handle_req => exact good_lift_obs _ _ (obs_handleReq g m)
  case handle_internal => exact good_handleInternal g m
  case handle_stream => exact good_handleStream g m
  all_goals exact good_lift _ rfl

theorem good_logic (g : GW) (l : Str) : Good (tlogic g l) := by
  unfold tlogic
  split
  · exact good_lift _ rfl
  · split
    · unfold tdispatch
      split
      · exact good_lift _ rfl
      · exact good_dispatchBy _ g _
    · exact good_lift _ rfl

/-- **what every callback of a step sees is the tree at the end of the step** -/
theorem tstep_good (g : GW) (op : Op) : Good (tstep g op) := by
  cases op with
  | line s =>
    have h := good_logic g s
    have ho := transportFilter_obs g (tlogic g s).1
    simp only [obs, Prod.mk.injEq] at ho
    unfold Good at h ⊢
    simp only [tstep, ho.1, ho.2]
    exact h
  | setValue n c vt v a =>
    exact good_lift_obs _ _ (obs_step_controller g (.setValue n c vt v a) rfl)
  | update nids t v img =>
    exact good_lift_obs _ _ (obs_step_controller g (.update nids t v img) rfl)
  | _ => exact good_lift _ rfl

end MySensors
