/- Desired-value and hold-queue bookkeeping across steps (C08). -/
import MySensors.Lemmas.GwSleep

namespace MySensors

/-- the pending desired value of (node, child, value type), if any -/
def desiredAt (g : GW) (k c vt : Int) : Option Str :=
  (aget k g.sensors).bind fun n => (aget c n.desired).bind fun dv => (aget vt dv).join

def nodeDesiredAt (n : Node) (c vt : Int) : Option Str := (aget c n.desired).bind fun dv => (aget vt dv).join

theorem desiredAt_eq (g : GW) (k c vt : Int) : desiredAt g k c vt = (aget k g.sensors).bind fun n => nodeDesiredAt n c vt := rfl

/-- how a step may change desired values and hold queues:
    * a desired value is kept, or cleared by a report of exactly that (node, child, type) whose
      callback fired in this step, or (controller call only, `W`) set by the caller;
    * a hold queue is only appended to, except that the woken node's queue is flushed. -/
structure DesStep (wk : Option Int) (W : Int → Int → Int → Prop) (g : GW) (r : Res) : Prop where
  des : ∀ k c vt, desiredAt r.1 k c vt = desiredAt g k c vt ∨
    (desiredAt r.1 k c vt = none ∧ ∃ m ∈ r.2.cbs, m.node = k ∧ m.child = c ∧ m.sub = vt) ∨ W k c vt
  queue : ∀ k n, aget k g.sensors = some n →
    ∃ n', aget k r.1.sensors = some n' ∧ ((∃ ext, n'.queue = n.queue ++ ext) ∨ wk = some k)

theorem desStep_id (wk : Option Int) (W) (g : GW) (o : Out) : DesStep wk W g (g, o) :=
  ⟨fun _ _ _ => Or.inl rfl, fun k n hn => ⟨n, hn, Or.inl ⟨[], by simp⟩⟩⟩

theorem desiredAt_setNode_same (g : GW) (k : Int) (n n' : Node) (hn : aget k g.sensors = some n)
    (hd : ∀ c vt, nodeDesiredAt n' c vt = nodeDesiredAt n c vt) (j c vt : Int) :
    desiredAt (setNode g k n') j c vt = desiredAt g j c vt := by
  unfold desiredAt setNode
  by_cases e : j = k
  · subst e; simp only [aget_aset_same, hn, Option.bind_some]; exact hd c vt
  · simp only [aget_aset_ne k j n' g.sensors e]

theorem queue_setNode (g : GW) (k : Int) (n n' : Node) (hn : aget k g.sensors = some n)
    (hq : (∃ ext, n'.queue = n.queue ++ ext) ∨ wk = some k) :
    ∀ j x, aget j g.sensors = some x →
      ∃ x', aget j (setNode g k n').sensors = some x' ∧ ((∃ ext, x'.queue = x.queue ++ ext) ∨ wk = some j) := by
  intro j x hx
  unfold setNode
  by_cases e : j = k
  · subst e
    rw [hn] at hx; cases hx
    exact ⟨n', by simp, hq⟩
  · exact ⟨x, by simp only [aget_aset_ne k j n' g.sensors e]; exact hx, Or.inl ⟨[], by simp⟩⟩

/-- node-local change (followed by `alert`) that keeps desired values and the queue -/
theorem desStep_setNode_alert (wk : Option Int) (W) (g : GW) (k : Int) (n n' : Node) (m : Msg)
    (hn : aget k g.sensors = some n) (hd : ∀ c vt, nodeDesiredAt n' c vt = nodeDesiredAt n c vt)
    (hq : n'.queue = n.queue) : DesStep wk W g (alert (setNode g k n') m) := by
  refine ⟨fun j c vt => Or.inl ?_, ?_⟩
  · exact desiredAt_setNode_same g k n n' hn hd j c vt
  · exact queue_setNode g k n n' hn (Or.inl ⟨[], by simp [hq]⟩)

theorem aget_aset {α : Type} (k j : Int) (v : α) (l : List (Int × α)) :
    aget j (aset k v l) = if j = k then some v else aget j l := by
  by_cases e : j = k
  · subst e; simp
  · simp [e, aget_aset_ne k j v l e]

theorem nodeDesiredAt_clear (n : Node) (c vt c' vt' : Int) :
    nodeDesiredAt (clearDesired n c vt) c' vt' =
      if c' = c ∧ vt' = vt then none else nodeDesiredAt n c' vt' := by
  unfold clearDesired nodeDesiredAt
  cases hd : aget c n.desired with
  | none =>
    simp only
    by_cases e : c' = c ∧ vt' = vt
    · simp [e, hd]
    · simp [e]
  | some dv =>
    simp only [aget_aset]
    by_cases e1 : c' = c
    · subst e1
      simp only [↓reduceIte, Option.bind_some, aget_aset, hd]
      by_cases e2 : vt' = vt
      · simp [e2]
      · simp [e2]
    · simp [e1]

theorem nodeDesiredAt_updateChildValue (n : Node) (c vt : Int) (v : Str) (c' vt' : Int)
    (hc : (aget c n.children).isSome) :
    nodeDesiredAt (updateChildValue n c vt v) c' vt' =
      if c' = c ∧ vt' = vt then none else nodeDesiredAt n c' vt' := by
  unfold updateChildValue
  cases hch : aget c n.children with
  | none => rw [hch] at hc; cases hc
  | some ch =>
    simp only
    rw [nodeDesiredAt_clear]
    rfl

theorem aget_initDesired (vt : Int) (d : List (Int × List (Int × Option Str))) (c j : Int) :
    (aget j (initDesired d c)).bind (fun dv => (aget (ν := Option Str) vt dv).join) =
    (aget j d).bind (fun dv => (aget vt dv).join) := by
  unfold initDesired
  cases hc : aget c d with
  | some _ => rfl
  | none =>
    simp only
    rw [aget_append_not_mem]
    cases hj : aget j d with
    | some x => rfl
    | none =>
      simp only
      split
      · simp [aget]
      · rfl

theorem nodeDesiredAt_foldl_init (cs : List Int) (d : List (Int × List (Int × Option Str))) (j vt : Int) :
    (aget j (cs.foldl initDesired d)).bind (fun dv => (aget vt dv).join) =
    (aget j d).bind (fun dv => (aget vt dv).join) := by
  induction cs generalizing d with
  | nil => rfl
  | cons c cs ih => simp only [List.foldl_cons]; rw [ih, aget_initDesired vt]

theorem nodeDesiredAt_initSleep (n : Node) (c vt : Int) : nodeDesiredAt (initSleep n) c vt = nodeDesiredAt n c vt := by
  unfold nodeDesiredAt initSleep
  exact nodeDesiredAt_foldl_init _ _ c vt

theorem desStepRelO (wk : Option Int) (W : Int → Int → Int → Prop) : StepRelO wk (DesStep wk W) where
  ret g := desStep_id wk W g {}
  fail g e := desStep_id wk W g _
  comp := by
    intro a b c o1 o2 h1 h2
    refine ⟨?_, ?_⟩
    · intro k ch vt
      have hc : (o1 ++ o2).cbs = o1.cbs ++ o2.cbs := rfl
      rcases h2.des k ch vt with e2 | ⟨e2, m, hm, hm'⟩ | w
      · rcases h1.des k ch vt with e1 | ⟨e1, m, hm, hm'⟩ | w
        · exact Or.inl (e2.trans e1)
        · exact Or.inr (Or.inl ⟨e2.trans e1, m, by rw [hc]; exact List.mem_append_left _ hm, hm'⟩)
        · exact Or.inr (Or.inr w)
      · exact Or.inr (Or.inl ⟨e2, m, by rw [hc]; exact List.mem_append_right _ hm, hm'⟩)
      · exact Or.inr (Or.inr w)
    · intro k n hn
      obtain ⟨n1, hn1, hq1⟩ := h1.queue k n hn
      obtain ⟨n2, hn2, hq2⟩ := h2.queue k n1 hn1
      refine ⟨n2, hn2, ?_⟩
      rcases hq2 with ⟨e2, he2⟩ | w
      · rcases hq1 with ⟨e1, he1⟩ | w
        · exact Or.inl ⟨e1 ++ e2, by rw [he2, he1, List.append_assoc]⟩
        · exact Or.inr w
      · exact Or.inr w
  alert g m := ⟨fun _ _ _ => Or.inl rfl, fun k n hn => ⟨n, hn, Or.inl ⟨[], by simp⟩⟩⟩
  route g m := by
    unfold route
    split
    · exact desStep_id wk W g {}
    · split
      · unfold enqueue
        split
        · exact desStep_id wk W g {}
        · rename_i n hn
          refine ⟨fun j c vt => Or.inl ?_, ?_⟩
          · exact desiredAt_setNode_same g m.node n { n with queue := n.queue ++ [encLine m] } hn (fun _ _ => rfl) j c vt
          · exact queue_setNode g m.node n { n with queue := n.queue ++ [encLine m] } hn (Or.inl ⟨[encLine m], rfl⟩)
      · exact desStep_id wk W g _
  addSensor g id _ _ := by
    unfold addSensor
    split
    · exact desStep_id wk W g {}
    · rename_i hnone
      refine ⟨fun j c vt => Or.inl ?_, ?_⟩
      · unfold desiredAt
        simp only [ret]
        rw [aget_append_not_mem]
        cases hj : aget j g.sensors with
        | some y => rfl
        | none => simp only; split <;> simp [aget]
      · intro k n hn
        refine ⟨n, ?_, Or.inl ⟨[], by simp⟩⟩
        simp only [ret]
        rw [aget_append_not_mem, hn]
  presentNode g n m hn := desStep_setNode_alert wk W g m.node n _ m hn (fun _ _ => rfl) rfl
  addChild g n m hn _ := desStep_setNode_alert wk W g m.node n _ m hn (fun _ _ => rfl) rfl
  updateValue g n m hn hc := by
    refine ⟨?_, ?_⟩
    · intro j c vt
      by_cases e : j = m.node ∧ c = m.child ∧ vt = m.sub
      · obtain ⟨rfl, rfl, rfl⟩ := e
        refine Or.inr (Or.inl ⟨?_, m, by simp [alert], rfl, rfl, rfl⟩)
        show desiredAt (setNode g m.node _) m.node m.child m.sub = none
        unfold desiredAt setNode
        simp only [aget_aset_same, Option.bind_some]
        have h1 := nodeDesiredAt_updateChildValue n m.child m.sub m.payload m.child m.sub hc
        simp only [and_self, ↓reduceIte] at h1
        exact h1
      · refine Or.inl ?_
        show desiredAt (setNode g m.node _) j c vt = _
        unfold desiredAt setNode
        by_cases ej : j = m.node
        · subst ej
          simp only [aget_aset_same, Option.bind_some, hn]
          have h1 := nodeDesiredAt_updateChildValue n m.child m.sub m.payload c vt hc
          have h2 : ¬ (c = m.child ∧ vt = m.sub) := fun h => e ⟨rfl, h.1, h.2⟩
          simp only [h2, ↓reduceIte] at h1
          exact h1
        · simp only [aget_aset_ne m.node j _ g.sensors ej]
    · exact queue_setNode g m.node n _ hn (Or.inl ⟨[], by simp [updateChildValue_queue]⟩)
  attr g k n n' m hn _ _ hd hq _ _ := desStep_setNode_alert wk W g k n n' m hn
    (fun c vt => by unfold nodeDesiredAt; rw [hd]) hq
  smartSleep g node hw _ := by
    unfold smartSleep withNode
    split
    · exact desStep_id wk W g _
    · rename_i n hn
      refine ⟨fun j c vt => Or.inl ?_, ?_⟩
      · exact desiredAt_setNode_same g node n { initSleep n with queue := [] } hn
          (fun c vt => nodeDesiredAt_initSleep n c vt) j c vt
      · exact queue_setNode g node n { initSleep n with queue := [] } hn (Or.inr hw)
  setReboot g k n hn := by
    refine ⟨fun j c vt => Or.inl ?_, ?_⟩
    · exact desiredAt_setNode_same g k n { n with reboot := true } hn (fun _ _ => rfl) j c vt
    · exact queue_setNode g k n { n with reboot := true } hn (Or.inl ⟨[], by simp⟩)
  setStores g o _ := ⟨fun _ _ _ => Or.inl rfl, fun k n hn => ⟨n, hn, Or.inl ⟨[], by simp⟩⟩⟩
  storeFw g _ _ _ _ _ _ := ⟨fun _ _ _ => Or.inl rfl, fun k n hn => ⟨n, hn, Or.inl ⟨[], by simp⟩⟩⟩
  setCanLog g := ⟨fun _ _ _ => Or.inl rfl, fun k n hn => ⟨n, hn, Or.inl ⟨[], by simp⟩⟩⟩

theorem desStep_storeDesired (wk : Option Int) (W : Int → Int → Int → Prop) (g : GW) (node child : Int)
    (n : Node) (vt : Option Int) (value : Str) (hn : aget node g.sensors = some n)
    (hW : ∀ vti, vt = some vti → W node child vti) : DesStep wk W g (storeDesired g node child n vt value) := by
  unfold storeDesired
  split
  · exact desStep_id wk W g _
  · rename_i dv hdv
    split
    · exact desStep_id wk W g _
    · exact desStep_id wk W g _
    · rename_i vti _
      refine ⟨?_, ?_⟩
      · intro j c vt'
        by_cases e : j = node ∧ c = child ∧ vt' = vti
        · obtain ⟨rfl, rfl, rfl⟩ := e
          exact Or.inr (Or.inr (hW _ rfl))
        · refine Or.inl ?_
          show desiredAt (setNode g node _) j c vt' = _
          unfold desiredAt setNode
          by_cases ej : j = node
          · subst ej
            simp only [aget_aset_same, Option.bind_some, hn, aget_aset]
            by_cases ec : c = child
            · subst ec
              simp only [↓reduceIte, Option.bind_some, hdv, aget_aset]
              have : ¬ vt' = vti := fun h => e ⟨rfl, rfl, h⟩
              simp [this]
            · simp [ec]
          · simp only [aget_aset_ne node j _ g.sensors ej]
      · exact queue_setNode g node n _ hn (Or.inl ⟨[], by simp⟩)

theorem desStep_ignoresSubs (wk : Option Int) (W) : IgnoresSubs (DesStep wk W) := by
  intro g r s h
  refine ⟨?_, h.queue⟩
  intro k c vt
  have : (r.2 ++ ({ subs := s } : Out)).cbs = r.2.cbs := by
    show (Out.append r.2 { subs := s }).cbs = _
    simp [Out.append]
  rcases h.des k c vt with e | ⟨e, m, hm, hm'⟩ | w
  · exact Or.inl e
  · exact Or.inr (Or.inl ⟨e, m, by rw [this]; exact hm, hm'⟩)
  · exact Or.inr (Or.inr w)

end MySensors
