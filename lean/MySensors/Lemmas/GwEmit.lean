/-
  C05, global part: under the invariant `EmitInv`, every line any step hands to the transport is
  the encoding of a message that is valid for the configured version, canonical and re-decodable
  (`Wire`), and the invariant is preserved.  Dedicated per-handler pass: the validity of a reply
  depends on which reply it is, so each `route` site is discharged by its own `wire_*` lemma.
-/
import MySensors.Lemmas.GwWire
import MySensors.Properties.C05Table
import MySensors.Model.Persist

namespace MySensors

def GoodVal (c : ConstId) (vt : Int) (v : Str) : Prop :=
  evalV (payloadRule (Tables.tables c) (Tables.tables c).mtSet vt) v = true ∧ carryable v

/-- children ids and value types in protocol range, battery a percentage, version a sanitised string
    (what the C11 round-trip invariant needs of a node) -/
def NodeBounds (n : Node) : Prop :=
  (∀ p ∈ n.children, (0 ≤ p.1 ∧ p.1 ≤ 255) ∧ ∀ q ∈ p.2.values, 0 ≤ q.1 ∧ q.1 ≤ 255) ∧
  (0 ≤ n.battery ∧ n.battery ≤ 100) ∧ ∃ w, n.version = Persist.loadVersion w

structure EmitInv (c : ConstId) (g : GW) : Prop where
  const : g.const = c
  ids : ∀ k n, aget k g.sensors = some n → n.id = k
  queue : ∀ k n, aget k g.sensors = some n → ∀ l ∈ n.queue, ∃ x : Msg, l = encLine x ∧ Wire c x
  values : ∀ k n cid ch vt v, aget k g.sensors = some n → aget cid n.children = some ch →
    aget vt ch.values = some v → GoodVal c vt v
  desired : ∀ k n cid dv vt v, aget k g.sensors = some n → aget cid n.desired = some dv →
    aget vt dv = some (some v) → (∃ m, createSetMessage g k cid (some vt) v 0 = .ok m) ∧ carryable v
  clock : numDigits g.clock ≤ PyTables.intMaxDigits
  disk : ∀ d, g.disk = some d → ∀ k p, aget k d = some p →
    p.id = k ∧ (∀ cid ch vt v, aget cid p.children = some ch → aget vt ch.values = some v → GoodVal c vt v) ∧
    NodeBounds p.restore
  bounds : ∀ k n, aget k g.sensors = some n → NodeBounds n

def SentWire (c : ConstId) (o : Out) : Prop := ∀ l ∈ o.sent, ∃ x : Msg, l = encLine x ∧ Wire c x

structure EO (c : ConstId) (g : GW) (r : Res) : Prop where
  const : r.1.const = g.const
  inv : EmitInv c g → EmitInv c r.1
  sent : EmitInv c g → SentWire c r.2

theorem eo_id (c : ConstId) (g : GW) (o : Out) (h : o.sent = []) : EO c g (g, o) :=
  ⟨rfl, id, fun _ l hl => by rw [h] at hl; cases hl⟩

theorem eo_comp {c : ConstId} {a b d : GW} {o1 o2 : Out} (h1 : EO c a (b, o1)) (h2 : EO c b (d, o2)) :
    EO c a (d, o1 ++ o2) := by
  refine ⟨h2.const.trans h1.const, fun hi => h2.inv (h1.inv hi), ?_⟩
  intro hi l hl
  have : (o1 ++ o2).sent = o1.sent ++ o2.sent := rfl
  rw [this, List.mem_append] at hl
  rcases hl with hl | hl
  · exact h1.sent hi l hl
  · exact h2.sent (h1.inv hi) l hl

theorem eo_seq {c : ConstId} (g : GW) (r : Res) (f : GW → Res) (h1 : EO c g r) (h2 : EO c r.1 (f r.1)) :
    EO c g (seq r f) := by
  unfold seq
  split
  · exact h1
  · exact eo_comp (o1 := r.2) h1 h2

/-- change of one node that keeps ids, and whose queue / values / desired entries are fine -/
theorem emitInv_setNode {c : ConstId} (g : GW) (k : Int) (n n' : Node) (hn : aget k g.sensors = some n)
    (hid : n'.id = n.id)
    (hq : EmitInv c g → ∀ l ∈ n'.queue, ∃ x : Msg, l = encLine x ∧ Wire c x)
    (hv : EmitInv c g → ∀ cid ch vt v, aget cid n'.children = some ch → aget vt ch.values = some v → GoodVal c vt v)
    (hd : EmitInv c g → ∀ cid dv vt v, aget cid n'.desired = some dv → aget vt dv = some (some v) →
      (∃ m, createSetMessage g k cid (some vt) v 0 = .ok m) ∧ carryable v)
    (hb : EmitInv c g → NodeBounds n')
    (hi : EmitInv c g) : EmitInv c (setNode g k n') := by
  refine ⟨hi.const, ?_, ?_, ?_, ?_, hi.clock, hi.disk, ?_⟩
  rotate_left 4
  · intro j x hx
    unfold setNode at hx
    by_cases e : j = k
    · subst e; simp only [aget_aset_same, Option.some.injEq] at hx; subst hx; exact hb hi
    · simp only [aget_aset_ne k j n' g.sensors e] at hx; exact hi.bounds j x hx
  · intro j x hx
    unfold setNode at hx
    by_cases e : j = k
    · subst e; simp only [aget_aset_same, Option.some.injEq] at hx; subst hx
      exact hid.trans (hi.ids j n hn)
    · simp only [aget_aset_ne k j n' g.sensors e] at hx; exact hi.ids j x hx
  · intro j x hx
    unfold setNode at hx
    by_cases e : j = k
    · subst e; simp only [aget_aset_same, Option.some.injEq] at hx; subst hx; exact hq hi
    · simp only [aget_aset_ne k j n' g.sensors e] at hx; exact hi.queue j x hx
  · intro j x cid ch vt v hx
    unfold setNode at hx
    by_cases e : j = k
    · subst e; simp only [aget_aset_same, Option.some.injEq] at hx; subst hx; exact hv hi cid ch vt v
    · simp only [aget_aset_ne k j n' g.sensors e] at hx; exact hi.values j x cid ch vt v hx
  · intro j x cid dv vt v hx h1 h2
    unfold setNode at hx
    by_cases e : j = k
    · subst e; simp only [aget_aset_same, Option.some.injEq] at hx; subst hx
      exact hd hi cid dv vt v h1 h2
    · simp only [aget_aset_ne k j n' g.sensors e] at hx
      exact hi.desired j x cid dv vt v hx h1 h2

theorem eo_setNode_alert {c : ConstId} (g : GW) (k : Int) (n n' : Node) (m : Msg) (hn : aget k g.sensors = some n)
    (hid : n'.id = n.id)
    (hq : EmitInv c g → ∀ l ∈ n'.queue, ∃ x : Msg, l = encLine x ∧ Wire c x)
    (hv : EmitInv c g → ∀ cid ch vt v, aget cid n'.children = some ch → aget vt ch.values = some v → GoodVal c vt v)
    (hd : EmitInv c g → ∀ cid dv vt v, aget cid n'.desired = some dv → aget vt dv = some (some v) →
      (∃ m, createSetMessage g k cid (some vt) v 0 = .ok m) ∧ carryable v)
    (hb : EmitInv c g → NodeBounds n') :
    EO c g (alert (setNode g k n') m) := by
  refine ⟨rfl, ?_, fun _ l hl => by simp [alert] at hl⟩
  intro hi
  have h := emitInv_setNode g k n n' hn hid hq hv hd hb hi
  exact ⟨h.const, h.ids, h.queue, h.values, h.desired, h.clock, h.disk, h.bounds⟩

theorem eo_alert (c : ConstId) (g : GW) (m : Msg) : EO c g (alert g m) :=
  ⟨rfl, fun hi => ⟨hi.const, hi.ids, hi.queue, hi.values, hi.desired, hi.clock, hi.disk, hi.bounds⟩,
    fun _ l hl => by simp [alert] at hl⟩

theorem eo_route {c : ConstId} (g : GW) (m : Msg) (hw : EmitInv c g → Wire c m) : EO c g (route g m) := by
  unfold route
  split
  · exact eo_id c g {} rfl
  · split
    · unfold enqueue
      split
      · exact eo_id c g {} rfl
      · rename_i n hn
        refine ⟨rfl, ?_, fun _ l hl => by simp [ret] at hl⟩
        intro hi
        refine emitInv_setNode g m.node n { n with queue := n.queue ++ [encLine m] } hn rfl ?_ ?_ ?_ ?_ hi
        · intro hi l hl
          simp only [List.mem_append, List.mem_singleton] at hl
          rcases hl with hl | rfl
          · exact hi.queue _ n hn l hl
          · exact ⟨m, rfl, hw hi⟩
        · intro hi cid ch vt v h1 h2; exact hi.values _ n cid ch vt v hn h1 h2
        · intro hi cid dv vt v h1 h2; exact hi.desired _ n cid dv vt v hn h1 h2
        · intro hi; exact hi.bounds _ n hn
    · refine ⟨rfl, id, ?_⟩
      intro hi l hl
      simp only [emit, List.mem_singleton] at hl
      subst hl
      exact ⟨m, rfl, hw hi⟩

theorem eo_requestPresentation {c : ConstId} (g : GW) (node : Int) (hc : g.const = c)
    (hn : 0 ≤ node ∧ node ≤ 255) : EO c g (requestPresentation g node) := by
  unfold requestPresentation
  split
  · split
    · exact eo_id c g {} rfl
    · rename_i sub hs
      apply eo_route
      subst hc
      exact fun _ => wire_presentation g.const node sub hn hs
  · exact eo_id c g {} rfl

theorem eo_ifKnown {c : ConstId} (g : GW) (node : Int) (child : Option Int) (f : GW → Res) (hc : g.const = c)
    (hn : 0 ≤ node ∧ node ≤ 255) (h : isKnown g node child = true → EO c g (f g)) :
    EO c g (ifKnown g node child f) := by
  unfold ifKnown
  split
  · rename_i hk; exact h hk
  · exact eo_requestPresentation g node hc hn

theorem eo_replyCopy {c : ConstId} (g : GW) (m : Msg) (kw : Kw) (ha : Accepted c m)
    (hw : EmitInv c g → Wire c (m.modify kw)) : EO c g (replyCopy g m kw) := by
  obtain ⟨l, hl⟩ := ha.2
  rw [C05.replyCopy_decoded g l m kw hl]
  exact eo_route g _ hw

/-! ### the wake-up burst -/

theorem buildSets_wire {c : ConstId} (g : GW) (hc : g.const = c) (nid : Int) (ps : List (Int × Int × Str))
    (hp : ∀ p ∈ ps, carryable p.2.2) :
    ∀ l ∈ (buildSets g nid ps).1, ∃ x : Msg, l = encLine x ∧ Wire c x := by
  induction ps with
  | nil => intro l hl; simp [buildSets] at hl
  | cons p ps ih =>
    obtain ⟨cid, vt, v⟩ := p
    intro l hl
    unfold buildSets at hl
    split at hl
    · simp at hl
    · rename_i m hm
      simp only [List.mem_cons] at hl
      rcases hl with rfl | hl
      · exact ⟨m, rfl, hc ▸ wire_created g nid cid (some vt) v 0 m hm (hp (cid, vt, v) (by simp))⟩
      · exact ih (fun q hq => hp q (by simp [hq])) l hl

theorem pending_carryable {c : ConstId} (g : GW) (k : Int) (n : Node) (hn : aget k g.sensors = some n)
    (hi : EmitInv c g) : ∀ p ∈ pending (initSleep n), carryable p.2.2 := by
  intro p hp
  obtain ⟨cid, vt, v⟩ := p
  unfold pending at hp
  simp only [List.mem_flatMap] at hp
  obtain ⟨⟨c', ch⟩, _, hp⟩ := hp
  unfold pendingOfChild at hp
  cases hdd : aget c' (initSleep n).desired with
  | none => simp [hdd] at hp
  | some dv =>
    simp only [hdd, List.mem_filterMap] at hp
    obtain ⟨⟨vt', x⟩, _, hsome⟩ := hp
    cases ha : aget vt' dv with
    | none => simp [ha] at hsome
    | some o =>
      cases o with
      | none => simp [ha] at hsome
      | some v' =>
        simp only [ha, Option.some.injEq, Prod.mk.injEq] at hsome
        obtain ⟨rfl, rfl, rfl⟩ := hsome
        obtain ⟨dv0, h3, h4⟩ := initSleep_sub n c' dv vt' v' hdd ha
        exact (hi.desired k n c' dv0 vt' v' hn h3 h4).2

theorem eo_smartSleep {c : ConstId} (g : GW) (node : Int) : EO c g (smartSleep g node) := by
  unfold smartSleep withNode
  split
  · exact eo_id c g _ rfl
  · rename_i n hn
    refine ⟨rfl, ?_, ?_⟩
    · intro hi
      refine emitInv_setNode g node n { initSleep n with queue := [] } hn rfl ?_ ?_ ?_ ?_ hi
      · intro _ l hl; simp at hl
      · intro hi cid ch vt v h1 h2; exact hi.values _ n cid ch vt v hn h1 h2
      · intro hi cid dv vt v h1 h2
        obtain ⟨dv0, h3, h4⟩ := initSleep_sub n cid dv vt v h1 h2
        exact hi.desired _ n cid dv0 vt v hn h3 h4
      · intro hi; exact hi.bounds _ n hn
    · intro hi l hl
      simp only [List.mem_append] at hl
      rcases hl with hl | hl
      · exact hi.queue node n hn l hl
      · exact buildSets_wire (setNode g node _) hi.const _ _ (pending_carryable g node n hn hi) l hl

/-! ### table facts about dispatch -/

theorem type_of_handler5 (c : ConstId) (t : Int) (h : HandlerId)
    (hl : lookup t (Tables.tables c).typeHandlers = some h) :
    (h = .handle_presentation → t = (Tables.tables c).mtPresentation) ∧
    (h = .handle_set → t = (Tables.tables c).mtSet) ∧ (h = .handle_req → t = (Tables.tables c).mtReq) ∧
    (h = .handle_internal → t = (Tables.tables c).mtInternal) ∧
    (h = .handle_stream → t = (Tables.tables c).mtStream) := by
  have hm := lookup_mem t h _ hl
  cases c <;>
    simp [Tables.tables, Tables.v14_typeHandlers, Tables.v15_typeHandlers, Tables.v20_typeHandlers,
      Tables.v21_typeHandlers, Tables.v22_typeHandlers] at hm <;>
    rcases hm with ⟨rfl, rfl⟩ | ⟨rfl, rfl⟩ | ⟨rfl, rfl⟩ | ⟨rfl, rfl⟩ | ⟨rfl, rfl⟩ <;>
    refine ⟨?_, ?_, ?_, ?_, ?_⟩ <;> intro e <;> first | rfl | cases e


/-! ### small combinators -/

theorem eo_withNode {c : ConstId} (g : GW) (node : Int) (f : Node → Res)
    (h : ∀ n, aget node g.sensors = some n → EO c g (f n)) : EO c g (withNode g node f) := by
  unfold withNode
  split
  · exact eo_id c g _ rfl
  · rename_i n hn; exact h n hn

theorem eo_withConst {c : ConstId} (g : GW) (o : Option Int) (f : Int → Res)
    (h : ∀ a, o = some a → EO c g (f a)) : EO c g (withConst g o f) := by
  unfold withConst
  split
  · exact eo_id c g _ rfl
  · rename_i a; exact h a rfl

theorem eo_then {c : ConstId} (g g1 : GW) (r : Res) (h1 : EO c g (ret g1)) (h2 : EO c g1 r) : EO c g r := by
  have := eo_comp (o1 := {}) (o2 := r.2) h1 h2
  have e : (({} : Out) ++ r.2) = r.2 := by
    show Out.append {} r.2 = r.2
    simp [Out.append]
  rw [e] at this
  exact this

theorem defaultVersion_loaded : (['1', '.', '4'] : Str) = Persist.loadVersion ['1', '.', '4'] := by decide

theorem eo_addSensor (c : ConstId) (g : GW) (id : Int) : EO c g (ret (addSensor g id)) := by
  unfold addSensor
  split
  · exact eo_id c g {} rfl
  · rename_i hnone
    refine ⟨rfl, ?_, fun _ l hl => by simp [ret] at hl⟩
    intro hi
    have key : ∀ j x, aget j (g.sensors ++ [(id, ({ id := id } : Node))]) = some x →
        aget j g.sensors = some x ∨ (aget j g.sensors = none ∧ j = id ∧ x = { id := id }) := by
      intro j x hx
      rw [aget_append_not_mem] at hx
      cases hj : aget j g.sensors with
      | some y => rw [hj] at hx; simp at hx; subst hx; exact Or.inl rfl
      | none =>
        rw [hj] at hx
        simp only at hx
        split at hx
        · rename_i e; cases hx; exact Or.inr ⟨rfl, e, rfl⟩
        · cases hx
    refine ⟨hi.const, ?_, ?_, ?_, ?_, hi.clock, hi.disk, ?_⟩
    rotate_left 4
    · intro j x hx
      rcases key j x hx with h | ⟨_, _, rfl⟩
      · exact hi.bounds j x h
      · exact ⟨by intro p hp; simp at hp, ⟨Int.le_refl 0, by show (0 : Int) ≤ 100; decide⟩, ⟨['1', '.', '4'], defaultVersion_loaded⟩⟩
    · intro j x hx
      rcases key j x hx with h | ⟨_, e, rfl⟩
      · exact hi.ids j x h
      · exact e.symm
    · intro j x hx l hl
      rcases key j x hx with h | ⟨_, _, rfl⟩
      · exact hi.queue j x h l hl
      · simp at hl
    · intro j x cid ch vt v hx h1 h2
      rcases key j x hx with h | ⟨_, _, rfl⟩
      · exact hi.values j x cid ch vt v h h1 h2
      · simp [aget] at h1
    · intro j x cid dv vt v hx h1 h2
      rcases key j x hx with h | ⟨_, _, rfl⟩
      · exact hi.desired j x cid dv vt v h h1 h2
      · simp [aget] at h1

theorem mem_aset {α : Type} (k : Int) (v : α) (l : List (Int × α)) (p : Int × α) (h : p ∈ aset k v l) :
    p ∈ l ∨ p = (k, v) := by
  induction l with
  | nil => simp [aset] at h; exact Or.inr h
  | cons q l ih =>
    obtain ⟨k', v'⟩ := q
    unfold aset at h
    split at h
    · rename_i e
      simp only [List.mem_cons] at h
      rcases h with h | h
      · exact Or.inr (by rw [h, e])
      · exact Or.inl (List.mem_cons_of_mem _ h)
    · simp only [List.mem_cons] at h
      rcases h with h | h
      · exact Or.inl (by rw [h]; exact List.mem_cons_self)
      · rcases ih h with h' | h'
        · exact Or.inl (List.mem_cons_of_mem _ h')
        · exact Or.inr h'


theorem batteryOf_bounds (p : Str) : 0 ≤ batteryOf p ∧ batteryOf p ≤ 100 := by
  unfold batteryOf
  split
  · split
    · rename_i h; exact h
    · exact ⟨by omega, by omega⟩
  · exact ⟨by omega, by omega⟩

def setSubFacts (t : VTables) : Bool :=
  (subTypesOf t t.mtSet).all (fun s => decide (0 ≤ s ∧ s ≤ 255)) &&
  decide (t.mtPresentation ≠ t.mtInternal ∧ t.mtPresentation ≠ t.mtStream)

theorem set_sub_facts (c : ConstId) : setSubFacts (Tables.tables c) = true := by cases c <;> decide

theorem validate_set_sub_range (c : ConstId) (m : Msg) (hv : validate c m = true)
    (ht : m.type = (Tables.tables c).mtSet) : 0 ≤ m.sub ∧ m.sub ≤ 255 := by
  have hf := set_sub_facts c
  simp only [setSubFacts, Bool.and_eq_true, List.all_eq_true, decide_eq_true_eq] at hf
  simp only [validate, headerOk, Bool.and_eq_true] at hv
  have hs := hv.1.2
  rw [ht] at hs
  exact hf.1 m.sub (by simpa using hs)

theorem validate_child_range (c : ConstId) (m : Msg) (hv : validate c m = true)
    (ht : m.type = (Tables.tables c).mtPresentation) : 0 ≤ m.child ∧ m.child ≤ 255 := by
  have hf := set_sub_facts c
  simp only [setSubFacts, Bool.and_eq_true, decide_eq_true_eq] at hf
  simp only [validate, headerOk, childOk, Bool.and_eq_true, decide_eq_true_eq] at hv
  have hch := hv.1.1.1.1.2
  have n1 : ¬ (m.type = (Tables.tables c).mtInternal ∧
      (some m.sub = (Tables.tables c).iIdRequest ∨ some m.sub = (Tables.tables c).iIdResponse)) := by
    intro h; rw [ht] at h; exact hf.2.1 h.1
  have n2 : ¬ (m.type = (Tables.tables c).mtInternal ∨ m.type = (Tables.tables c).mtStream) := by
    intro h; rw [ht] at h; exact h.elim hf.2.1 hf.2.2
  rw [if_neg n1, if_neg n2] at hch
  have := of_decide_eq_true hch
  simpa [Tables.systemChildId] using this

theorem updateChildValue_bounds (n : Node) (c0 vt0 : Int) (v0 : Str) (hvt : 0 ≤ vt0 ∧ vt0 ≤ 255)
    (hb : NodeBounds n) : NodeBounds (updateChildValue n c0 vt0 v0) := by
  unfold updateChildValue
  cases hc : aget c0 n.children with
  | none => exact hb
  | some ch0 =>
    simp only
    have e : ∀ x : Node, (clearDesired x c0 vt0).children = x.children ∧ (clearDesired x c0 vt0).battery = x.battery ∧
        (clearDesired x c0 vt0).version = x.version := by
      intro x; unfold clearDesired; split <;> exact ⟨rfl, rfl, rfl⟩
    obtain ⟨e1, e2, e3⟩ := e { n with children := aset c0 { ch0 with values := aset vt0 v0 ch0.values } n.children }
    refine ⟨?_, by rw [e2]; exact hb.2.1, by rw [e3]; exact hb.2.2⟩
    rw [e1]
    intro p hp
    rcases mem_aset _ _ _ p hp with h | h
    · exact hb.1 p h
    · subst h
      have hold := hb.1 (c0, ch0) (aget_mem c0 ch0 n.children hc)
      refine ⟨hold.1, ?_⟩
      intro q hq
      rcases mem_aset _ _ _ q hq with h' | h'
      · exact hold.2 q h'
      · subst h'; exact hvt

/-! ### handlers -/

theorem eo_handlePresentation {c : ConstId} (g : GW) (m : Msg) (hc : g.const = c) (ha : Accepted c m)
    (ht : m.type = (Tables.tables c).mtPresentation) : EO c g (handlePresentation g m) := by
  have hnr := validate_node_range c m ha.1
  unfold handlePresentation
  split
  · unfold presentNode
    apply eo_then g (addSensor g m.node) _ (eo_addSensor c g m.node)
    apply eo_withNode; intro n hn
    exact eo_setNode_alert _ m.node n
      { n with type := some m.sub, version := (safeVersion m.payload).getD defaultVersion, reboot := false } m hn rfl
      (fun hi => hi.queue _ n hn) (fun hi cid ch vt v h1 h2 => hi.values _ n cid ch vt v hn h1 h2)
      (fun hi cid dv vt v h1 h2 => hi.desired _ n cid dv vt v hn h1 h2)
      (fun hi => ⟨(hi.bounds _ n hn).1, (hi.bounds _ n hn).2.1, ⟨m.payload, rfl⟩⟩)
  · unfold presentChild
    apply eo_ifKnown g m.node none _ hc hnr; intro _
    apply eo_withNode; intro n hn
    split
    · exact eo_id c g {} rfl
    · rename_i hnone
      refine eo_setNode_alert g m.node n
        { n with children := n.children ++ [(m.child, ⟨m.child, m.sub, m.payload, []⟩)] } m hn rfl
        (fun hi => hi.queue _ n hn) ?_ ?_ ?_
      rotate_left 2
      · intro hi
        refine ⟨?_, (hi.bounds _ n hn).2⟩
        intro p hp
        simp only [List.mem_append, List.mem_singleton] at hp
        rcases hp with hp | rfl
        · exact (hi.bounds _ n hn).1 p hp
        · exact ⟨validate_child_range c m ha.1 ht, by intro q hq; simp at hq⟩
      · intro hi cid ch vt v h1 h2
        rw [aget_append_not_mem] at h1
        cases hj : aget cid n.children with
        | some y => rw [hj] at h1; simp at h1; subst h1; exact hi.values _ n cid y vt v hn hj h2
        | none =>
          rw [hj] at h1
          simp only at h1
          split at h1
          · cases h1; simp [aget] at h2
          · cases h1
      · exact fun hi cid dv vt v h1 h2 => hi.desired _ n cid dv vt v hn h1 h2

theorem updateChildValue_values (n : Node) (c0 vt0 : Int) (v0 : Str) (cid : Int) (ch' : Child) (vt : Int) (v : Str)
    (h1 : aget cid (updateChildValue n c0 vt0 v0).children = some ch') (h2 : aget vt ch'.values = some v) :
    (cid = c0 ∧ vt = vt0 ∧ v = v0) ∨ ∃ ch, aget cid n.children = some ch ∧ aget vt ch.values = some v := by
  unfold updateChildValue at h1
  cases hc : aget c0 n.children with
  | none => rw [hc] at h1; exact Or.inr ⟨ch', h1, h2⟩
  | some ch0 =>
    rw [hc] at h1
    simp only at h1
    have e : (clearDesired { n with children := aset c0 { ch0 with values := aset vt0 v0 ch0.values } n.children } c0 vt0).children
        = aset c0 { ch0 with values := aset vt0 v0 ch0.values } n.children := by
      unfold clearDesired; split <;> rfl
    rw [e, aget_aset] at h1
    by_cases ec : cid = c0
    · subst ec
      simp only [↓reduceIte, Option.some.injEq] at h1
      subst h1
      simp only at h2
      rw [aget_aset] at h2
      by_cases ev : vt = vt0
      · subst ev; simp only [↓reduceIte, Option.some.injEq] at h2; exact Or.inl ⟨rfl, rfl, h2.symm⟩
      · simp only [ev, ↓reduceIte] at h2; exact Or.inr ⟨ch0, hc, h2⟩
    · simp only [ec, ↓reduceIte] at h1
      exact Or.inr ⟨ch', h1, h2⟩

theorem eo_rebootReply {c : ConstId} (g : GW) (m : Msg) (b : Bool) (hc : g.const = c) (ha : Accepted c m) :
    EO c g (rebootReply g m b) := by
  unfold rebootReply
  split
  · apply eo_withConst; intro sub hs
    apply eo_replyCopy g m _ ha
    intro _
    subst hc
    exact wire_reboot g.const m sub ha hs
  · exact eo_id c g {} rfl

theorem eo_handleSet {c : ConstId} (g : GW) (m : Msg) (hc : g.const = c) (ha : Accepted c m)
    (ht : m.type = (Tables.tables c).mtSet) : EO c g (handleSet g m) := by
  have hnr := validate_node_range c m ha.1
  unfold handleSet
  apply eo_ifKnown g m.node _ _ hc hnr; intro _
  apply eo_withNode; intro n hn
  apply eo_seq
  · refine eo_setNode_alert g m.node n (updateChildValue n m.child m.sub m.payload) m hn
      (updateChildValue_id _ _ _ _) ?_ ?_ ?_ ?_
    rotate_left 3
    · intro hi
      exact updateChildValue_bounds n m.child m.sub m.payload (validate_set_sub_range c m ha.1 ht) (hi.bounds _ n hn)
    · intro hi; rw [updateChildValue_queue]; exact hi.queue _ n hn
    · intro hi cid ch vt v h1 h2
      rcases updateChildValue_values n m.child m.sub m.payload cid ch vt v h1 h2 with ⟨_, rfl, rfl⟩ | ⟨ch0, h3, h4⟩
      · have hr := validate_rule c m ha.1
        rw [ht] at hr
        exact ⟨hr, (accepted_facts ha).1⟩
      · exact hi.values _ n cid ch0 vt v hn h3 h4
    · intro hi cid dv vt v h1 h2
      obtain ⟨dv0, h3, h4⟩ := updateChildValue_sub n m.child m.sub m.payload cid dv vt v h1 h2
      exact hi.desired _ n cid dv0 vt v hn h3 h4
  · exact eo_rebootReply _ m _ hc ha

theorem createSetMessage_rule (g : GW) (node child vt : Int) (v : Str) (m : Msg)
    (h : createSetMessage g node child (some vt) v 0 = .ok m) :
    evalV (payloadRule (Tables.tables g.const) (Tables.tables g.const).mtSet vt) v = true := by
  obtain ⟨vti, hvt, hm, hv, _⟩ := createSetMessage_node _ _ _ _ _ _ _ h
  cases hvt
  have := validate_rule g.const m hv
  rw [hm] at this
  exact this

theorem desiredValue_good {c : ConstId} (g : GW) (k : Int) (n : Node) (cid vt : Int) (v : Str)
    (hn : aget k g.sensors = some n) (hi : EmitInv c g) (hd : desiredValue n cid vt = some v) : GoodVal c vt v := by
  unfold desiredValue at hd
  cases hch : aget cid n.children with
  | none => rw [hch] at hd; cases hd
  | some ch =>
    rw [hch] at hd
    simp only at hd
    cases hp : pendingValue n cid vt with
    | some pv =>
      rw [hp] at hd
      simp at hd
      subst hd
      unfold pendingValue at hp
      split at hp
      · cases hdd : aget cid n.desired with
        | none => rw [hdd] at hp; cases hp
        | some dv =>
          rw [hdd] at hp
          simp only at hp
          cases hav : aget vt dv with
          | none => rw [hav] at hp; cases hp
          | some o =>
            rw [hav] at hp
            cases o with
            | none => cases hp
            | some v' =>
              simp at hp; subst hp
              obtain ⟨⟨msg, hm⟩, hcar⟩ := hi.desired k n cid dv vt v' hn hdd hav
              have := createSetMessage_rule g k cid vt v' msg hm
              rw [hi.const] at this
              exact ⟨this, hcar⟩
      · cases hp
    | none =>
      rw [hp] at hd
      simp at hd
      exact hi.values k n cid ch vt v hn hch hd

theorem eo_handleReq {c : ConstId} (g : GW) (m : Msg) (hc : g.const = c) (ha : Accepted c m)
    (ht : m.type = (Tables.tables c).mtReq) : EO c g (handleReq g m) := by
  have hnr := validate_node_range c m ha.1
  unfold handleReq
  apply eo_ifKnown g m.node _ _ hc hnr; intro _
  apply eo_withNode; intro n hn
  split
  · exact eo_id c g {} rfl
  · rename_i v hv
    apply eo_replyCopy g m _ ha
    intro hi
    have hg := desiredValue_good g m.node n m.child m.sub v hn hi hv
    have hf := reply_facts c
    simp only [replyFacts, Bool.and_eq_true, decide_eq_true_eq] at hf
    obtain ⟨_, hlim⟩ := accepted_facts ha
    subst hc
    refine ⟨?_, hg.2, ?_⟩
    · exact C05.value_reply_valid g m v ha.1 ht hg.1
    · exact ⟨hlim.1, hlim.2.1, numDigits_small _ hf.1.1.1.1.1.1.1.2, hlim.2.2.2.1, hlim.2.2.2.2⟩


/-- attribute update of a known node (battery, sketch name/version, heartbeat) -/
theorem eo_attr {c : ConstId} (g : GW) (k : Int) (n n' : Node) (m : Msg) (hn : aget k g.sensors = some n)
    (hid : n'.id = n.id) (hch : n'.children = n.children) (hd : n'.desired = n.desired) (hq : n'.queue = n.queue)
    (hbat : n'.battery = n.battery ∨ (0 ≤ n'.battery ∧ n'.battery ≤ 100)) (hver : n'.version = n.version) :
    EO c g (alert (setNode g k n') m) := by
  refine eo_setNode_alert g k n n' m hn hid ?_ ?_ ?_ ?_
  rotate_left 3
  · intro hi
    have hb := hi.bounds _ n hn
    refine ⟨by rw [hch]; exact hb.1, ?_, ?_⟩
    · rcases hbat with e | e
      · rw [e]; exact hb.2.1
      · exact e
    · rw [hver]; exact hb.2.2
  · intro hi; rw [hq]; exact hi.queue _ n hn
  · intro hi cid ch vt v h1 h2; rw [hch] at h1; exact hi.values _ n cid ch vt v hn h1 h2
  · intro hi cid dv vt v h1 h2; rw [hd] at h1; exact hi.desired _ n cid dv vt v hn h1 h2

theorem eo_handleHeartbeat {c : ConstId} (g : GW) (m : Msg) : EO c g (handleHeartbeat g m) := by
  unfold handleHeartbeat
  apply eo_withNode; intro n hn
  exact eo_attr g m.node n { n with heartbeat := (pyInt m.payload).getD 0 } m hn rfl rfl rfl rfl (Or.inl rfl) rfl

theorem eo_handleIdRequest {c : ConstId} (g : GW) (m : Msg) (hc : g.const = c) (ha : Accepted c m)
    (ht : m.type = (Tables.tables c).mtInternal) (hk : KeyRange g) : EO c g (handleIdRequest g m) := by
  unfold handleIdRequest
  split
  · exact eo_id c g {} rfl
  · rename_i id hid
    have hs := nextId_spec g id hk hid
    have hle := maxNodeId_le g.const
    apply eo_then g (addSensor g id) _ (eo_addSensor c g id)
    apply eo_withConst; intro sub hsub
    apply eo_replyCopy _ m _ ha
    intro _
    rw [addSensor_t] at hsub
    subst hc
    have := wire_idResponse g.const m sub id ha ht hsub ⟨hs.1, Int.le_trans hs.2.1 hle⟩
    exact this

def readyFacts (t : VTables) : Bool :=
  t.internalHandlers.all fun p =>
    !(p.2 = .handle_gateway_ready_20) || (some p.1 != t.iIdRequest && some p.1 != t.iIdResponse)

theorem ready_facts (c : ConstId) : readyFacts (Tables.tables c) = true := by cases c <;> decide

theorem validate_internal_child (c : ConstId) (m : Msg) (hv : validate c m = true)
    (ht : m.type = (Tables.tables c).mtInternal) (h1 : some m.sub ≠ (Tables.tables c).iIdRequest)
    (h2 : some m.sub ≠ (Tables.tables c).iIdResponse) : m.child = 255 := by
  simp only [validate, headerOk, childOk, Bool.and_eq_true, decide_eq_true_eq] at hv
  have hch := hv.1.1.1.1.2
  have n1 : ¬ (m.type = (Tables.tables c).mtInternal ∧
      (some m.sub = (Tables.tables c).iIdRequest ∨ some m.sub = (Tables.tables c).iIdResponse)) := by
    intro h; rcases h.2 with h | h
    · exact h1 h
    · exact h2 h
  have n2 : m.type = (Tables.tables c).mtInternal ∨ m.type = (Tables.tables c).mtStream := Or.inl ht
  rw [if_neg n1, if_pos n2] at hch
  exact of_decide_eq_true hch

theorem eo_handleInternalBy {c : ConstId} (h : HandlerId) (g : GW) (m : Msg) (hc : g.const = c) (ha : Accepted c m)
    (ht : m.type = (Tables.tables c).mtInternal) (hk : KeyRange g)
    (hh : lookup m.sub (Tables.tables c).internalHandlers = some h) : EO c g (handleInternalBy h g m) := by
  have hnr := validate_node_range c m ha.1
  obtain ⟨hcar, hlim⟩ := accepted_facts ha
  unfold handleInternalBy
  split
  · exact eo_handleIdRequest g m hc ha ht hk
  · -- config
    apply eo_replyCopy g m _ ha
    intro _
    subst hc
    refine ⟨C05.config_reply_valid g m ha.1 ht hh, ?_, ?_⟩
    · show carryable (if g.metric = true then ['M'] else ['I'])
      split <;> exact carryable_of_chars _ (by intro ch hch; simp at hch; subst hch; decide)
    · exact ⟨hlim.1, hlim.2.1, hlim.2.2.1, numDigits_small 0 (by omega), hlim.2.2.2.2⟩
  · -- time
    apply eo_replyCopy g m _ ha
    intro hi
    subst hc
    exact ⟨C05.time_reply_valid g m ha.1 ht hh hi.clock, renderInt_carryable _,
      hlim.1, hlim.2.1, hlim.2.2.1, numDigits_small 0 (by omega), hlim.2.2.2.2⟩
  · apply eo_ifKnown g m.node none _ hc hnr; intro _
    apply eo_withNode; intro n hn
    exact eo_attr g m.node n { n with battery := batteryOf m.payload } m hn rfl rfl rfl rfl
      (Or.inr (batteryOf_bounds m.payload)) rfl
  · apply eo_ifKnown g m.node none _ hc hnr; intro _
    apply eo_withNode; intro n hn
    exact eo_attr g m.node n { n with sketchName := some m.payload } m hn rfl rfl rfl rfl (Or.inl rfl) rfl
  · apply eo_ifKnown g m.node none _ hc hnr; intro _
    apply eo_withNode; intro n hn
    exact eo_attr g m.node n { n with sketchVersion := some m.payload } m hn rfl rfl rfl rfl (Or.inl rfl) rfl
  · exact ⟨rfl, fun hi => ⟨hi.const, hi.ids, hi.queue, hi.values, hi.desired, hi.clock, hi.disk, hi.bounds⟩,
      fun _ l hl => by simp [ret] at hl⟩
  · exact eo_alert c g m
  · -- gateway ready (>= 2.0): broadcast discover
    apply eo_seq
    · exact eo_alert c g m
    · apply eo_withConst; intro sub hsub
      apply eo_replyCopy _ m _ ha
      intro _
      have hrf := ready_facts c
      simp only [readyFacts, List.all_eq_true] at hrf
      have := hrf (m.sub, .handle_gateway_ready_20) (lookup_mem _ _ _ hh)
      simp only [Bool.or_eq_true, Bool.not_eq_true', decide_eq_false_iff_not, not_true_eq_false, false_or,
        Bool.and_eq_true, bne_iff_ne, ne_eq] at this
      have hchild := validate_internal_child c m ha.1 ht this.1 this.2
      have e : m.modify { node := some 255, ack := some 0, sub := some sub, payload := some [] } =
          ⟨255, 255, (Tables.tables c).mtInternal, 0, sub, []⟩ := by
        simp [Msg.modify, hchild, ht]
      rw [e]
      subst hc
      exact wire_discover g.const sub hsub
  · apply eo_ifKnown g m.node none _ hc hnr; intro _
    apply eo_seq
    · exact eo_smartSleep g m.node
    · exact eo_handleHeartbeat _ m
  · apply eo_ifKnown g m.node none _ hc hnr; intro _
    exact eo_id c g {} rfl
  · apply eo_ifKnown g m.node none _ hc hnr; intro _
    exact eo_handleHeartbeat g m
  · apply eo_ifKnown g m.node none _ hc hnr; intro _
    exact eo_smartSleep g m.node
  · exact eo_id c g _ rfl

/-! ### stream handlers -/

theorem streamReply_shape {c : ConstId} (h : HandlerId) (g : GW) (m : Msg) (hc : g.const = c) (ha : Accepted c m)
    (rep : Msg) (hr : (streamResBy h g m).reply = some rep) :
    ∃ sub p, rep = ⟨m.node, m.child, m.type, m.ack, sub, p⟩ ∧
      ((Tables.tables c).stConfigResponse = some sub ∨ (Tables.tables c).stResponse = some sub) ∧
      ∀ ch ∈ p, isSpace ch = false ∧ ch ≠ ';' := by
  obtain ⟨l, hl⟩ := ha.2
  subst hc
  unfold streamResBy at hr
  split at hr
  · unfold otaConfigResponse at hr
    split at hr
    · cases hr
    · split at hr
      · cases hr
      · split at hr
        · rename_i fw sub _ hsub
          unfold configReply at hr
          rw [C02.copy_decoded l m _ hl] at hr
          simp only at hr
          split at hr
          · rename_i p hp
            simp only [Option.some.injEq] at hr
            subst hr
            exact ⟨sub, p, rfl, Or.inl hsub, fwIntToHex_chars _ p hp⟩
          · cases hr
        · cases hr
  · unfold otaBlockResponse at hr
    split at hr
    · split at hr
      · cases hr
      · split at hr
        · rename_i fw sub _ hsub
          unfold blockReply at hr
          rw [C02.copy_decoded l m _ hl] at hr
          simp only at hr
          split at hr
          · rename_i p hp
            simp only [Option.some.injEq] at hr
            subst hr
            refine ⟨sub, _, rfl, Or.inr hsub, ?_⟩
            intro ch hch
            rcases List.mem_append.mp hch with h1 | h1
            · exact fwIntToHex_chars _ p hp ch h1
            · obtain ⟨d, rfl⟩ := hexBytes_chars _ ch h1
              exact hexDigitChar_props d
          · cases hr
        · cases hr
    · cases hr
  · cases hr

theorem streamRes_sensors (h : HandlerId) (g : GW) (m : Msg) :
    ∃ o, (streamResBy h g m).g = { g with ota := o } := by
  unfold streamResBy
  split
  · unfold otaConfigResponse
    split
    · exact ⟨g.ota, rfl⟩
    · split
      · exact ⟨g.ota, rfl⟩
      · split
        · rw [configReply_g]; exact ⟨_, rfl⟩
        · exact ⟨_, rfl⟩
  · unfold otaBlockResponse
    split
    · split
      · exact ⟨g.ota, rfl⟩
      · split
        · rw [blockReply_g]; exact ⟨_, rfl⟩
        · exact ⟨_, rfl⟩
    · exact ⟨g.ota, rfl⟩
  · exact ⟨g.ota, rfl⟩

theorem emitInv_setOta {c : ConstId} (g : GW) (o : OtaState) (hi : EmitInv c g) : EmitInv c { g with ota := o } :=
  ⟨hi.const, hi.ids, hi.queue, hi.values, hi.desired, hi.clock, hi.disk, hi.bounds⟩

theorem eo_handleStream {c : ConstId} (g : GW) (m : Msg) (hc : g.const = c) (ha : Accepted c m)
    (ht : m.type = (Tables.tables c).mtStream) : EO c g (handleStream g m) := by
  have hnr := validate_node_range c m ha.1
  unfold handleStream
  apply eo_ifKnown g m.node none _ hc hnr; intro _
  split
  · exact eo_id c g {} rfl
  · rename_i h hh
    obtain ⟨o, ho⟩ := streamRes_sensors h g m
    have h1 : EO c g (ret (streamResBy h g m).g) := by
      rw [ho]
      exact ⟨rfl, fun hi => emitInv_setOta g o hi, fun _ l hl => by simp [ret] at hl⟩
    apply eo_then g _ _ h1
    unfold finishStream
    split
    · exact eo_id c _ _ rfl
    · apply eo_seq
      · exact eo_alert c _ m
      · split
        · exact eo_id c _ {} rfl
        · rename_i rep hrep
          obtain ⟨sub, p, rfl, hs, hp⟩ := streamReply_shape h g m hc ha rep hrep
          apply eo_route
          intro _
          exact wire_streamReply c m sub p ha ht hs hp

theorem eo_handleInternal {c : ConstId} (g : GW) (m : Msg) (hc : g.const = c) (ha : Accepted c m)
    (ht : m.type = (Tables.tables c).mtInternal) (hk : KeyRange g) : EO c g (handleInternal g m) := by
  unfold handleInternal
  split
  · exact eo_id c g {} rfl
  · split
    · exact eo_id c g {} rfl
    · rename_i h hh
      have hh' : lookup m.sub (Tables.tables c).internalHandlers = some h := by rw [← hc]; exact hh
      exact eo_handleInternalBy h g m hc ha ht hk hh'

theorem eo_ignoreSubs {c : ConstId} (g : GW) (r : Res) (s : List (Int × Int)) (h : EO c g r) :
    EO c g (r.1, r.2 ++ { subs := s }) := by
  refine ⟨h.const, h.inv, ?_⟩
  intro hi l hl
  have : (r.2 ++ ({ subs := s } : Out)).sent = r.2.sent := by
    show (Out.append r.2 { subs := s }).sent = _
    simp [Out.append]
  rw [this] at hl
  exact h.sent hi l hl

theorem eo_logic {c : ConstId} (g : GW) (line : Str) (hc : g.const = c) (hk : KeyRange g) :
    EO c g (logic g line) := by
  unfold logic
  cases hd : decode line with
  | none => exact eo_id c g {} rfl
  | some m =>
    simp only
    split
    · rename_i hv
      have ha : Accepted c m := ⟨by rw [← hc]; exact hv, line, hd⟩
      unfold dispatch
      cases hl : lookup m.type g.t.typeHandlers with
      | none => exact eo_id c g _ rfl
      | some h =>
        simp only
        have hl' : lookup m.type (Tables.tables c).typeHandlers = some h := by rw [← hc]; exact hl
        have htf := type_of_handler5 c m.type h hl'
        unfold dispatchBy
        split
        · split
          · exact eo_ignoreSubs g _ _ (eo_handlePresentation g m hc ha (htf.1 rfl))
          · exact eo_handlePresentation g m hc ha (htf.1 rfl)
        · exact eo_handleSet g m hc ha (htf.2.1 rfl)
        · exact eo_handleReq g m hc ha (htf.2.2.1 rfl)
        · exact eo_handleInternal g m hc ha (htf.2.2.2.1 rfl) hk
        · exact eo_handleStream g m hc ha (htf.2.2.2.2 rfl)
        · exact eo_id c g _ rfl
    · exact eo_id c g {} rfl

end MySensors

namespace MySensors

/-! ### controller calls, saves, restarts -/

theorem eo_storeDesired {c : ConstId} (g : GW) (node child : Int) (n : Node) (vt : Option Int) (value : Str)
    (msg : Msg) (ack : Int) (hn : aget node g.sensors = some n) (hcar : carryable value)
    (hm : createSetMessage g node child vt value ack = .ok msg) : EO c g (storeDesired g node child n vt value) := by
  unfold storeDesired
  cases hdv0 : aget child n.desired with
  | none => exact eo_id c g _ rfl
  | some dv0 =>
    simp only
    cases hvs : validateChildState n child vt value with
    | error e => exact eo_id c g _ rfl
    | ok u =>
      cases vt with
      | none => exact eo_id c g _ rfl
      | some vti =>
        refine ⟨rfl, ?_, fun _ l hl => by simp [ret] at hl⟩
        intro hi
        refine emitInv_setNode g node n { n with desired := aset child (aset vti (some value) dv0) n.desired } hn rfl
          (fun hi => hi.queue _ n hn) (fun hi cid ch vt v h1 h2 => hi.values _ n cid ch vt v hn h1 h2) ?_
          (fun hi => hi.bounds _ n hn) hi
        intro hi cid dv vt' v h1 h2
        simp only [aget_aset] at h1
        by_cases ec : cid = child
        · subst ec
          simp only [↓reduceIte, Option.some.injEq] at h1
          subst h1
          rw [aget_aset] at h2
          by_cases ev : vt' = vti
          · subst ev
            simp only [↓reduceIte, Option.some.injEq] at h2
            subst h2
            exact ⟨createSetMessage_ack0 g node cid (some vt') value ack msg hm, hcar⟩
          · simp only [ev, ↓reduceIte] at h2
            exact hi.desired _ n cid dv0 vt' v hn hdv0 h2
        · simp only [ec, ↓reduceIte] at h1
          exact hi.desired _ n cid dv vt' v hn h1 h2

theorem eo_setChildValue {c : ConstId} (g : GW) (node child : Int) (vt : VT) (value : Str) (ack : Option Int)
    (hc : g.const = c) (hn : 0 ≤ node ∧ node ≤ 255) (hcar : carryable value) :
    EO c g (setChildValue g node child vt value ack) := by
  unfold setChildValue
  apply eo_ifKnown g node _ _ hc hn; intro _
  apply eo_withNode; intro n hnn
  unfold setKnown
  split
  · exact eo_id c g _ rfl
  · rename_i msg hm
    split
    · exact eo_storeDesired g node child n _ value msg _ hnn hcar hm
    · refine ⟨rfl, id, ?_⟩
      intro _ l hl
      simp only [emit, List.mem_singleton] at hl
      subst hl
      exact ⟨msg, rfl, hc ▸ wire_created g node child _ value _ msg hm hcar⟩

theorem emitInv_scheduleNode {c : ConstId} (fwt fwv : Int) (g : GW) (nid : Int) (hi : EmitInv c g) :
    EmitInv c (scheduleNode fwt fwv g nid) := by
  unfold scheduleNode
  split
  · exact hi
  · rename_i n hn
    have hi' := emitInv_setOta g { g.ota with unstarted := aerase nid g.ota.unstarted, started := aerase nid g.ota.started, requested := aset nid (fwt, fwv) g.ota.requested } hi
    exact emitInv_setNode _ nid n { n with reboot := true } hn rfl (fun hi => hi.queue _ n hn)
      (fun hi cid ch vt v h1 h2 => hi.values _ n cid ch vt v hn h1 h2)
      (fun hi cid dv vt v h1 h2 => hi.desired _ n cid dv vt v hn h1 h2) (fun hi => hi.bounds _ n hn) hi'

theorem emitInv_makeUpdate {c : ConstId} (g : GW) (nids : List Int) (fwt fwv : Int) (image : Option (List Nat))
    (hi : EmitInv c g) : EmitInv c (makeUpdate g nids fwt fwv image) := by
  have hfold : ∀ (l : List Int) (g0 : GW), EmitInv c g0 → EmitInv c (l.foldl (scheduleNode fwt fwv) g0) := by
    intro l
    induction l with
    | nil => intro g0 h; exact h
    | cons x xs ih => intro g0 h; exact ih _ (emitInv_scheduleNode fwt fwv g0 x h)
  unfold makeUpdate
  split
  · exact hi
  · split
    · split
      · exact hi
      · exact hfold _ _ (emitInv_setOta g _ hi)
    · split
      · exact hi
      · exact hfold _ _ hi

theorem emitInv_save {c : ConstId} (g : GW) (hi : EmitInv c g) : EmitInv c (save g) := by
  unfold save
  split
  · refine ⟨hi.const, hi.ids, hi.queue, hi.values, hi.desired, hi.clock, ?_, hi.bounds⟩
    intro d hd k p hp
    simp only [Option.some.injEq] at hd
    subst hd
    unfold GW.persisted at hp
    have hmap : ∀ (l : List (Int × Node)), aget k (l.map fun x => (x.1, x.2.persisted)) = (aget k l).map Node.persisted := by
      intro l
      induction l with
      | nil => rfl
      | cons q l ih => obtain ⟨k', v⟩ := q; by_cases e : k = k' <;> simp [aget, e, ih]
    rw [hmap] at hp
    cases hn : aget k g.sensors with
    | none => rw [hn] at hp; cases hp
    | some n =>
      rw [hn] at hp; simp at hp; subst hp
      exact ⟨hi.ids k n hn, fun cid ch vt v h1 h2 => hi.values k n cid ch vt v hn h1 h2, hi.bounds k n hn⟩
  · exact hi

theorem emitInv_restart {c : ConstId} (g : GW) (hi : EmitInv c g) : EmitInv c (restart g) := by
  have hmap : ∀ (l : List (Int × PNode)) k, aget k (l.map fun x => (x.1, x.2.restore)) = (aget k l).map PNode.restore := by
    intro l k
    induction l with
    | nil => rfl
    | cons q l ih => obtain ⟨k', v⟩ := q; by_cases e : k = k' <;> simp [aget, e, ih]
  have key : ∀ k n, aget k (restart g).sensors = some n →
      ∃ d p, g.disk = some d ∧ aget k d = some p ∧ n = p.restore := by
    intro k n hn
    simp only [restart] at hn
    split at hn
    · rw [hmap] at hn
      cases hd : g.disk with
      | none => rw [hd] at hn; simp [aget] at hn
      | some d =>
        rw [hd] at hn
        simp only [Option.getD_some] at hn
        cases hp : aget k d with
        | none => rw [hp] at hn; cases hn
        | some p => rw [hp] at hn; simp at hn; exact ⟨d, p, rfl, hp, hn.symm⟩
    · simp [aget] at hn
  refine ⟨hi.const, ?_, ?_, ?_, ?_, hi.clock, hi.disk, ?_⟩
  rotate_left 4
  · intro k n hn
    obtain ⟨d, p, hd, hp, rfl⟩ := key k n hn
    exact (hi.disk d hd k p hp).2.2
  · intro k n hn
    obtain ⟨d, p, hd, hp, rfl⟩ := key k n hn
    exact (hi.disk d hd k p hp).1
  · intro k n hn l hl
    obtain ⟨d, p, _, _, rfl⟩ := key k n hn
    simp [PNode.restore] at hl
  · intro k n cid ch vt v hn h1 h2
    obtain ⟨d, p, hd, hp, rfl⟩ := key k n hn
    exact (hi.disk d hd k p hp).2.1 cid ch vt v h1 h2
  · intro k n cid dv vt v hn h1 _
    obtain ⟨d, p, _, _, rfl⟩ := key k n hn
    simp [PNode.restore, aget] at h1

/-- controller ops whose arguments the wire format can carry -/
def Op.carry : Op → Prop
  | .setValue node _ _ value _ => 0 ≤ node ∧ node ≤ 255 ∧ carryable value
  | .clock t => numDigits t ≤ PyTables.intMaxDigits
  | _ => True

theorem eo_filter {c : ConstId} (g g0 : GW) (r : Res) (h : EO c g r) : EO c g (transportFilter g0 r) := by
  unfold transportFilter
  split
  · refine ⟨h.const, h.inv, ?_⟩
    intro hi l hl
    simp only [List.mem_filter] at hl
    exact h.sent hi l hl.1
  · exact h

theorem eo_step {c : ConstId} (g : GW) (op : Op) (hc : g.const = c) (hk : KeyRange g) (hop : Op.carry op) :
    EO c g (step g op) := by
  cases op with
  | line s => exact eo_filter g g _ (eo_logic g s hc hk)
  | setValue n ch vt v a => exact eo_filter g g _ (eo_setChildValue g n ch vt v a hc ⟨hop.1, hop.2.1⟩ hop.2.2)
  | update nids t v img =>
    refine ⟨?_, fun hi => emitInv_makeUpdate g nids t v img hi, fun _ l hl => by simp [step] at hl⟩
    exact (rel_makeUpdate trStepRel g nids t v img).const
  | clock t =>
    exact ⟨rfl, fun hi => ⟨hi.const, hi.ids, hi.queue, hi.values, hi.desired, hop, hi.disk, hi.bounds⟩,
      fun _ l hl => by simp [step] at hl⟩
  | metric b =>
    exact ⟨rfl, fun hi => ⟨hi.const, hi.ids, hi.queue, hi.values, hi.desired, hi.clock, hi.disk, hi.bounds⟩,
      fun _ l hl => by simp [step] at hl⟩
  | saveTick =>
    exact ⟨by simp only [step, save]; split <;> rfl, fun hi => emitInv_save g hi, fun _ l hl => by simp [step] at hl⟩
  | stop =>
    exact ⟨by simp only [step, save]; split <;> rfl, fun hi => emitInv_save g hi, fun _ l hl => by simp [step] at hl⟩
  | restart => exact ⟨rfl, fun hi => emitInv_restart g hi, fun _ l hl => by simp [step] at hl⟩

end MySensors
