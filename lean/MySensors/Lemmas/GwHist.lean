/- History-level invariants of the gateway model built on the generic induction (C06, C14). -/
import MySensors.Lemmas.GwRel

namespace MySensors

/-! ### the persistence bookkeeping relation -/

/-- what a non-save step may do to the persistence bookkeeping: the file and the configuration
    are untouched and either the persisted projection and the dirty flag are unchanged
    ("quiet") or the state is marked unsaved ("dirty"). -/
structure Tr (g g' : GW) : Prop where
  disk : g'.disk = g.disk
  persist : g'.persist = g.persist
  const : g'.const = g.const
  kind : g'.kind = g.kind
  mark : (g'.persisted = g.persisted ∧ g'.needSave = g.needSave) ∨ (g'.persist = true → g'.needSave = true)

theorem Tr.refl (g : GW) : Tr g g := ⟨rfl, rfl, rfl, rfl, Or.inl ⟨rfl, rfl⟩⟩

theorem Tr.trans {a b c : GW} (h1 : Tr a b) (h2 : Tr b c) : Tr a c := by
  refine ⟨h2.disk.trans h1.disk, h2.persist.trans h1.persist, h2.const.trans h1.const,
    h2.kind.trans h1.kind, ?_⟩
  rcases h2.mark with ⟨p2, n2⟩ | d2
  · rcases h1.mark with ⟨p1, n1⟩ | d1
    · exact Or.inl ⟨p2.trans p1, n2.trans n1⟩
    · refine Or.inr fun hp => ?_
      rw [n2]; exact d1 (by rw [← h2.persist]; exact hp)
  · exact Or.inr d2

theorem persisted_setNode (g : GW) (k : Int) (n n' : Node) (h : aget k g.sensors = some n)
    (hp : n'.persisted = n.persisted) : (setNode g k n').persisted = g.persisted := by
  unfold GW.persisted setNode
  simp only
  generalize g.sensors = l at h
  induction l with
  | nil => simp [aget] at h
  | cons p l ih =>
    obtain ⟨k', v'⟩ := p
    by_cases h1 : k = k'
    · subst h1
      simp [aget] at h
      subst h
      simp [aset, hp]
    · simp [aget, h1] at h
      simp [aset, h1, ih h]

theorem trStepRel : StepRel Tr where
  refl := Tr.refl
  trans := Tr.trans
  setNodeQuiet g k n n' h hp := ⟨rfl, rfl, rfl, rfl, Or.inl ⟨persisted_setNode g k n n' h hp, rfl⟩⟩
  setNodeAlert g k n n' m _ _ := by
    refine ⟨rfl, rfl, rfl, rfl, Or.inr ?_⟩
    intro hp
    simp only [alert, setNode] at hp ⊢
    simp [hp]
  alert g m := by
    refine ⟨rfl, rfl, rfl, rfl, Or.inr ?_⟩
    intro hp
    simp only [alert] at hp ⊢
    simp [hp]
  addSensor g id _ _ := by
    unfold addSensor
    split
    · exact Tr.refl g
    · refine ⟨rfl, rfl, rfl, rfl, Or.inr ?_⟩
      intro hp
      simp only at hp ⊢
      simp [hp]
  setOta g o := ⟨rfl, rfl, rfl, rfl, Or.inl ⟨rfl, rfl⟩⟩
  setCanLog g := ⟨rfl, rfl, rfl, rfl, Or.inl ⟨rfl, rfl⟩⟩

/-! ### the known-node set only grows, and stays in range -/

/-- keys before ⊆ keys after, new keys are in 0..255 -/
structure Grow (g g' : GW) : Prop where
  mono : ∀ k ∈ akeys g.sensors, k ∈ akeys g'.sensors
  fresh : ∀ k ∈ akeys g'.sensors, k ∈ akeys g.sensors ∨ (0 ≤ k ∧ k ≤ 255)
  disk : g'.disk = g.disk

theorem akeys_setNode_of_mem (g : GW) (k : Int) (n n' : Node) (h : aget k g.sensors = some n) :
    akeys (setNode g k n').sensors = akeys g.sensors := by
  unfold setNode
  exact akeys_aset_of_mem k n' g.sensors (by rw [h]; rfl)

theorem growStepRel : StepRel Grow where
  refl g := ⟨fun _ h => h, fun _ h => Or.inl h, rfl⟩
  trans h1 h2 := ⟨fun k hk => h2.mono k (h1.mono k hk),
    fun k hk => by
      rcases h2.fresh k hk with h | h
      · exact h1.fresh k h
      · exact Or.inr h,
    h2.disk.trans h1.disk⟩
  setNodeQuiet g k n n' h _ := by
    have e := akeys_setNode_of_mem g k n n' h
    exact ⟨fun x hx => by rw [e]; exact hx, fun x hx => Or.inl (by rw [e] at hx; exact hx), rfl⟩
  setNodeAlert g k n n' m h _ := by
    have e := akeys_setNode_of_mem g k n n' h
    exact ⟨fun x hx => by simp only [alert]; rw [e]; exact hx,
      fun x hx => Or.inl (by simp only [alert] at hx; rw [e] at hx; exact hx), rfl⟩
  alert g m := ⟨fun _ h => h, fun _ h => Or.inl h, rfl⟩
  addSensor g id h0 h1 := by
    unfold addSensor
    split
    · exact ⟨fun _ h => h, fun _ h => Or.inl h, rfl⟩
    · refine ⟨fun x hx => ?_, fun x hx => ?_, rfl⟩
      · simp only [akeys, List.map_append, List.mem_append] at hx ⊢; exact Or.inl hx
      · simp only [akeys, List.map_append, List.mem_append, List.map_cons, List.map_nil,
          List.mem_singleton] at hx ⊢
        rcases hx with hx | hx
        · exact Or.inl hx
        · subst hx; exact Or.inr ⟨h0, h1⟩
  setOta g o := ⟨fun _ h => h, fun _ h => Or.inl h, rfl⟩
  setCanLog g := ⟨fun _ h => h, fun _ h => Or.inl h, rfl⟩

theorem Grow.keyRange {g g' : GW} (h : Grow g g') (hk : KeyRange g) : KeyRange g' := by
  intro k hk'
  rcases h.fresh k hk' with h1 | h1
  · exact hk k h1
  · exact h1

/-! ### steps -/

/-- ops that neither save nor restart -/
def Op.plain : Op → Bool
  | .saveTick | .stop | .restart => false
  | _ => true

theorem rel_step {R : GW → GW → Prop} (hR : StepRel R) (g : GW) (op : Op) (hp : op.plain = true)
    (hk : KeyRange g)
    (hclock : ∀ g t, R g { g with clock := t }) (hmetric : ∀ g b, R g { g with metric := b }) :
    R g (step g op).1 := by
  cases op with
  | line s => simp only [step, transportFilter_fst]; exact rel_logic hR g s hk
  | setValue n c vt v a => simp only [step, transportFilter_fst]; exact rel_setChildValue hR g n c vt v a
  | update nids t v img => exact rel_makeUpdate hR g nids t v img
  | clock t => exact hclock g t
  | metric b => exact hmetric g b
  | saveTick => simp [Op.plain] at hp
  | stop => simp [Op.plain] at hp
  | restart => simp [Op.plain] at hp

theorem tr_step (g : GW) (op : Op) (hp : op.plain = true) (hk : KeyRange g) : Tr g (step g op).1 :=
  rel_step trStepRel g op hp hk (fun _ _ => ⟨rfl, rfl, rfl, rfl, Or.inl ⟨rfl, rfl⟩⟩)
    (fun _ _ => ⟨rfl, rfl, rfl, rfl, Or.inl ⟨rfl, rfl⟩⟩)

theorem grow_step (g : GW) (op : Op) (hp : op.plain = true) (hk : KeyRange g) : Grow g (step g op).1 :=
  rel_step growStepRel g op hp hk (fun _ _ => ⟨fun _ h => h, fun _ h => Or.inl h, rfl⟩)
    (fun _ _ => ⟨fun _ h => h, fun _ h => Or.inl h, rfl⟩)

/-! ### invariants over histories -/

/-- not marked unsaved ⇒ the file holds exactly the current persisted projection -/
def Clean (g : GW) : Prop := g.persist = true → g.needSave = false → g.disk = some g.persisted

/-- keys of the tree and of the file are in range -/
def KeyInv (g : GW) : Prop :=
  KeyRange g ∧ ∀ d, g.disk = some d → ∀ k ∈ akeys d, 0 ≤ k ∧ k ≤ 255

theorem akeys_persisted (g : GW) : akeys g.persisted = akeys g.sensors := by
  simp [akeys, GW.persisted, List.map_map, Function.comp_def]

theorem save_spec (g : GW) :
    (save g).sensors = g.sensors ∧ (save g).persist = g.persist ∧
    (g.persist = true → g.needSave = true → (save g).disk = some g.persisted ∧ (save g).needSave = false) ∧
    (¬ (g.persist = true ∧ g.needSave = true) → save g = g) := by
  unfold save
  by_cases h : g.persist = true ∧ g.needSave = true
  · simp [h]
  · simp [h]
    intro h1 h2; exact absurd ⟨h1, h2⟩ h

theorem clean_save (g : GW) (hc : Clean g) : Clean (save g) := by
  by_cases h : g.persist = true ∧ g.needSave = true
  · have := (save_spec g).2.2.1 h.1 h.2
    intro _ _
    rw [this.1]
    simp [GW.persisted, (save_spec g).1]
  · rw [(save_spec g).2.2.2 h]; exact hc

theorem restart_sensors_keys (g : GW) :
    akeys (restart g).sensors = if g.persist then akeys (g.disk.getD []) else [] := by
  unfold restart
  by_cases h : g.persist <;> simp [h, akeys, List.map_map, Function.comp_def]

theorem keyInv_step (g : GW) (op : Op) (h : KeyInv g) : KeyInv (step g op).1 := by
  by_cases hp : op.plain = true
  · have hg := grow_step g op hp h.1
    refine ⟨hg.keyRange h.1, ?_⟩
    rw [hg.disk]; exact h.2
  · cases op with
    | saveTick | stop =>
      simp only [step]
      refine ⟨by intro k hk; rw [(save_spec g).1] at hk; exact h.1 k hk, ?_⟩
      intro d hd k hk
      by_cases hs : g.persist = true ∧ g.needSave = true
      · have := ((save_spec g).2.2.1 hs.1 hs.2).1
        rw [this] at hd; cases hd
        rw [akeys_persisted] at hk; exact h.1 k hk
      · rw [(save_spec g).2.2.2 hs] at hd; exact h.2 d hd k hk
    | restart =>
      simp only [step]
      refine ⟨?_, ?_⟩
      · intro k hk
        rw [restart_sensors_keys] at hk
        by_cases hpz : g.persist
        · simp [hpz] at hk
          cases hd : g.disk with
          | none => rw [hd] at hk; simp [akeys] at hk
          | some d => rw [hd] at hk; exact h.2 d hd k (by simpa using hk)
        · simp [hpz] at hk
      · intro d hd; exact h.2 d hd
    | _ => simp [Op.plain] at hp

theorem clean_step (g : GW) (op : Op) (hk : KeyRange g) (hc : Clean g) : Clean (step g op).1 := by
  by_cases hp : op.plain = true
  · have ht := tr_step g op hp hk
    intro hpers hns
    rw [ht.persist] at hpers
    rcases ht.mark with ⟨pe, ne⟩ | d
    · rw [ht.disk, pe]; exact hc hpers (by rw [← ne]; exact hns)
    · have := d (by rw [ht.persist]; exact hpers); rw [this] at hns; cases hns
  · cases op with
    | saveTick | stop => exact clean_save g hc
    | restart => intro _ hns; simp [step, restart] at hns
    | _ => simp [Op.plain] at hp

theorem inv_run (g : GW) (ops : List Op) (hk : KeyInv g) (hc : Clean g) :
    KeyInv (run g ops) ∧ Clean (run g ops) := by
  induction ops generalizing g with
  | nil => exact ⟨hk, hc⟩
  | cons op ops ih => exact ih _ (keyInv_step g op hk) (clean_step g op hk.1 hc)

theorem restore_persisted (p : PNode) : p.restore.persisted = p := rfl

/-- after `stop()`, a restart reproduces the persisted projection -/
theorem stop_restart_persisted (g : GW) (hp : g.persist = true) (hc : Clean g) :
    (restart (step g .stop).1).persisted = g.persisted := by
  have hs : (save g).disk = some g.persisted := by
    by_cases h : g.needSave = true
    · exact ((save_spec g).2.2.1 hp h).1
    · rw [(save_spec g).2.2.2 (fun hh => h hh.2)]
      exact hc hp (by simpa using h)
  simp only [step, restart, (save_spec g).2.1, hp, hs, GW.persisted, ↓reduceIte, Option.getD_some,
    List.map_map]
  apply List.map_congr_left
  intro a _; rfl

/-- a freshly constructed gateway with persistence enabled and no file yet -/
def freshGW (c : ConstId) (k : Kind) : GW := { const := c, kind := k, persist := true }

theorem freshGW_inv (c : ConstId) (k : Kind) : KeyInv (freshGW c k) ∧ Clean (freshGW c k) := by
  refine ⟨⟨?_, ?_⟩, ?_⟩
  · intro x hx; simp [freshGW, akeys] at hx
  · intro d hd; simp [freshGW] at hd
  · intro _ hns; simp [freshGW] at hns


theorem persist_step (g : GW) (op : Op) (hk : KeyRange g) : (step g op).1.persist = g.persist := by
  by_cases hp : op.plain = true
  · exact (tr_step g op hp hk).persist
  · cases op with
    | saveTick | stop => exact (save_spec g).2.1
    | restart => rfl
    | _ => simp [Op.plain] at hp

theorem persist_run (g : GW) (ops : List Op) (hk : KeyInv g) : (run g ops).persist = g.persist := by
  induction ops generalizing g with
  | nil => rfl
  | cons op ops ih =>
    show (run (step g op).1 ops).persist = _
    rw [ih _ (keyInv_step g op hk), persist_step g op hk.1]


end MySensors
