/-
  Fine-grained per-handler induction for C10 (after the pattern of Lemmas/GwRel.lean).

  `StepRel` of GwRel.lean lets `setNodeQuiet` change the reboot flag and `setOta` change the
  session stores arbitrarily, which is exactly what C10 must track.  `QuietRel R` asks only for
  closure under the mutations that keep a node's reboot flag and do not touch the OTA stores;
  then every handler except the node presentation and the stream handler, and `setChildValue`,
  respect `R`; `logic` respects `R` given `R` for those two handlers on the decoded message.
-/
import MySensors.Lemmas.GwRel

namespace MySensors.C10
open MySensors

structure QuietRel (R : GW → GW → Prop) : Prop where
  refl : ∀ g, R g g
  trans : ∀ {a b c}, R a b → R b c → R a c
  /-- in-place change of a known node that keeps its id and its reboot flag -/
  setNode : ∀ g k n n', aget k g.sensors = some n → n'.id = n.id → n'.reboot = n.reboot → R g (setNode g k n')
  alert : ∀ g m, R g (alert g m).1
  addSensor : ∀ g id, R g (addSensor g id)
  setCanLog : ∀ g, R g { g with canLog := true }

theorem clearDesired_reboot (n : Node) (c vt : Int) : (clearDesired n c vt).reboot = n.reboot := by
  unfold clearDesired; split <;> rfl

theorem updateChildValue_reboot (n : Node) (c vt : Int) (v : Str) : (updateChildValue n c vt v).reboot = n.reboot := by
  unfold updateChildValue; split
  · rfl
  · rw [clearDesired_reboot]

section generic
variable {R : GW → GW → Prop} (hR : QuietRel R)
include hR

theorem q_ret (g : GW) : R g (ret g).1 := hR.refl g
theorem q_emit (g : GW) (l : List Str) : R g (emit g l).1 := hR.refl g
theorem q_fail (g : GW) (e : Exc) : R g (fail g e).1 := hR.refl g

theorem q_seq (g : GW) (r : Res) (f : GW → Res) (h1 : R g r.1) (h2 : ∀ g1, R g1 (f g1).1) :
    R g (seq r f).1 := by
  unfold seq
  split
  · exact h1
  · exact hR.trans h1 (h2 r.1)

theorem q_setNodeAlert (g : GW) (k : Int) (n n' : Node) (m : Msg) (h : aget k g.sensors = some n)
    (hi : n'.id = n.id) (hb : n'.reboot = n.reboot) : R g (alert (setNode g k n') m).1 :=
  hR.trans (hR.setNode g k n n' h hi hb) (hR.alert _ m)

theorem q_enqueue (g : GW) (node : Int) (line : Str) : R g (enqueue g node line) := by
  unfold enqueue
  split
  · exact hR.refl g
  · rename_i n hn
    exact hR.setNode g node n _ hn rfl rfl

theorem q_route (g : GW) (m : Msg) : R g (route g m).1 := by
  unfold route
  split
  · exact q_ret hR g
  · split
    · exact q_enqueue hR g _ _
    · exact q_emit hR g _

theorem q_requestPresentation (g : GW) (node : Int) : R g (requestPresentation g node).1 := by
  unfold requestPresentation
  split
  · split
    · exact q_ret hR g
    · exact q_route hR g _
  · exact q_ret hR g

theorem q_ifKnown (g : GW) (node : Int) (child : Option Int) (f : GW → Res)
    (h : ∀ g1, R g1 (f g1).1) : R g (ifKnown g node child f).1 := by
  unfold ifKnown
  split
  · exact h g
  · exact q_requestPresentation hR g node

theorem q_withNode (g : GW) (node : Int) (f : Node → Res)
    (h : ∀ n, aget node g.sensors = some n → R g (f n).1) : R g (withNode g node f).1 := by
  unfold withNode
  split
  · exact q_fail hR g _
  · rename_i n hn; exact h n hn

theorem q_withConst (g : GW) (o : Option Int) (f : Int → Res) (h : ∀ a, R g (f a).1) :
    R g (withConst g o f).1 := by
  unfold withConst
  split
  · exact q_fail hR g _
  · exact h _

theorem q_replyCopy (g : GW) (m : Msg) (kw : Kw) : R g (replyCopy g m kw).1 := by
  unfold replyCopy
  split
  · exact q_fail hR g _
  · exact q_route hR g _

theorem q_smartSleep (g : GW) (node : Int) : R g (smartSleep g node).1 := by
  unfold smartSleep
  apply q_withNode hR
  intro n hn
  exact hR.setNode g node n _ hn rfl rfl

theorem q_presentChild (g : GW) (m : Msg) : R g (presentChild g m).1 := by
  unfold presentChild
  apply q_ifKnown hR; intro g1
  apply q_withNode hR; intro n hn
  split
  · exact q_ret hR g1
  · exact q_setNodeAlert hR _ _ n _ _ hn rfl rfl

theorem q_rebootReply (g : GW) (m : Msg) (b : Bool) : R g (rebootReply g m b).1 := by
  unfold rebootReply
  split
  · apply q_withConst hR; intro sub; exact q_replyCopy hR _ _ _
  · exact q_ret hR g

theorem q_handleSet (g : GW) (m : Msg) : R g (handleSet g m).1 := by
  unfold handleSet
  apply q_ifKnown hR; intro g1
  apply q_withNode hR; intro n hn
  apply q_seq hR
  · exact q_setNodeAlert hR _ _ n _ _ hn (updateChildValue_id _ _ _ _) (updateChildValue_reboot _ _ _ _)
  · intro g3; exact q_rebootReply hR _ _ _

theorem q_handleReq (g : GW) (m : Msg) : R g (handleReq g m).1 := by
  unfold handleReq
  apply q_ifKnown hR; intro g1
  apply q_withNode hR; intro n _
  split
  · exact q_ret hR g1
  · exact q_replyCopy hR _ _ _

theorem q_handleHeartbeat (g : GW) (m : Msg) : R g (handleHeartbeat g m).1 := by
  unfold handleHeartbeat
  apply q_withNode hR; intro n hn
  exact q_setNodeAlert hR _ _ n _ _ hn rfl rfl

theorem q_handleIdRequest (g : GW) (m : Msg) : R g (handleIdRequest g m).1 := by
  unfold handleIdRequest
  split
  · exact q_ret hR g
  · rename_i id _
    apply hR.trans (hR.addSensor g id)
    apply q_withConst hR; intro sub
    exact q_replyCopy hR _ _ _

theorem q_handleInternalBy (h : HandlerId) (g : GW) (m : Msg) : R g (handleInternalBy h g m).1 := by
  unfold handleInternalBy
  split
  · exact q_handleIdRequest hR g m
  · exact q_replyCopy hR _ _ _
  · exact q_replyCopy hR _ _ _
  · apply q_ifKnown hR; intro g1; apply q_withNode hR; intro n hn; exact q_setNodeAlert hR _ _ n _ _ hn rfl rfl
  · apply q_ifKnown hR; intro g1; apply q_withNode hR; intro n hn; exact q_setNodeAlert hR _ _ n _ _ hn rfl rfl
  · apply q_ifKnown hR; intro g1; apply q_withNode hR; intro n hn; exact q_setNodeAlert hR _ _ n _ _ hn rfl rfl
  · exact hR.setCanLog g
  · exact hR.alert g m
  · apply q_seq hR
    · exact hR.alert g m
    · intro g1; apply q_withConst hR; intro sub; exact q_replyCopy hR _ _ _
  · apply q_ifKnown hR; intro g1
    apply q_seq hR
    · exact q_smartSleep hR g1 _
    · intro g2; exact q_handleHeartbeat hR g2 m
  · apply q_ifKnown hR; intro g1; exact q_ret hR g1
  · apply q_ifKnown hR; intro g1; exact q_handleHeartbeat hR g1 m
  · apply q_ifKnown hR; intro g1; exact q_smartSleep hR g1 _
  · exact q_fail hR g _

theorem q_handleInternal (g : GW) (m : Msg) : R g (handleInternal g m).1 := by
  unfold handleInternal
  split
  · exact q_ret hR g
  · split
    · exact q_ret hR g
    · exact q_handleInternalBy hR _ g m

/-- after the responder ran: callback, routing of the reply -/
theorem q_finishStream (r : StreamRes) (m : Msg) : R r.g (finishStream r m).1 := by
  unfold finishStream
  split
  · exact q_fail hR _ _
  · apply q_seq hR
    · exact hR.alert _ _
    · intro g3; split
      · exact q_ret hR g3
      · exact q_route hR _ _

theorem q_handlePresentation (g : GW) (m : Msg)
    (hP : m.child = Tables.systemChildId → R g (presentNode g m).1) : R g (handlePresentation g m).1 := by
  unfold handlePresentation
  split
  · rename_i hc; exact hP hc
  · exact q_presentChild hR g m

theorem q_dispatchBy (h : HandlerId) (g : GW) (m : Msg)
    (hP : h = .handle_presentation → m.child = Tables.systemChildId → R g (presentNode g m).1)
    (hS : h = .handle_stream → R g (handleStream g m).1) : R g (dispatchBy h g m).1 := by
  unfold dispatchBy
  split
  · split
    · exact q_handlePresentation hR g m (hP rfl)
    · exact q_handlePresentation hR g m (hP rfl)
  · exact q_handleSet hR g m
  · exact q_handleReq hR g m
  · exact q_handleInternal hR g m
  · exact hS rfl
  · exact q_fail hR g _

/-- `logic` respects `R` if the node presentation and the stream handler do on this line's message -/
theorem q_logic (g : GW) (line : Str)
    (hP : ∀ m, decode line = some m → validate g.const m = true →
      lookup m.type g.t.typeHandlers = some .handle_presentation → m.child = Tables.systemChildId →
      R g (presentNode g m).1)
    (hS : ∀ m, decode line = some m → validate g.const m = true →
      lookup m.type g.t.typeHandlers = some .handle_stream → R g (handleStream g m).1) :
    R g (logic g line).1 := by
  unfold logic
  split
  · exact q_ret hR g
  · split
    · rename_i m hd hv
      unfold dispatch
      split
      · exact q_fail hR g _
      · rename_i h hl
        exact q_dispatchBy hR h g m (fun e hc => hP m hd hv (by rw [hl, e]) hc)
          (fun e => hS m hd hv (by rw [hl, e]))
    · exact q_ret hR g

theorem q_storeDesired (g : GW) (node child : Int) (n : Node) (vt : Option Int) (value : Str)
    (hn : aget node g.sensors = some n) : R g (storeDesired g node child n vt value).1 := by
  unfold storeDesired
  split
  · exact q_fail hR g _
  · split
    · exact q_fail hR g _
    · exact q_fail hR g _
    · exact hR.setNode g node n _ hn rfl rfl

theorem q_setChildValue (g : GW) (node child : Int) (vt : VT) (value : Str) (ack : Option Int) :
    R g (setChildValue g node child vt value ack).1 := by
  unfold setChildValue
  apply q_ifKnown hR; intro g1
  apply q_withNode hR; intro n hn
  unfold setKnown
  split
  · exact q_fail hR g1 _
  · split
    · exact q_storeDesired hR g1 node child n _ value hn
    · exact q_emit hR g1 _

end generic

/-! ### table facts: which message type reaches which handler -/

theorem type_of_handler (c : ConstId) (t : Int) (h : HandlerId)
    (hl : lookup t (Tables.tables c).typeHandlers = some h) :
    (h = .handle_presentation → t = (Tables.tables c).mtPresentation) ∧
    (h = .handle_set → t = (Tables.tables c).mtSet) ∧
    (h = .handle_stream → t = (Tables.tables c).mtStream) := by
  have hm := mem_lookup_handler t h _ hl
  cases c <;>
    simp [Tables.tables, Tables.v14_typeHandlers, Tables.v15_typeHandlers, Tables.v20_typeHandlers,
      Tables.v21_typeHandlers, Tables.v22_typeHandlers] at hm <;>
    rcases hm with ⟨rfl, rfl⟩ | ⟨rfl, rfl⟩ | ⟨rfl, rfl⟩ | ⟨rfl, rfl⟩ | ⟨rfl, rfl⟩ <;>
    refine ⟨?_, ?_, ?_⟩ <;> intro e <;> first | rfl | cases e
where
  mem_lookup_handler (t : Int) (h : HandlerId) (l : List (Int × HandlerId)) (hl : lookup t l = some h) : (t, h) ∈ l := by
    induction l with
    | nil => simp [lookup] at hl
    | cons p l ih =>
      obtain ⟨k', v'⟩ := p
      by_cases h1 : t = k'
      · subst h1; simp [lookup] at hl; subst hl; simp
      · simp only [lookup, h1, ↓reduceIte] at hl
        exact List.mem_cons_of_mem _ (ih hl)

theorem handler_of_type (c : ConstId) :
    lookup (Tables.tables c).mtPresentation (Tables.tables c).typeHandlers = some .handle_presentation ∧
    lookup (Tables.tables c).mtSet (Tables.tables c).typeHandlers = some .handle_set ∧
    lookup (Tables.tables c).mtStream (Tables.tables c).typeHandlers = some .handle_stream ∧
    (Tables.tables c).mtStream ≠ (Tables.tables c).mtPresentation ∧
    (Tables.tables c).mtInternal ≠ (Tables.tables c).mtPresentation ∧
    (Tables.tables c).mtInternal ≠ (Tables.tables c).mtStream := by
  cases c <;> decide

end MySensors.C10
