/-
  Generic per-handler induction for the gateway model.

  The handlers are written with the combinators `ret / emit / fail / seq / ifKnown / withNode /
  withConst / route / replyCopy / alert`.  For any relation `R` between the state before and
  after a step that is reflexive, transitive and respected by the primitive mutations
  (`StepRel R`), every handler, `logic`, `setChildValue` and `makeUpdate` respect `R`.
  Each history invariant (C06, C14, …) instantiates this once.
-/
import MySensors.Lemmas.AList

namespace MySensors

/-- node ids of the tree lie in 0..255 (they come from validated frames or the id allocator) -/
def KeyRange (g : GW) : Prop := ∀ k ∈ akeys g.sensors, 0 ≤ k ∧ k ≤ 255

structure StepRel (R : GW → GW → Prop) : Prop where
  refl : ∀ g, R g g
  trans : ∀ {a b c}, R a b → R b c → R a c
  /-- in-place change of transient fields (queue, desired, reboot) of a known node -/
  setNodeQuiet : ∀ g k n n', aget k g.sensors = some n → n'.persisted = n.persisted → R g (setNode g k n')
  /-- any in-place change of a known node (keeping its id) followed by `alert` -/
  setNodeAlert : ∀ g k n n' m, aget k g.sensors = some n → n'.id = n.id → R g (alert (setNode g k n') m).1
  alert : ∀ g m, R g (alert g m).1
  addSensor : ∀ g id, 0 ≤ id → id ≤ 255 → R g (addSensor g id)
  setOta : ∀ g o, R g { g with ota := o }
  setCanLog : ∀ g, R g { g with canLog := true }

/-! ### facts about the allocator and validated headers used by the generic induction -/

theorem foldl_max_ge (ks : List Int) (k : Int) : k ≤ ks.foldl max k ∧ ∀ x ∈ ks, x ≤ ks.foldl max k := by
  induction ks generalizing k with
  | nil => simp
  | cons y ys ih =>
    simp only [List.foldl_cons, List.mem_cons, forall_eq_or_imp]
    have h := ih (max k y)
    refine ⟨Int.le_trans (Int.le_max_left k y) h.1, Int.le_trans (Int.le_max_right k y) h.1, h.2⟩

theorem nextId_spec (g : GW) (id : Int) (hk : KeyRange g) (h : nextId g = some id) :
    1 ≤ id ∧ id ≤ g.t.maxNodeId ∧ id ∉ akeys g.sensors := by
  unfold nextId at h
  by_cases hle : nextCandidate g ≤ g.t.maxNodeId
  · simp [hle] at h
    subst h
    unfold nextCandidate at hle ⊢
    cases hks : akeys g.sensors with
    | nil => simp [hks] at hle ⊢; exact hle
    | cons k ks =>
      simp only [hks] at hle ⊢
      have hm := foldl_max_ge ks k
      have hk0 : 0 ≤ k := (hk k (by rw [hks]; simp)).1
      refine ⟨by omega, hle, ?_⟩
      intro hmem
      simp only [List.mem_cons] at hmem
      rcases hmem with e | hmem
      · omega
      · have := hm.2 _ hmem; omega
  · simp [hle] at h

theorem maxNodeId_le (c : ConstId) : (Tables.tables c).maxNodeId ≤ 254 := by
  cases c <;> decide

theorem validate_node_range (c : ConstId) (m : Msg) (h : validate c m = true) : 0 ≤ m.node ∧ m.node ≤ 255 := by
  simp only [validate, headerOk, Bool.and_eq_true, decide_eq_true_eq] at h
  have := h.1.1.1.1.1
  simpa [Tables.broadcastId] using this

theorem clearDesired_id (n : Node) (c vt : Int) : (clearDesired n c vt).id = n.id := by
  unfold clearDesired; split <;> rfl

theorem updateChildValue_id (n : Node) (c vt : Int) (v : Str) : (updateChildValue n c vt v).id = n.id := by
  unfold updateChildValue; split
  · rfl
  · rw [clearDesired_id]

section generic
variable {R : GW → GW → Prop} (hR : StepRel R)
include hR

theorem rel_ret (g : GW) : R g (ret g).1 := hR.refl g
theorem rel_emit (g : GW) (l : List Str) : R g (emit g l).1 := hR.refl g
theorem rel_fail (g : GW) (e : Exc) : R g (fail g e).1 := hR.refl g

theorem rel_seq (g : GW) (r : Res) (f : GW → Res) (h1 : R g r.1) (h2 : ∀ g1, R g1 (f g1).1) :
    R g (seq r f).1 := by
  unfold seq
  split
  · exact h1
  · exact hR.trans h1 (h2 r.1)

theorem rel_enqueue (g : GW) (node : Int) (line : Str) : R g (enqueue g node line) := by
  unfold enqueue
  split
  · exact hR.refl g
  · rename_i n hn
    exact hR.setNodeQuiet g node n _ hn rfl

theorem rel_route (g : GW) (m : Msg) : R g (route g m).1 := by
  unfold route
  split
  · exact rel_ret hR g
  · split
    · exact rel_enqueue hR g _ _
    · exact rel_emit hR g _

theorem rel_requestPresentation (g : GW) (node : Int) : R g (requestPresentation g node).1 := by
  unfold requestPresentation
  split
  · split
    · exact rel_ret hR g
    · exact rel_route hR g _
  · exact rel_ret hR g

theorem rel_ifKnown (g : GW) (node : Int) (child : Option Int) (f : GW → Res)
    (h : ∀ g1, R g1 (f g1).1) : R g (ifKnown g node child f).1 := by
  unfold ifKnown
  split
  · exact h g
  · exact rel_requestPresentation hR g node

theorem rel_withNode (g : GW) (node : Int) (f : Node → Res)
    (h : ∀ n, aget node g.sensors = some n → R g (f n).1) : R g (withNode g node f).1 := by
  unfold withNode
  split
  · exact rel_fail hR g _
  · rename_i n hn; exact h n hn

theorem rel_withConst (g : GW) (o : Option Int) (f : Int → Res) (h : ∀ a, R g (f a).1) :
    R g (withConst g o f).1 := by
  unfold withConst
  split
  · exact rel_fail hR g _
  · exact h _

theorem rel_replyCopy (g : GW) (m : Msg) (kw : Kw) : R g (replyCopy g m kw).1 := by
  unfold replyCopy
  split
  · exact rel_fail hR g _
  · exact rel_route hR g _

theorem rel_smartSleep (g : GW) (node : Int) : R g (smartSleep g node).1 := by
  unfold smartSleep
  apply rel_withNode hR
  intro n hn
  exact hR.setNodeQuiet g node n _ hn rfl

theorem rel_handlePresentation (g : GW) (m : Msg) (hv : 0 ≤ m.node ∧ m.node ≤ 255) :
    R g (handlePresentation g m).1 := by
  unfold handlePresentation
  split
  · unfold presentNode
    apply hR.trans (hR.addSensor g m.node hv.1 hv.2)
    apply rel_withNode hR
    intro n hn
    exact hR.setNodeAlert _ _ n _ _ hn rfl
  · unfold presentChild
    apply rel_ifKnown hR; intro g1
    apply rel_withNode hR; intro n hn
    split
    · exact rel_ret hR g1
    · exact hR.setNodeAlert _ _ n _ _ hn rfl

theorem rel_rebootReply (g : GW) (m : Msg) (b : Bool) : R g (rebootReply g m b).1 := by
  unfold rebootReply
  split
  · apply rel_withConst hR; intro sub; exact rel_replyCopy hR _ _ _
  · exact rel_ret hR g

theorem rel_handleSet (g : GW) (m : Msg) : R g (handleSet g m).1 := by
  unfold handleSet
  apply rel_ifKnown hR; intro g1
  apply rel_withNode hR; intro n hn
  apply rel_seq hR
  · exact hR.setNodeAlert _ _ n _ _ hn (updateChildValue_id _ _ _ _)
  · intro g3; exact rel_rebootReply hR _ _ _

theorem rel_handleReq (g : GW) (m : Msg) : R g (handleReq g m).1 := by
  unfold handleReq
  apply rel_ifKnown hR; intro g1
  apply rel_withNode hR; intro n _
  split
  · exact rel_ret hR g1
  · exact rel_replyCopy hR _ _ _

theorem rel_handleHeartbeat (g : GW) (m : Msg) : R g (handleHeartbeat g m).1 := by
  unfold handleHeartbeat
  apply rel_withNode hR; intro n hn
  exact hR.setNodeAlert _ _ n _ _ hn rfl

theorem rel_handleIdRequest (g : GW) (m : Msg) (hk : KeyRange g) : R g (handleIdRequest g m).1 := by
  unfold handleIdRequest
  split
  · exact rel_ret hR g
  · rename_i id hid
    have hs := nextId_spec g id hk hid
    have hle := maxNodeId_le g.const
    have : id ≤ 254 := Int.le_trans hs.2.1 hle
    apply hR.trans (hR.addSensor g id (by omega) (by omega))
    apply rel_withConst hR; intro sub
    exact rel_replyCopy hR _ _ _

theorem rel_handleInternalBy (h : HandlerId) (g : GW) (m : Msg) (hk : KeyRange g) :
    R g (handleInternalBy h g m).1 := by
  unfold handleInternalBy
  split
  · exact rel_handleIdRequest hR g m hk
  · exact rel_replyCopy hR _ _ _
  · exact rel_replyCopy hR _ _ _
  · apply rel_ifKnown hR; intro g1; apply rel_withNode hR; intro n hn; exact hR.setNodeAlert _ _ n _ _ hn rfl
  · apply rel_ifKnown hR; intro g1; apply rel_withNode hR; intro n hn; exact hR.setNodeAlert _ _ n _ _ hn rfl
  · apply rel_ifKnown hR; intro g1; apply rel_withNode hR; intro n hn; exact hR.setNodeAlert _ _ n _ _ hn rfl
  · exact hR.setCanLog g
  · exact hR.alert g m
  · apply rel_seq hR
    · exact hR.alert g m
    · intro g1; apply rel_withConst hR; intro sub; exact rel_replyCopy hR _ _ _
  · apply rel_ifKnown hR; intro g1
    apply rel_seq hR
    · exact rel_smartSleep hR g1 _
    · intro g2; exact rel_handleHeartbeat hR g2 m
  · apply rel_ifKnown hR; intro g1; exact rel_ret hR g1
  · apply rel_ifKnown hR; intro g1; exact rel_handleHeartbeat hR g1 m
  · apply rel_ifKnown hR; intro g1; exact rel_smartSleep hR g1 _
  · exact rel_fail hR g _

omit hR in
theorem configReply_g (g : GW) (m : Msg) (fid : Int × Int) (fw : Fw) (sub : Int) :
    (configReply g m fid fw sub).g = g := by
  unfold configReply; split
  · rfl
  · split <;> rfl

omit hR in
theorem blockReply_g (g : GW) (m : Msg) (rt rv blk : Nat) (fw : Fw) (sub : Int) :
    (blockReply g m rt rv blk fw sub).g = g := by
  unfold blockReply; split
  · rfl
  · split <;> rfl

theorem rel_config (g : GW) (m : Msg) : R g (otaConfigResponse g m).g := by
  unfold otaConfigResponse
  split
  · exact hR.refl g
  · split
    · exact hR.refl g
    · split
      · rw [configReply_g]; exact hR.setOta g _
      · exact hR.setOta g _

theorem rel_block (g : GW) (m : Msg) : R g (otaBlockResponse g m).g := by
  unfold otaBlockResponse
  split
  · split
    · exact hR.refl g
    · split
      · rw [blockReply_g]; exact hR.setOta g _
      · exact hR.setOta g _
  · exact hR.refl g

theorem rel_streamResBy (h : HandlerId) (g : GW) (m : Msg) : R g (streamResBy h g m).g := by
  unfold streamResBy
  split
  · exact rel_config hR g m
  · exact rel_block hR g m
  · exact hR.refl g

theorem rel_finishStream (g : GW) (r : StreamRes) (m : Msg) (h : R g r.g) : R g (finishStream r m).1 := by
  unfold finishStream
  split
  · exact h
  · apply hR.trans h
    apply rel_seq hR
    · exact hR.alert _ _
    · intro g3; split
      · exact rel_ret hR g3
      · exact rel_route hR _ _

theorem rel_handleStream (g : GW) (m : Msg) : R g (handleStream g m).1 := by
  unfold handleStream
  apply rel_ifKnown hR; intro g1
  split
  · exact rel_ret hR g1
  · exact rel_finishStream hR g1 _ m (rel_streamResBy hR _ g1 m)

theorem rel_handleInternal (g : GW) (m : Msg) (hk : KeyRange g) : R g (handleInternal g m).1 := by
  unfold handleInternal
  split
  · exact rel_ret hR g
  · split
    · exact rel_ret hR g
    · exact rel_handleInternalBy hR _ g m hk

theorem rel_dispatchBy (h : HandlerId) (g : GW) (m : Msg) (hk : KeyRange g)
    (hv : 0 ≤ m.node ∧ m.node ≤ 255) : R g (dispatchBy h g m).1 := by
  unfold dispatchBy
  split
  · split
    · exact rel_handlePresentation hR g m hv
    · exact rel_handlePresentation hR g m hv
  · exact rel_handleSet hR g m
  · exact rel_handleReq hR g m
  · exact rel_handleInternal hR g m hk
  · exact rel_handleStream hR g m
  · exact rel_fail hR g _

theorem rel_logic (g : GW) (line : Str) (hk : KeyRange g) : R g (logic g line).1 := by
  unfold logic
  split
  · exact rel_ret hR g
  · split
    · rename_i m _ hv
      unfold dispatch
      split
      · exact rel_fail hR g _
      · exact rel_dispatchBy hR _ g _ hk (validate_node_range _ _ hv)
    · exact rel_ret hR g

theorem rel_storeDesired (g : GW) (node child : Int) (n : Node) (vt : Option Int) (value : Str)
    (hn : aget node g.sensors = some n) : R g (storeDesired g node child n vt value).1 := by
  unfold storeDesired
  split
  · exact rel_fail hR g _
  · split
    · exact rel_fail hR g _
    · exact rel_fail hR g _
    · exact hR.setNodeQuiet g node n _ hn rfl

theorem rel_setChildValue (g : GW) (node child : Int) (vt : VT) (value : Str) (ack : Option Int) :
    R g (setChildValue g node child vt value ack).1 := by
  unfold setChildValue
  apply rel_ifKnown hR; intro g1
  apply rel_withNode hR; intro n hn
  unfold setKnown
  split
  · exact rel_fail hR g1 _
  · split
    · exact rel_storeDesired hR g1 node child n _ value hn
    · exact rel_emit hR g1 _

theorem rel_scheduleNode (fwt fwv : Int) (g : GW) (nid : Int) : R g (scheduleNode fwt fwv g nid) := by
  unfold scheduleNode
  split
  · exact hR.refl g
  · rename_i n hn
    exact hR.trans (hR.setOta g _) (hR.setNodeQuiet { g with ota := _ } nid n _ hn rfl)

theorem rel_foldl_scheduleNode (fwt fwv : Int) (nids : List Int) (g : GW) :
    R g (nids.foldl (scheduleNode fwt fwv) g) := by
  induction nids generalizing g with
  | nil => exact hR.refl g
  | cons x xs ih => exact hR.trans (rel_scheduleNode hR fwt fwv g x) (ih _)

theorem rel_makeUpdate (g : GW) (nids : List Int) (fwt fwv : Int) (image : Option (List Nat)) :
    R g (makeUpdate g nids fwt fwv image) := by
  unfold makeUpdate
  split
  · exact hR.refl g
  · split
    · split
      · exact hR.refl g
      · exact hR.trans (hR.setOta g _) (rel_foldl_scheduleNode hR _ _ _ _)
    · split
      · exact hR.refl g
      · exact rel_foldl_scheduleNode hR _ _ _ _

omit hR in
theorem transportFilter_fst (g0 : GW) (r : Res) : (transportFilter g0 r).1 = r.1 := by
  unfold transportFilter; split <;> rfl

end generic

end MySensors
