/-
  Generic per-handler induction for the gateway model, output-aware ("Hoare style").

  `R g r` relates the state before a computation to its result `r : Res` (state after and the
  outputs).  `StepRelO R` asks for closure under `ret`, `fail`, sequential composition and one
  lemma per *concrete primitive mutation* of the model; then every handler, `logic`,
  `setChildValue`, `makeUpdate` and `step` satisfy `R`.  Used by C05, C07, C08.
-/
import MySensors.Lemmas.GwRel

namespace MySensors

/-- the handlers that run the smart-sleep flush -/
def isWakeHandler (h : HandlerId) : Bool :=
  h = .handle_heartbeat_response || h = .handle_pre_sleep_notification

/-- `wk`: the node whose wake-up announcement is being processed, if any -/
structure StepRelO (wk : Option Int) (R : GW → Res → Prop) : Prop where
  ret : ∀ g, R g (ret g)
  fail : ∀ g e, R g (fail g e)
  comp : ∀ {a b c : GW} {o1 o2 : Out}, R a (b, o1) → R b (c, o2) → R a (c, o1 ++ o2)
  alert : ∀ g m, R g (alert g m)
  route : ∀ g m, R g (route g m)
  addSensor : ∀ g id, 0 ≤ id → id ≤ 255 → R g (MySensors.ret (addSensor g id))
  /-- node presentation: type, version, reboot flag -/
  presentNode : ∀ g n m, aget m.node g.sensors = some n →
    R g (MySensors.alert (setNode g m.node { n with type := some m.sub, version := (safeVersion m.payload).getD defaultVersion, reboot := false }) m)
  /-- first presentation of a child -/
  addChild : ∀ g n m, aget m.node g.sensors = some n → aget m.child n.children = none →
    R g (MySensors.alert (setNode g m.node { n with children := n.children ++ [(m.child, ⟨m.child, m.sub, m.payload, []⟩)] }) m)
  /-- a reported value (clears the pending desired value of that type) -/
  updateValue : ∀ g n m, aget m.node g.sensors = some n → (aget m.child n.children).isSome →
    R g (MySensors.alert (setNode g m.node (updateChildValue n m.child m.sub m.payload)) m)
  /-- battery level, sketch name / version, heartbeat -/
  attr : ∀ g k n n' m, aget k g.sensors = some n → n'.id = n.id → n'.children = n.children →
    n'.desired = n.desired → n'.queue = n.queue → n'.reboot = n.reboot → n'.version = n.version →
    R g (MySensors.alert (setNode g k n') m)
  smartSleep : ∀ g node, wk = some node → isKnown g node none = true → R g (smartSleep g node)
  setReboot : ∀ g k n, aget k g.sensors = some n → R g (MySensors.ret (setNode g k { n with reboot := true }))
  /-- OTA session stores change, the firmware table does not -/
  setStores : ∀ g o, o.firmware = g.ota.firmware → R g (MySensors.ret { g with ota := o })
  /-- `make_update` stores a prepared image under a 16-bit type/version -/
  storeFw : ∀ g fwt fwv img, 0 ≤ fwt ∧ fwt ≤ 0xFFFF ∧ 0 ≤ fwv ∧ fwv ≤ 0xFFFF → (prepareFw img).blocks ≤ 0xFFFF →
    (∀ b ∈ img, b < 256) → R g (MySensors.ret { g with ota := { g.ota with firmware := storeFirmware g.ota.firmware (fwt, fwv) (prepareFw img) } })
  setCanLog : ∀ g, R g (MySensors.ret { g with canLog := true })

theorem pickConfig_firmware (o : OtaState) (node : Int) (fid : Int × Int) (o' : OtaState)
    (h : pickConfig o node = some (fid, o')) : o'.firmware = o.firmware := by
  unfold pickConfig at h
  split at h
  · cases h; rfl
  · split at h
    · cases h; rfl
    · cases h

theorem pickBlock_firmware (o : OtaState) (node : Int) (o' : OtaState)
    (h : pickBlock o node = some o') : o'.firmware = o.firmware := by
  unfold pickBlock at h
  split at h
  · cases h; rfl
  · split at h
    · cases h; rfl
    · cases h

/-- well-formed controller ops: firmware images are byte strings -/
def Op.wf : Op → Prop
  | .update _ _ _ (some img) => ∀ b ∈ img, b < 256
  | _ => True

theorem isKnown_none_iff (g : GW) (node : Int) : isKnown g node none = true ↔ (aget node g.sensors).isSome := by
  unfold isKnown; cases aget node g.sensors <;> simp

/-- table fact: `handle_internal` is registered for the internal message type only -/
theorem internal_type (c : ConstId) (t : Int)
    (h : lookup t (Tables.tables c).typeHandlers = some .handle_internal) : t = (Tables.tables c).mtInternal := by
  cases c <;> simp [Tables.tables, lookup] at h ⊢ <;> revert h <;> simp [Tables.v14_typeHandlers, Tables.v15_typeHandlers,
    Tables.v20_typeHandlers, Tables.v21_typeHandlers, Tables.v22_typeHandlers, lookup,
    Tables.v14_mt_internal, Tables.v15_mt_internal, Tables.v20_mt_internal, Tables.v21_mt_internal,
    Tables.v22_mt_internal] <;> (repeat' split) <;> simp_all

section generic
variable {wk : Option Int} {R : GW → Res → Prop} (hR : StepRelO wk R)
include hR

theorem relo_seq (g : GW) (r : Res) (f : GW → Res) (h1 : R g r) (h2 : R r.1 (f r.1)) : R g (seq r f) := by
  unfold seq
  split
  · exact h1
  · exact hR.comp (o1 := r.2) h1 h2

/-- a pure state change followed by a computation -/
theorem relo_then (g g1 : GW) (r : Res) (h1 : R g (MySensors.ret g1)) (h2 : R g1 r) : R g r := by
  have := hR.comp (o1 := {}) (o2 := r.2) h1 h2
  have e : (({} : Out) ++ r.2) = r.2 := by
    show Out.append {} r.2 = r.2
    simp [Out.append]
  rw [e] at this
  exact this

theorem relo_requestPresentation (g : GW) (node : Int) : R g (requestPresentation g node) := by
  unfold requestPresentation
  split
  · split
    · exact hR.ret g
    · exact hR.route g _
  · exact hR.ret g

theorem relo_ifKnown (g : GW) (node : Int) (child : Option Int) (f : GW → Res)
    (h : isKnown g node child = true → R g (f g)) : R g (ifKnown g node child f) := by
  unfold ifKnown
  split
  · rename_i hk; exact h hk
  · exact relo_requestPresentation hR g node

theorem relo_withNode (g : GW) (node : Int) (f : Node → Res)
    (h : ∀ n, aget node g.sensors = some n → R g (f n)) : R g (withNode g node f) := by
  unfold withNode
  split
  · exact hR.fail g _
  · rename_i n hn; exact h n hn

theorem relo_withConst (g : GW) (o : Option Int) (f : Int → Res) (h : ∀ a, R g (f a)) :
    R g (withConst g o f) := by
  unfold withConst
  split
  · exact hR.fail g _
  · exact h _

theorem relo_replyCopy (g : GW) (m : Msg) (kw : Kw) : R g (replyCopy g m kw) := by
  unfold replyCopy
  split
  · exact hR.fail g _
  · exact hR.route g _

theorem relo_handlePresentation (g : GW) (m : Msg) (hv : 0 ≤ m.node ∧ m.node ≤ 255) :
    R g (handlePresentation g m) := by
  unfold handlePresentation
  split
  · unfold presentNode
    apply relo_then hR g (addSensor g m.node) _ (hR.addSensor g m.node hv.1 hv.2)
    apply relo_withNode hR
    intro n hn
    exact hR.presentNode _ n _ hn
  · unfold presentChild
    apply relo_ifKnown hR; intro _
    apply relo_withNode hR; intro n hn
    split
    · exact hR.ret g
    · rename_i hc; exact hR.addChild _ n _ hn hc

theorem relo_rebootReply (g : GW) (m : Msg) (b : Bool) : R g (rebootReply g m b) := by
  unfold rebootReply
  split
  · apply relo_withConst hR; intro sub; exact relo_replyCopy hR _ _ _
  · exact hR.ret g

theorem relo_handleSet (g : GW) (m : Msg) : R g (handleSet g m) := by
  unfold handleSet
  apply relo_ifKnown hR; intro hkn
  apply relo_withNode hR; intro n hn
  apply relo_seq hR
  · exact hR.updateValue _ n _ hn (by simpa [isKnown, hn] using hkn)
  · exact relo_rebootReply hR _ _ _

theorem relo_handleReq (g : GW) (m : Msg) : R g (handleReq g m) := by
  unfold handleReq
  apply relo_ifKnown hR; intro _
  apply relo_withNode hR; intro n _
  split
  · exact hR.ret g
  · exact relo_replyCopy hR _ _ _

theorem relo_handleHeartbeat (g : GW) (m : Msg) : R g (handleHeartbeat g m) := by
  unfold handleHeartbeat
  apply relo_withNode hR; intro n hn
  exact hR.attr _ _ n _ _ hn rfl rfl rfl rfl rfl rfl

theorem relo_handleIdRequest (g : GW) (m : Msg) (hk : KeyRange g) : R g (handleIdRequest g m) := by
  unfold handleIdRequest
  split
  · exact hR.ret g
  · rename_i id hid
    have hs := nextId_spec g id hk hid
    have hle := maxNodeId_le g.const
    have : id ≤ 254 := Int.le_trans hs.2.1 hle
    apply relo_then hR g (addSensor g id) _ (hR.addSensor g id (by omega) (by omega))
    apply relo_withConst hR; intro sub
    exact relo_replyCopy hR _ _ _

theorem relo_handleInternalBy (h : HandlerId) (g : GW) (m : Msg) (hk : KeyRange g)
    (hw : isWakeHandler h = true → wk = some m.node) : R g (handleInternalBy h g m) := by
  unfold handleInternalBy
  split
  · exact relo_handleIdRequest hR g m hk
  · exact relo_replyCopy hR _ _ _
  · exact relo_replyCopy hR _ _ _
  · apply relo_ifKnown hR; intro _; apply relo_withNode hR; intro n hn
    exact hR.attr _ _ n _ _ hn rfl rfl rfl rfl rfl rfl
  · apply relo_ifKnown hR; intro _; apply relo_withNode hR; intro n hn
    exact hR.attr _ _ n _ _ hn rfl rfl rfl rfl rfl rfl
  · apply relo_ifKnown hR; intro _; apply relo_withNode hR; intro n hn
    exact hR.attr _ _ n _ _ hn rfl rfl rfl rfl rfl rfl
  · exact hR.setCanLog g
  · exact hR.alert g m
  · apply relo_seq hR
    · exact hR.alert g m
    · apply relo_withConst hR; intro sub; exact relo_replyCopy hR _ _ _
  · apply relo_ifKnown hR; intro hkn
    apply relo_seq hR
    · exact hR.smartSleep g _ (hw (by decide)) hkn
    · exact relo_handleHeartbeat hR _ m
  · apply relo_ifKnown hR; intro _; exact hR.ret g
  · apply relo_ifKnown hR; intro _; exact relo_handleHeartbeat hR g m
  · apply relo_ifKnown hR; intro hkn; exact hR.smartSleep g _ (hw (by decide)) hkn
  · exact hR.fail g _

theorem relo_streamRes (h : HandlerId) (g : GW) (m : Msg) : R g (MySensors.ret (streamResBy h g m).g) := by
  unfold streamResBy
  split
  · unfold otaConfigResponse
    split
    · exact hR.ret g
    · split
      · exact hR.ret g
      · rename_i fid o' hp
        split
        · rw [configReply_g]; exact hR.setStores g _ (pickConfig_firmware _ _ _ _ hp)
        · exact hR.setStores g _ (pickConfig_firmware _ _ _ _ hp)
  · unfold otaBlockResponse
    split
    · split
      · exact hR.ret g
      · rename_i o' hp
        split
        · rw [blockReply_g]; exact hR.setStores g _ (pickBlock_firmware _ _ _ hp)
        · exact hR.setStores g _ (pickBlock_firmware _ _ _ hp)
    · exact hR.ret g
  · exact hR.ret g

theorem relo_finishStream (r : StreamRes) (m : Msg) : R r.g (finishStream r m) := by
  unfold finishStream
  split
  · exact hR.fail _ _
  · apply relo_seq hR
    · exact hR.alert _ _
    · split
      · exact hR.ret _
      · exact hR.route _ _

theorem relo_handleStream (g : GW) (m : Msg) : R g (handleStream g m) := by
  unfold handleStream
  apply relo_ifKnown hR; intro _
  split
  · exact hR.ret g
  · exact relo_then hR g _ _ (relo_streamRes hR _ g m) (relo_finishStream hR _ m)

/-- is this (validated) message a wake-up announcement for this gateway? -/
def wakeLine (g : GW) (m : Msg) : Bool :=
  m.type = g.t.mtInternal &&
    match lookup m.sub g.t.internalHandlers with
    | some h => isWakeHandler h
    | none => false

theorem relo_handleInternal (g : GW) (m : Msg) (hk : KeyRange g) (ht : m.type = g.t.mtInternal)
    (hw : wakeLine g m = true → wk = some m.node) : R g (handleInternal g m) := by
  unfold handleInternal
  split
  · exact hR.ret g
  · split
    · exact hR.ret g
    · rename_i h hh
      exact relo_handleInternalBy hR _ g m hk (fun hwh => hw (by simp [wakeLine, ht, hh, hwh]))

/-- extra MQTT subscriptions do not matter to relations that ignore `subs` -/
def IgnoresSubs (R : GW → Res → Prop) : Prop :=
  ∀ g r s, R g r → R g (r.1, r.2 ++ { subs := s })

theorem relo_dispatchBy (hsubs : IgnoresSubs R) (h : HandlerId) (g : GW) (m : Msg) (hk : KeyRange g)
    (hv : 0 ≤ m.node ∧ m.node ≤ 255) (hh : lookup m.type g.t.typeHandlers = some h)
    (hw : wakeLine g m = true → wk = some m.node) : R g (dispatchBy h g m) := by
  unfold dispatchBy
  split
  · split
    · exact hsubs g _ _ (relo_handlePresentation hR g m hv)
    · exact relo_handlePresentation hR g m hv
  · exact relo_handleSet hR g m
  · exact relo_handleReq hR g m
  · exact relo_handleInternal hR g m hk (internal_type g.const m.type hh) hw
  · exact relo_handleStream hR g m
  · exact hR.fail g _

theorem relo_logic (hsubs : IgnoresSubs R) (g : GW) (line : Str) (hk : KeyRange g)
    (hw : ∀ m, decode line = some m → validate g.const m = true → wakeLine g m = true → wk = some m.node) :
    R g (logic g line) := by
  unfold logic
  split
  · exact hR.ret g
  · split
    · rename_i m _ hv
      unfold dispatch
      split
      · exact hR.fail g _
      · rename_i h hh
        exact relo_dispatchBy hR hsubs _ g _ hk (validate_node_range _ _ hv) hh (hw m (by assumption) hv)
    · exact hR.ret g

/-- `set_child_value`: the two controller-only primitives are hypotheses here, so that relations
    used for inbound lines need not account for them -/
theorem relo_setChildValue (g : GW) (node child : Int) (vt : VT) (value : Str) (ack : Option Int)
    (hstore : ∀ n msg, aget node g.sensors = some n → n.sleeping = true →
      createSetMessage g node child vt.toInt value (ack.getD 0) = .ok msg →
      R g (storeDesired g node child n vt.toInt value))
    (hdirect : ∀ n msg, aget node g.sensors = some n → n.sleeping = false →
      createSetMessage g node child vt.toInt value (ack.getD 0) = .ok msg → R g (emit g [encLine msg])) :
    R g (setChildValue g node child vt value ack) := by
  unfold setChildValue
  apply relo_ifKnown hR; intro _
  apply relo_withNode hR; intro n hn
  unfold setKnown
  split
  · exact hR.fail g _
  · rename_i msg hmsg
    split
    · rename_i hs; exact hstore n msg hn hs hmsg
    · rename_i hs; exact hdirect n msg hn (by simpa using hs) hmsg

theorem relo_scheduleNode (fwt fwv : Int) (g : GW) (nid : Int) :
    R g (MySensors.ret (scheduleNode fwt fwv g nid)) := by
  unfold scheduleNode
  split
  · exact hR.ret g
  · rename_i n hn
    exact relo_then hR g _ _
      (hR.setStores g { g.ota with unstarted := aerase nid g.ota.unstarted, started := aerase nid g.ota.started, requested := aset nid (fwt, fwv) g.ota.requested } rfl)
      (hR.setReboot _ nid n hn)

theorem relo_foldl_scheduleNode (fwt fwv : Int) (nids : List Int) (g : GW) :
    R g (MySensors.ret (nids.foldl (scheduleNode fwt fwv) g)) := by
  induction nids generalizing g with
  | nil => exact hR.ret g
  | cons x xs ih => exact relo_then hR g _ _ (relo_scheduleNode hR fwt fwv g x) (ih _)

theorem relo_makeUpdate (g : GW) (nids : List Int) (fwt fwv : Int) (image : Option (List Nat))
    (hbytes : ∀ img, image = some img → ∀ b ∈ img, b < 256) :
    R g (MySensors.ret (makeUpdate g nids fwt fwv image)) := by
  unfold makeUpdate
  split
  · exact hR.ret g
  · rename_i hrange
    split
    · split
      · exact hR.ret g
      · rename_i hb
        exact relo_then hR g _ _ (hR.storeFw g fwt fwv _ (by simpa using hrange) (by omega) (hbytes _ rfl))
          (relo_foldl_scheduleNode hR _ _ _ _)
    · split
      · exact hR.ret g
      · exact relo_foldl_scheduleNode hR _ _ _ _

end generic

end MySensors
