/- Smart-sleep relation: withheld traffic, sleeping flags, destinations of sent lines (C07, C08). -/
import MySensors.Lemmas.GwRelO

namespace MySensors

/-- the node has announced smart sleep while having children (`is_smart_sleep_node`) -/
def sleepingNode (g : GW) (k : Int) : Bool :=
  match aget k g.sensors with
  | some n => n.sleeping
  | none => false

/-- every stored node sits under its own id, and every withheld line of node `k` encodes a
    message addressed to `k` -/
def NodeInv (g : GW) : Prop :=
  ∀ k n, aget k g.sensors = some n → n.id = k ∧ ∀ l ∈ n.queue, ∃ r : Msg, l = encLine r ∧ r.node = k

/-- who may be written to during a step that started in state `g` -/
def Allowed (wk : Option Int) (g : GW) (x : Msg) : Prop :=
  x.type = g.t.mtStream ∨ sleepingNode g x.node = false ∨ wk = some x.node

structure Hold (wk : Option Int) (g : GW) (r : Res) : Prop where
  const : r.1.const = g.const
  inv : NodeInv g → NodeInv r.1
  mono : ∀ k, sleepingNode g k = true → sleepingNode r.1 k = true
  sent : NodeInv g → ∀ l ∈ r.2.sent, ∃ x : Msg, l = encLine x ∧ Allowed wk g x

theorem hold_id (wk : Option Int) (g : GW) (o : Out) (h : o.sent = []) : Hold wk g (g, o) :=
  ⟨rfl, id, fun _ h => h, fun _ l hl => by rw [h] at hl; cases hl⟩

theorem t_const {g g' : GW} (h : g'.const = g.const) : g'.t = g.t := by unfold GW.t; rw [h]

theorem sleepingNode_setNode (g : GW) (k : Int) (n n' : Node) (hn : aget k g.sensors = some n)
    (hs : n.sleeping = true → n'.sleeping = true) :
    ∀ j, sleepingNode g j = true → sleepingNode (setNode g k n') j = true := by
  intro j hj
  unfold sleepingNode setNode at *
  by_cases e : j = k
  · subst e; simp only [aget_aset_same]; rw [hn] at hj; exact hs hj
  · simp only [aget_aset_ne k j n' g.sensors e]; exact hj

theorem nodeInv_setNode (g : GW) (k : Int) (n n' : Node) (hn : aget k g.sensors = some n)
    (hid : n'.id = n.id) (hq : ∀ l ∈ n'.queue, ∃ r : Msg, l = encLine r ∧ r.node = k)
    (hi : NodeInv g) : NodeInv (setNode g k n') := by
  intro j x hx
  unfold setNode at hx
  by_cases e : j = k
  · subst e
    simp only [aget_aset_same, Option.some.injEq] at hx
    subst hx
    exact ⟨hid.trans (hi j n hn).1, hq⟩
  · simp only [aget_aset_ne k j n' g.sensors e] at hx
    exact hi j x hx

/-- a node-local change that keeps id and queue and does not wake the node up is fine -/
theorem hold_setNode_alert (wk : Option Int) (g : GW) (k : Int) (n n' : Node) (m : Msg)
    (hn : aget k g.sensors = some n) (hid : n'.id = n.id) (hq : n'.queue = n.queue)
    (hs : n.sleeping = true → n'.sleeping = true) : Hold wk g (alert (setNode g k n') m) := by
  refine ⟨rfl, ?_, ?_, ?_⟩
  · intro hi
    show NodeInv { setNode g k n' with needSave := _ }
    have := nodeInv_setNode g k n n' hn hid (by rw [hq]; exact (hi k n hn).2) hi
    intro j x hx; exact this j x hx
  · intro j hj
    have := sleepingNode_setNode g k n n' hn hs j hj
    exact this
  · intro _ l hl; simp [alert] at hl

theorem sleeping_aset {α} (k : Int) (v : α) (l : List (Int × α)) (h : l.isEmpty = false) :
    (aset k v l).isEmpty = false := by
  cases l with
  | nil => simp at h
  | cons p l => obtain ⟨k', v'⟩ := p; unfold aset; split <;> simp

theorem clearDesired_sleeping (n : Node) (c vt : Int) (h : n.sleeping = true) :
    (clearDesired n c vt).sleeping = true := by
  unfold clearDesired
  split
  · exact h
  · simp only [Node.sleeping, Bool.not_eq_true'] at h ⊢
    exact sleeping_aset _ _ _ h

theorem updateChildValue_sleeping (n : Node) (c vt : Int) (v : Str) (h : n.sleeping = true) :
    (updateChildValue n c vt v).sleeping = true := by
  unfold updateChildValue
  split
  · exact h
  · exact clearDesired_sleeping _ c vt h

theorem clearDesired_queue (n : Node) (c vt : Int) : (clearDesired n c vt).queue = n.queue := by
  unfold clearDesired; split <;> rfl

theorem updateChildValue_queue (n : Node) (c vt : Int) (v : Str) : (updateChildValue n c vt v).queue = n.queue := by
  unfold updateChildValue; split
  · rfl
  · rw [clearDesired_queue]

theorem initDesired_nonempty (d : List (Int × List (Int × Option Str))) (c : Int) (h : d.isEmpty = false) :
    (initDesired d c).isEmpty = false := by
  unfold initDesired; split
  · exact h
  · cases d <;> simp at h ⊢

theorem foldl_initDesired_nonempty (cs : List Int) (d : List (Int × List (Int × Option Str)))
    (h : d.isEmpty = false) : (cs.foldl initDesired d).isEmpty = false := by
  induction cs generalizing d with
  | nil => exact h
  | cons c cs ih => exact ih _ (initDesired_nonempty d c h)

theorem initSleep_sleeping (n : Node) (h : n.sleeping = true) : (initSleep n).sleeping = true := by
  simp only [Node.sleeping, Bool.not_eq_true', initSleep] at h ⊢
  exact foldl_initDesired_nonempty _ _ h

theorem createSetMessage_node (g : GW) (node child : Int) (vt : Option Int) (value : Str) (ack : Int) (m : Msg)
    (h : createSetMessage g node child vt value ack = .ok m) :
    ∃ vti, vt = some vti ∧ m = ⟨node, child, g.t.mtSet, ack, vti, value⟩ ∧ validate g.const m = true ∧
      (encode m).isSome := by
  unfold createSetMessage at h
  split at h
  · cases h
  · rename_i vti
    split at h
    · cases h
    · rename_i he
      split at h
      · rename_i hv
        cases h
        exact ⟨vti, rfl, rfl, hv, by cases hh : encode (⟨node, child, g.t.mtSet, ack, vti, value⟩ : Msg) with
          | none => exact absurd hh (by simpa using he)
          | some _ => rfl⟩
      · cases h

theorem buildSets_lines (g : GW) (nid : Int) (ps : List (Int × Int × Str)) :
    ∀ l ∈ (buildSets g nid ps).1, ∃ x : Msg, l = encLine x ∧ x.node = nid := by
  induction ps with
  | nil => intro l hl; simp [buildSets] at hl
  | cons p ps ih =>
    obtain ⟨cid, vt, v⟩ := p
    intro l hl
    unfold buildSets at hl
    split at hl
    · simp at hl
    · rename_i m hm
      simp only [List.mem_cons] at hl
      rcases hl with rfl | hl
      · obtain ⟨vti, _, hm', _⟩ := createSetMessage_node _ _ _ _ _ _ _ hm
        exact ⟨m, rfl, by rw [hm']⟩
      · exact ih l hl

theorem not_sleeping_of_not_holds (g : GW) (m : Msg) (h : holds g m = false) :
    m.type = g.t.mtStream ∨ sleepingNode g m.node = false := by
  unfold holds at h
  unfold sleepingNode
  cases hn : aget m.node g.sensors with
  | none => exact Or.inr rfl
  | some n =>
    rw [hn] at h
    simp only [Bool.and_eq_false_iff, Bool.not_eq_false', decide_eq_true_eq] at h
    rcases h with h | h
    · exact Or.inl h
    · exact Or.inr h

theorem holdStepRelO (wk : Option Int) : StepRelO wk (Hold wk) where
  ret g := hold_id wk g {} rfl
  fail g e := hold_id wk g _ rfl
  comp := by
    intro a b c o1 o2 h1 h2
    refine ⟨h2.const.trans h1.const, fun hi => h2.inv (h1.inv hi), fun k hk => h2.mono k (h1.mono k hk), ?_⟩
    intro hi l hl
    have : (o1 ++ o2).sent = o1.sent ++ o2.sent := rfl
    rw [this, List.mem_append] at hl
    rcases hl with hl | hl
    · exact h1.sent hi l hl
    · obtain ⟨x, hx, ha⟩ := h2.sent (h1.inv hi) l hl
      refine ⟨x, hx, ?_⟩
      rcases ha with ha | ha | ha
      · exact Or.inl (by rw [← t_const h1.const]; exact ha)
      · refine Or.inr (Or.inl ?_)
        cases hs : sleepingNode a x.node with
        | false => rfl
        | true => rw [h1.mono _ hs] at ha; cases ha
      · exact Or.inr (Or.inr ha)
  alert g m := ⟨rfl, fun hi => hi, fun _ h => h, fun _ l hl => by simp [alert] at hl⟩
  route g m := by
    unfold route
    split
    · exact hold_id wk g {} rfl
    · split
      · rename_i hh
        unfold enqueue
        split
        · exact hold_id wk g {} rfl
        · rename_i n hn
          refine ⟨rfl, ?_, ?_, fun _ l hl => by simp [ret] at hl⟩
          · intro hi
            refine nodeInv_setNode g m.node n { n with queue := n.queue ++ [encLine m] } hn rfl ?_ hi
            intro l hl
            simp only [List.mem_append, List.mem_singleton] at hl
            rcases hl with hl | rfl
            · exact (hi _ n hn).2 l hl
            · exact ⟨m, rfl, rfl⟩
          · exact sleepingNode_setNode g m.node n { n with queue := n.queue ++ [encLine m] } hn (fun h => h)
      · rename_i hh
        refine ⟨rfl, id, fun _ h => h, ?_⟩
        intro _ l hl
        simp only [emit, List.mem_singleton] at hl
        subst hl
        refine ⟨m, rfl, ?_⟩
        rcases not_sleeping_of_not_holds g m (by simpa using hh) with h | h
        · exact Or.inl h
        · exact Or.inr (Or.inl h)
  addSensor g id _ _ := by
    unfold addSensor
    split
    · exact hold_id wk g {} rfl
    · rename_i hnone
      refine ⟨rfl, ?_, ?_, fun _ l hl => by simp [ret] at hl⟩
      · intro hi j x hx
        simp only [ret] at hx
        rw [aget_append_not_mem] at hx
        cases hj : aget j g.sensors with
        | some y => rw [hj] at hx; simp at hx; subst hx; exact hi j y hj
        | none =>
          rw [hj] at hx
          simp only at hx
          split at hx
          · rename_i e; cases hx; exact ⟨e.symm, fun l hl => by simp at hl⟩
          · cases hx
      · intro j hj
        unfold sleepingNode at hj ⊢
        simp only [ret]
        rw [aget_append_not_mem]
        cases hjj : aget j g.sensors with
        | some y => rw [hjj] at hj; simpa using hj
        | none => rw [hjj] at hj; cases hj
  presentNode g n m hn := hold_setNode_alert wk g m.node n _ m hn rfl rfl (fun h => h)
  addChild g n m hn _ := hold_setNode_alert wk g m.node n _ m hn rfl rfl (fun h => h)
  updateValue g n m hn _ := hold_setNode_alert wk g m.node n _ m hn (updateChildValue_id _ _ _ _)
    (updateChildValue_queue _ _ _ _) (updateChildValue_sleeping _ _ _ _)
  attr g k n n' m hn hid _ hd hq _ _ := hold_setNode_alert wk g k n n' m hn hid hq
    (by intro h; simp only [Node.sleeping] at h ⊢; rw [hd]; exact h)
  smartSleep g node hw hkn := by
    unfold smartSleep withNode
    split
    · exact hold_id wk g _ rfl
    · rename_i n hn
      refine ⟨rfl, ?_, ?_, ?_⟩
      · intro hi
        exact nodeInv_setNode g node n _ hn rfl (fun l hl => by simp at hl) hi
      · exact sleepingNode_setNode g node n _ hn (fun h => initSleep_sleeping n h)
      · intro hi l hl
        simp only [List.mem_append] at hl
        rcases hl with hl | hl
        · obtain ⟨r, hr, hrn⟩ := (hi node n hn).2 l hl
          exact ⟨r, hr, Or.inr (Or.inr (by rw [hrn]; exact hw))⟩
        · obtain ⟨x, hx, hxn⟩ := buildSets_lines _ _ _ l hl
          refine ⟨x, hx, Or.inr (Or.inr ?_)⟩
          have : (initSleep n).id = n.id := rfl
          rw [hxn]
          show wk = some n.id
          rw [(hi node n hn).1]; exact hw
  setReboot g k n hn := by
    refine ⟨rfl, ?_, ?_, fun _ l hl => by simp [ret] at hl⟩
    · intro hi; exact nodeInv_setNode g k n _ hn rfl (hi k n hn).2 hi
    · exact sleepingNode_setNode g k n _ hn (fun h => h)
  setStores g o _ := ⟨rfl, fun hi => hi, fun _ h => h, fun _ l hl => by simp [ret] at hl⟩
  storeFw g _ _ _ _ _ _ := ⟨rfl, fun hi => hi, fun _ h => h, fun _ l hl => by simp [ret] at hl⟩
  setCanLog g := ⟨rfl, fun hi => hi, fun _ h => h, fun _ l hl => by simp [ret] at hl⟩

theorem hold_storeDesired (wk : Option Int) (g : GW) (node child : Int) (n : Node) (vt : Option Int)
    (value : Str) (hn : aget node g.sensors = some n) : Hold wk g (storeDesired g node child n vt value) := by
  unfold storeDesired
  split
  · exact hold_id wk g _ rfl
  · split
    · exact hold_id wk g _ rfl
    · exact hold_id wk g _ rfl
    · refine ⟨rfl, ?_, ?_, fun _ l hl => by simp [ret] at hl⟩
      · intro hi
        exact nodeInv_setNode g node n _ hn rfl (hi node n hn).2 hi
      · apply sleepingNode_setNode g node n _ hn
        intro h
        simp only [Node.sleeping, Bool.not_eq_true'] at h ⊢
        exact sleeping_aset _ _ _ h

theorem hold_directSet (wk : Option Int) (g : GW) (node child : Int) (n : Node) (vt : Option Int)
    (value : Str) (msg : Msg) (ack : Int) (hn : aget node g.sensors = some n) (hs : n.sleeping = false)
    (hm : createSetMessage g node child vt value ack = .ok msg) : Hold wk g (emit g [encLine msg]) := by
  refine ⟨rfl, id, fun _ h => h, ?_⟩
  intro _ l hl
  simp only [emit, List.mem_singleton] at hl
  subst hl
  obtain ⟨vti, _, hm', _⟩ := createSetMessage_node _ _ _ _ _ _ _ hm
  refine ⟨msg, rfl, Or.inr (Or.inl ?_)⟩
  rw [hm']
  simp only [sleepingNode, hn]; exact hs

theorem hold_ignoresSubs (wk : Option Int) : IgnoresSubs (Hold wk) := by
  intro g r s h
  refine ⟨h.const, h.inv, h.mono, ?_⟩
  intro hi l hl
  have : (r.2 ++ ({ subs := s } : Out)).sent = r.2.sent := by
    show (Out.append r.2 { subs := s }).sent = _
    simp [Out.append]
  rw [this] at hl
  exact h.sent hi l hl

end MySensors
