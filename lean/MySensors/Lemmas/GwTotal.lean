/-
  Totality of the message pump (C01): the invariant `Safe`, its preservation by every step
  (instances of the generic inductions) and exception-freedom of `logic` under it.
-/
import MySensors.Lemmas.GwDesired
import MySensors.Lemmas.GwHist
import MySensors.Properties.C02

namespace MySensors

/-! ### CRC bound (own copy, kept in a namespace: Lemmas/Ota.lean proves the same for C09) -/

namespace Total

theorem crcBit_lt (c : Nat) (h : c < 65536) : crcBit c < 65536 := by
  unfold crcBit
  split
  · have h1 : c / 2 < 2 ^ 16 := by omega
    have h2 : 0xA001 < 2 ^ 16 := by decide
    exact Nat.xor_lt_two_pow h1 h2
  · omega

theorem crcByte_lt (c b : Nat) (hc : c < 65536) (hb : b < 256) : crcByte c b < 65536 := by
  unfold crcByte
  have h0 : c ^^^ b < 2 ^ 16 := Nat.xor_lt_two_pow (by omega) (by omega)
  have h0' : c ^^^ b < 65536 := h0
  exact crcBit_lt _ (crcBit_lt _ (crcBit_lt _ (crcBit_lt _ (crcBit_lt _ (crcBit_lt _ (crcBit_lt _
    (crcBit_lt _ h0')))))))

theorem crcModbus_lt (data : List Nat) (h : ∀ b ∈ data, b < 256) : crcModbus data < 65536 := by
  unfold crcModbus
  suffices ∀ acc, acc < 65536 → data.foldl crcByte acc < 65536 from this _ (by decide)
  induction data with
  | nil => intro acc ha; exact ha
  | cons b bs ih =>
    intro acc ha
    exact ih (fun x hx => h x (by simp [hx])) _ (crcByte_lt acc b ha (h b (by simp)))

theorem prepareFw_crc_lt (img : List Nat) (h : ∀ b ∈ img, b < 256) : (prepareFw img).crc < 65536 := by
  unfold prepareFw
  apply crcModbus_lt
  intro b hb
  simp only [List.mem_append, List.mem_replicate] at hb
  rcases hb with hb | ⟨_, rfl⟩
  · exact h b hb
  · decide

end Total

/-! ### the invariant -/

/-- every pending desired value builds a command that is valid for the gateway's version -/
def DesiredOk (g : GW) : Prop :=
  ∀ k n, aget k g.sensors = some n → ∀ c dv vt v, aget c n.desired = some dv →
    aget vt dv = some (some v) → ∃ m, createSetMessage g k c (some vt) v 0 = .ok m

/-- every stored firmware packs into unsigned 16-bit words -/
def OtaOk (g : GW) : Prop :=
  ∀ key fw, lookup key g.ota.firmware = some fw →
    (0 ≤ key.1 ∧ key.1 ≤ 65535 ∧ 0 ≤ key.2 ∧ key.2 ≤ 65535) ∧ fw.blocks ≤ 65535 ∧ fw.crc < 65536

/-- how a computation treats `DesiredOk` and `OtaOk` -/
structure DO (g : GW) (r : Res) : Prop where
  const : r.1.const = g.const
  desired : DesiredOk g → DesiredOk r.1
  ota : OtaOk g → OtaOk r.1

theorem do_id (g : GW) (o : Out) : DO g (g, o) := ⟨rfl, id, id⟩

theorem createSetMessage_const (g g' : GW) (h : g'.const = g.const) (node child : Int) (vt : Option Int)
    (v : Str) (ack : Int) : createSetMessage g' node child vt v ack = createSetMessage g node child vt v ack := by
  unfold createSetMessage GW.t
  rw [h]

/-- node-local change whose pending desired values are among the old ones -/
theorem desiredOk_setNode (g : GW) (k : Int) (n n' : Node) (hn : aget k g.sensors = some n)
    (hsub : ∀ c dv vt v, aget c n'.desired = some dv → aget vt dv = some (some v) →
      ∃ dv0, aget c n.desired = some dv0 ∧ aget vt dv0 = some (some v))
    (hd : DesiredOk g) : DesiredOk (setNode g k n') := by
  intro j x hx c dv vt v h1 h2
  unfold setNode at hx
  by_cases e : j = k
  · subst e
    simp only [aget_aset_same, Option.some.injEq] at hx
    subst hx
    obtain ⟨dv0, h3, h4⟩ := hsub c dv vt v h1 h2
    exact hd j n hn c dv0 vt v h3 h4
  · simp only [aget_aset_ne k j n' g.sensors e] at hx
    exact hd j x hx c dv vt v h1 h2

theorem do_setNode_alert (g : GW) (k : Int) (n n' : Node) (m : Msg) (hn : aget k g.sensors = some n)
    (hsub : ∀ c dv vt v, aget c n'.desired = some dv → aget vt dv = some (some v) →
      ∃ dv0, aget c n.desired = some dv0 ∧ aget vt dv0 = some (some v)) :
    DO g (alert (setNode g k n') m) :=
  ⟨rfl, fun hd => desiredOk_setNode g k n n' hn hsub hd, id⟩

theorem clearDesired_sub (n : Node) (c0 vt0 : Int) :
    ∀ c dv vt v, aget c (clearDesired n c0 vt0).desired = some dv → aget vt dv = some (some v) →
      ∃ dv0, aget c n.desired = some dv0 ∧ aget vt dv0 = some (some v) := by
  intro c dv vt v h1 h2
  unfold clearDesired at h1
  cases hd : aget c0 n.desired with
  | none => rw [hd] at h1; exact ⟨dv, h1, h2⟩
  | some d0 =>
    rw [hd] at h1
    simp only [aget_aset] at h1
    by_cases e : c = c0
    · subst e
      simp only [↓reduceIte, Option.some.injEq] at h1
      subst h1
      rw [aget_aset] at h2
      by_cases e2 : vt = vt0
      · simp [e2] at h2
      · simp only [e2, ↓reduceIte] at h2
        exact ⟨d0, hd, h2⟩
    · simp only [e, ↓reduceIte] at h1
      exact ⟨dv, h1, h2⟩

theorem updateChildValue_sub (n : Node) (c0 vt0 : Int) (v0 : Str) :
    ∀ c dv vt v, aget c (updateChildValue n c0 vt0 v0).desired = some dv → aget vt dv = some (some v) →
      ∃ dv0, aget c n.desired = some dv0 ∧ aget vt dv0 = some (some v) := by
  unfold updateChildValue
  split
  · intro c dv vt v h1 h2; exact ⟨dv, h1, h2⟩
  · exact clearDesired_sub _ c0 vt0

theorem initDesired_sub (d : List (Int × List (Int × Option Str))) (c0 : Int) (c : Int)
    (dv : List (Int × Option Str)) (vt : Int) (v : Str)
    (h1 : aget c (initDesired d c0) = some dv) (h2 : aget vt dv = some (some v)) : aget c d = some dv := by
  unfold initDesired at h1
  cases hc : aget c0 d with
  | some _ => rw [hc] at h1; exact h1
  | none =>
    rw [hc] at h1
    simp only at h1
    rw [aget_append_not_mem] at h1
    cases hj : aget c d with
    | some x => rw [hj] at h1; exact h1
    | none =>
      rw [hj] at h1
      simp only at h1
      split at h1
      · cases h1; simp [aget] at h2
      · cases h1

theorem foldl_initDesired_sub (cs : List Int) (d : List (Int × List (Int × Option Str))) (c : Int)
    (dv : List (Int × Option Str)) (vt : Int) (v : Str)
    (h1 : aget c (cs.foldl initDesired d) = some dv) (h2 : aget vt dv = some (some v)) : aget c d = some dv := by
  induction cs generalizing d with
  | nil => exact h1
  | cons c0 cs ih => exact initDesired_sub d c0 c dv vt v (ih _ h1) h2

theorem initSleep_sub (n : Node) :
    ∀ c dv vt v, aget c (initSleep n).desired = some dv → aget vt dv = some (some v) →
      ∃ dv0, aget c n.desired = some dv0 ∧ aget vt dv0 = some (some v) := by
  intro c dv vt v h1 h2
  exact ⟨dv, foldl_initDesired_sub _ _ c dv vt v h1 h2, h2⟩

theorem doStepRelO (wk : Option Int) : StepRelO wk DO where
  ret g := do_id g {}
  fail g e := do_id g _
  comp := by
    intro a b c o1 o2 h1 h2
    exact ⟨h2.const.trans h1.const, fun h => h2.desired (h1.desired h), fun h => h2.ota (h1.ota h)⟩
  alert g m := ⟨rfl, id, id⟩
  route g m := by
    unfold route
    split
    · exact do_id g {}
    · split
      · unfold enqueue
        split
        · exact do_id g {}
        · rename_i n hn
          exact ⟨rfl, fun hd => desiredOk_setNode g m.node n { n with queue := n.queue ++ [encLine m] } hn
            (fun c dv vt v h1 h2 => ⟨dv, h1, h2⟩) hd, id⟩
      · exact do_id g _
  setCanLog g := ⟨rfl, id, id⟩
  addSensor g sid _ _ := by
    unfold addSensor
    split
    · exact do_id g {}
    · rename_i hnone
      refine ⟨rfl, ?_, fun h => h⟩
      intro hd j x hx c dv vt v h1 h2
      simp only [ret] at hx
      rw [aget_append_not_mem] at hx
      cases hj : aget j g.sensors with
      | some y =>
        rw [hj] at hx; simp at hx; subst hx
        exact hd j y hj c dv vt v h1 h2
      | none =>
        rw [hj] at hx
        simp only at hx
        split at hx
        · cases hx; simp [aget] at h1
        · cases hx
  presentNode g n m hn := do_setNode_alert g m.node n _ m hn (fun c dv vt v h1 h2 => ⟨dv, h1, h2⟩)
  addChild g n m hn _ := do_setNode_alert g m.node n _ m hn (fun c dv vt v h1 h2 => ⟨dv, h1, h2⟩)
  updateValue g n m hn _ := do_setNode_alert g m.node n _ m hn (updateChildValue_sub n _ _ _)
  attr g k n n' m hn _ _ hd _ _ _ := do_setNode_alert g k n n' m hn
    (fun c dv vt v h1 h2 => ⟨dv, by rw [← hd]; exact h1, h2⟩)
  smartSleep g node _ _ := by
    unfold smartSleep withNode
    split
    · exact do_id g _
    · rename_i n hn
      exact ⟨rfl, fun hd => desiredOk_setNode g node n { initSleep n with queue := [] } hn (initSleep_sub n) hd, id⟩
  setReboot g k n hn := ⟨rfl, fun hd => desiredOk_setNode g k n { n with reboot := true } hn
    (fun c dv vt v h1 h2 => ⟨dv, h1, h2⟩) hd, id⟩
  setStores g o ho := by
    refine ⟨rfl, id, ?_⟩
    intro h key fw hl
    simp only [ret] at hl
    rw [ho] at hl
    exact h key fw hl
  storeFw g fwt fwv img hr hb hbytes := by
    refine ⟨rfl, id, ?_⟩
    intro h key fw hl
    simp only [ret] at hl
    unfold storeFirmware at hl
    have hnew : (0 ≤ (fwt, fwv).1 ∧ (fwt, fwv).1 ≤ 65535 ∧ 0 ≤ (fwt, fwv).2 ∧ (fwt, fwv).2 ≤ 65535) ∧
        (prepareFw img).blocks ≤ 65535 ∧ (prepareFw img).crc < 65536 :=
      ⟨by simpa using hr, hb, Total.prepareFw_crc_lt img hbytes⟩
    cases hk : lookup (fwt, fwv) g.ota.firmware with
    | some old =>
      rw [hk] at hl
      simp only at hl
      have : ∀ (l : List ((Int × Int) × Fw)),
          lookup key (l.map fun kv => if kv.1 = (fwt, fwv) then (kv.1, prepareFw img) else kv) = some fw →
          (key = (fwt, fwv) ∧ fw = prepareFw img) ∨ lookup key l = some fw := by
        intro l
        induction l with
        | nil => intro hh; simp [lookup] at hh
        | cons p l ih =>
          obtain ⟨k', v'⟩ := p
          intro hh
          simp only [List.map_cons] at hh
          by_cases e1 : k' = (fwt, fwv)
          · simp only [e1, ↓reduceIte, lookup] at hh ⊢
            by_cases e2 : key = (fwt, fwv)
            · simp only [e2, ↓reduceIte, Option.some.injEq] at hh
              exact Or.inl ⟨e2, hh.symm⟩
            · simp only [e2, ↓reduceIte] at hh
              rcases ih hh with h' | h'
              · exact Or.inl h'
              · exact Or.inr (by simp only [e2, ↓reduceIte]; exact h')
          · simp only [e1, ↓reduceIte, lookup] at hh ⊢
            by_cases e2 : key = k'
            · simp only [e2, ↓reduceIte] at hh ⊢; exact Or.inr hh
            · simp only [e2, ↓reduceIte] at hh ⊢; exact ih hh
      rcases this _ hl with ⟨rfl, rfl⟩ | h'
      · exact hnew
      · exact h key fw h'
    | none =>
      rw [hk] at hl
      simp only at hl
      have : ∀ (l : List ((Int × Int) × Fw)), lookup key (l ++ [((fwt, fwv), prepareFw img)]) = some fw →
          (key = (fwt, fwv) ∧ fw = prepareFw img) ∨ lookup key l = some fw := by
        intro l
        induction l with
        | nil =>
          intro hh
          simp only [List.nil_append, lookup] at hh
          split at hh
          · rename_i e; cases hh; exact Or.inl ⟨e, rfl⟩
          · cases hh
        | cons p l ih =>
          obtain ⟨k', v'⟩ := p
          intro hh
          simp only [List.cons_append, lookup] at hh ⊢
          by_cases e2 : key = k'
          · simp only [e2, ↓reduceIte] at hh ⊢; exact Or.inr hh
          · simp only [e2, ↓reduceIte] at hh ⊢; exact ih hh
      rcases this _ hl with ⟨rfl, rfl⟩ | h'
      · exact hnew
      · exact h key fw h'

theorem do_ignoresSubs : IgnoresSubs DO := fun _ _ _ h => ⟨h.const, h.desired, h.ota⟩

end MySensors

namespace MySensors

/-! ### controller primitive: a stored desired value is valid with ack 0 -/

theorem encode_isSome_iff (m : Msg) : (encode m).isSome ↔ intsWithinLimit m := by
  constructor
  · intro h
    cases he : encode m with
    | none => rw [he] at h; cases h
    | some l => exact (encode_some m l he).2
  · intro h; rw [encode_eq_canon m h]; rfl

theorem numDigits_zero_le : numDigits 0 ≤ PyTables.intMaxDigits := by
  have : numDigits 0 = 1 := by
    unfold numDigits; rw [show (0 : Int).natAbs = 0 from rfl, natDigits]; simp
  rw [this]; decide

theorem createSetMessage_ack0 (g : GW) (node child : Int) (vt : Option Int) (value : Str) (ack : Int) (m : Msg)
    (h : createSetMessage g node child vt value ack = .ok m) :
    ∃ m0, createSetMessage g node child vt value 0 = .ok m0 := by
  obtain ⟨vti, rfl, rfl, hv, he⟩ := createSetMessage_node _ _ _ _ _ _ _ h
  have he0 : (encode (⟨node, child, g.t.mtSet, 0, vti, value⟩ : Msg)).isSome := by
    rw [encode_isSome_iff] at he ⊢
    exact ⟨he.1, he.2.1, he.2.2.1, numDigits_zero_le, he.2.2.2.2⟩
  have hv0 : validate g.const (⟨node, child, g.t.mtSet, 0, vti, value⟩ : Msg) = true := by
    simp only [validate, headerOk, childOk, typeOk, Bool.and_eq_true, decide_eq_true_eq] at hv ⊢
    obtain ⟨⟨⟨⟨h1, h2⟩, h3⟩, h5⟩, h6⟩ := hv
    refine ⟨⟨⟨⟨h1, h2⟩, ?_⟩, h5⟩, h6⟩
    simp
  refine ⟨⟨node, child, g.t.mtSet, 0, vti, value⟩, ?_⟩
  unfold createSetMessage
  cases hen : encode (⟨node, child, g.t.mtSet, 0, vti, value⟩ : Msg) with
  | none => rw [hen] at he0; cases he0
  | some l => simp [hen, hv0]

theorem do_storeDesired (g : GW) (node child : Int) (n : Node) (vt : Option Int) (value : Str) (msg : Msg)
    (ack : Int) (hn : aget node g.sensors = some n)
    (hm : createSetMessage g node child vt value ack = .ok msg) : DO g (storeDesired g node child n vt value) := by
  unfold storeDesired
  cases hdv0 : aget child n.desired with
  | none => exact do_id g _
  | some dv0 =>
    simp only
    cases hvs : validateChildState n child vt value with
    | error e => exact do_id g _
    | ok u =>
      cases vt with
      | none => exact do_id g _
      | some vti =>
        refine ⟨rfl, ?_, id⟩
        intro hd j x hx c dv vt' v h1 h2
        simp only [ret, setNode] at hx
        by_cases e : j = node
        · subst e
          simp only [aget_aset_same, Option.some.injEq] at hx
          subst hx
          simp only [aget_aset] at h1
          by_cases ec : c = child
          · subst ec
            simp only [↓reduceIte, Option.some.injEq] at h1
            subst h1
            rw [aget_aset] at h2
            by_cases ev : vt' = vti
            · subst ev
              simp only [↓reduceIte, Option.some.injEq] at h2
              subst h2
              exact createSetMessage_ack0 g j c (some vt') value ack msg hm
            · simp only [ev, ↓reduceIte] at h2
              exact hd j n hn c dv0 vt' v hdv0 h2
          · simp only [ec, ↓reduceIte] at h1
            exact hd j n hn c dv vt' v h1 h2
        · simp only [aget_aset_ne node j _ g.sensors e] at hx
          exact hd j x hx c dv vt' v h1 h2

/-! ### table facts needed for totality (re-checked against the generated tables) -/

def typeHandlerOk (h : HandlerId) : Bool :=
  h = .handle_presentation || h = .handle_set || h = .handle_req || h = .handle_internal || h = .handle_stream

def internalHandlerOk (h : HandlerId) : Bool :=
  h = .handle_id_request || h = .handle_config || h = .handle_time || h = .handle_battery_level ||
  h = .handle_sketch_name || h = .handle_sketch_version || h = .handle_log_message ||
  h = .handle_gateway_ready || h = .handle_gateway_ready_20 || h = .handle_heartbeat_response ||
  h = .handle_discover_response || h = .handle_heartbeat_response_22 || h = .handle_pre_sleep_notification

def streamHandlerOk (h : HandlerId) : Bool :=
  h = .handle_firmware_config_request || h = .handle_firmware_request

/-- everything `logic` looks up in the version's tables is there -/
def tablesTotal (t : VTables) : Bool :=
  (t.messageTypes ++ [t.mtPresentation, t.mtInternal, t.mtStream]).all (fun ty =>
    match lookup ty t.typeHandlers with
    | some h => typeHandlerOk h
    | none => false) &&
  t.internalHandlers.all (fun p => internalHandlerOk p.2) &&
  t.streamHandlers.all (fun p => streamHandlerOk p.2) &&
  t.iReboot.isSome && t.iIdResponse.isSome &&
  (!(t.internalHandlers.any fun p => p.2 = .handle_gateway_ready_20) || t.iDiscover.isSome)

theorem tables_total (c : ConstId) : tablesTotal (Tables.tables c) = true := by
  cases c <;> decide

theorem lookup_mem {κ ν} [DecidableEq κ] (k : κ) (v : ν) (l : List (κ × ν)) (h : lookup k l = some v) :
    (k, v) ∈ l := by
  induction l with
  | nil => simp [lookup] at h
  | cons p l ih =>
    obtain ⟨k', v'⟩ := p
    unfold lookup at h
    split at h
    · rename_i e; cases h; simp [e]
    · simp [ih h]

/-! ### exception-freedom -/

def Decoded (m : Msg) : Prop := ∃ l, decode l = some m

theorem route_noexc (g : GW) (m : Msg) : (route g m).2.exc = none := by
  unfold route; split
  · rfl
  · split <;> rfl

theorem requestPresentation_noexc (g : GW) (node : Int) : (requestPresentation g node).2.exc = none := by
  unfold requestPresentation
  split
  · split
    · rfl
    · exact route_noexc _ _
  · rfl

theorem replyCopy_noexc (g : GW) (m : Msg) (kw : Kw) (hm : Decoded m) : (replyCopy g m kw).2.exc = none := by
  obtain ⟨l, hl⟩ := hm
  unfold replyCopy
  rw [C02.copy_decoded l m kw hl]
  exact route_noexc _ _

theorem seq_noexc (r : Res) (f : GW → Res) (h1 : r.2.exc = none) (h2 : (f r.1).2.exc = none) :
    (seq r f).2.exc = none := by
  unfold seq
  simp only [h1]
  show (Out.append r.2 (f r.1).2).exc = none
  simp [Out.append, h1, h2]

theorem ifKnown_noexc (g : GW) (node : Int) (child : Option Int) (f : GW → Res)
    (h : isKnown g node child = true → (f g).2.exc = none) : (ifKnown g node child f).2.exc = none := by
  unfold ifKnown
  split
  · rename_i hk; exact h hk
  · exact requestPresentation_noexc g node

theorem known_some (g : GW) (node : Int) (child : Option Int) (h : isKnown g node child = true) :
    ∃ n, aget node g.sensors = some n := by
  unfold isKnown at h
  cases hn : aget node g.sensors with
  | none => rw [hn] at h; cases h
  | some n => exact ⟨n, rfl⟩

theorem withNode_eq (g : GW) (node : Int) (f : Node → Res) (n : Node) (h : aget node g.sensors = some n) :
    withNode g node f = f n := by
  unfold withNode; rw [h]

theorem withConst_eq (g : GW) (o : Option Int) (f : Int → Res) (a : Int) (h : o = some a) :
    withConst g o f = f a := by
  unfold withConst; rw [h]

theorem buildSets_noexc (g : GW) (nid : Int) (ps : List (Int × Int × Str))
    (h : ∀ p ∈ ps, ∃ m, createSetMessage g nid p.1 (some p.2.1) p.2.2 0 = .ok m) : (buildSets g nid ps).2 = none := by
  induction ps with
  | nil => rfl
  | cons p ps ih =>
    obtain ⟨c, vt, v⟩ := p
    obtain ⟨m, hm⟩ := h (c, vt, v) (by simp)
    unfold buildSets
    simp only [hm]
    exact ih (fun q hq => h q (by simp [hq]))

theorem pending_ok (g : GW) (k : Int) (n : Node) (hn : aget k g.sensors = some n) (hd : DesiredOk g) :
    ∀ p ∈ pending (initSleep n), ∃ m, createSetMessage g k p.1 (some p.2.1) p.2.2 0 = .ok m := by
  intro p hp
  obtain ⟨c, vt, v⟩ := p
  unfold pending at hp
  simp only [List.mem_flatMap] at hp
  obtain ⟨⟨c', ch⟩, _, hp⟩ := hp
  unfold pendingOfChild at hp
  cases hdd : aget c' (initSleep n).desired with
  | none => simp [hdd] at hp
  | some dv =>
    simp only [hdd, List.mem_filterMap] at hp
    obtain ⟨⟨vt', x⟩, _, hsome⟩ := hp
    cases ha : aget vt' dv with
    | none => simp [ha] at hsome
    | some o =>
      cases o with
      | none => simp [ha] at hsome
      | some v' =>
        simp only [ha, Option.some.injEq, Prod.mk.injEq] at hsome
        obtain ⟨rfl, rfl, rfl⟩ := hsome
        obtain ⟨dv0, h3, h4⟩ := initSleep_sub n c' dv vt' v' hdd ha
        exact hd k n hn c' dv0 vt' v' h3 h4

theorem smartSleep_noexc (g : GW) (node : Int) (hk : isKnown g node none = true) (hi : NodeInv g)
    (hd : DesiredOk g) : (smartSleep g node).2.exc = none := by
  obtain ⟨n, hn⟩ := known_some g node none hk
  unfold smartSleep
  rw [withNode_eq g node _ n hn]
  show (buildSets _ (initSleep n).id (pending _)).2 = none
  apply buildSets_noexc
  intro p hp
  have hid : (initSleep n).id = node := (hi node n hn).1
  rw [hid]
  have := pending_ok g node n hn hd p hp
  obtain ⟨m, hm⟩ := this
  exact ⟨m, hm⟩

theorem aget_setNode_same (g : GW) (k : Int) (n : Node) : aget k (setNode g k n).sensors = some n := by
  unfold setNode; simp

theorem smartSleep_known (g : GW) (node : Int) (n : Node) (hn : aget node g.sensors = some n) :
    ∃ n', aget node (smartSleep g node).1.sensors = some n' := by
  unfold smartSleep
  rw [withNode_eq g node _ n hn]
  exact ⟨_, aget_setNode_same _ _ _⟩

theorem handleHeartbeat_noexc (g : GW) (m : Msg) (n : Node) (hn : aget m.node g.sensors = some n) :
    (handleHeartbeat g m).2.exc = none := by
  unfold handleHeartbeat
  rw [withNode_eq g m.node _ n hn]
  rfl

theorem addSensor_known (g : GW) (id : Int) : ∃ n, aget id (addSensor g id).sensors = some n := by
  unfold addSensor
  cases h : aget id g.sensors with
  | some n => exact ⟨n, h⟩
  | none =>
    simp only
    rw [aget_append_not_mem, h]
    simp

theorem addSensor_t (g : GW) (id : Int) : (addSensor g id).t = g.t := by
  unfold addSensor; split <;> rfl

theorem handlePresentation_noexc (g : GW) (m : Msg) : (handlePresentation g m).2.exc = none := by
  unfold handlePresentation
  split
  · unfold presentNode
    obtain ⟨n, hn⟩ := addSensor_known g m.node
    rw [withNode_eq _ m.node _ n hn]
    rfl
  · unfold presentChild
    apply ifKnown_noexc
    intro hk
    obtain ⟨n, hn⟩ := known_some g m.node none hk
    rw [withNode_eq g m.node _ n hn]
    split <;> rfl

theorem rebootReply_noexc (g : GW) (m : Msg) (b : Bool) (hm : Decoded m) :
    (rebootReply g m b).2.exc = none := by
  unfold rebootReply
  split
  · have ht := tables_total g.const
    simp only [tablesTotal, Bool.and_eq_true] at ht
    have : g.t.iReboot.isSome = true := ht.1.1.2
    cases hr : g.t.iReboot with
    | none => rw [hr] at this; cases this
    | some sub => rw [withConst_eq _ _ _ sub rfl]; exact replyCopy_noexc _ _ _ hm
  · rfl

theorem handleSet_noexc (g : GW) (m : Msg) (hm : Decoded m) : (handleSet g m).2.exc = none := by
  unfold handleSet
  apply ifKnown_noexc
  intro hk
  obtain ⟨n, hn⟩ := known_some g m.node _ hk
  rw [withNode_eq g m.node _ n hn]
  apply seq_noexc
  · rfl
  · exact rebootReply_noexc _ _ _ hm

theorem handleReq_noexc (g : GW) (m : Msg) (hm : Decoded m) : (handleReq g m).2.exc = none := by
  unfold handleReq
  apply ifKnown_noexc
  intro hk
  obtain ⟨n, hn⟩ := known_some g m.node _ hk
  rw [withNode_eq g m.node _ n hn]
  split
  · rfl
  · exact replyCopy_noexc _ _ _ hm

theorem handleIdRequest_noexc (g : GW) (m : Msg) (hm : Decoded m) : (handleIdRequest g m).2.exc = none := by
  unfold handleIdRequest
  split
  · rfl
  · rename_i id _
    have ht := tables_total g.const
    simp only [tablesTotal, Bool.and_eq_true] at ht
    have : g.t.iIdResponse.isSome = true := ht.1.2
    rw [addSensor_t]
    cases hr : g.t.iIdResponse with
    | none => rw [hr] at this; cases this
    | some sub => rw [withConst_eq _ _ _ sub rfl]; exact replyCopy_noexc _ _ _ hm

theorem handleInternalBy_noexc (h : HandlerId) (g : GW) (m : Msg) (hm : Decoded m) (hi : NodeInv g)
    (hd : DesiredOk g) (hok : internalHandlerOk h = true)
    (hdisc : h = .handle_gateway_ready_20 → g.t.iDiscover.isSome = true) :
    (handleInternalBy h g m).2.exc = none := by
  unfold handleInternalBy
  split
  · exact handleIdRequest_noexc g m hm
  · exact replyCopy_noexc _ _ _ hm
  · exact replyCopy_noexc _ _ _ hm
  · apply ifKnown_noexc; intro hk
    obtain ⟨n, hn⟩ := known_some g m.node _ hk
    rw [withNode_eq g m.node _ n hn]; rfl
  · apply ifKnown_noexc; intro hk
    obtain ⟨n, hn⟩ := known_some g m.node _ hk
    rw [withNode_eq g m.node _ n hn]; rfl
  · apply ifKnown_noexc; intro hk
    obtain ⟨n, hn⟩ := known_some g m.node _ hk
    rw [withNode_eq g m.node _ n hn]; rfl
  · rfl
  · rfl
  · apply seq_noexc
    · rfl
    · have := hdisc rfl
      show (withConst _ g.t.iDiscover _).2.exc = none
      cases hr : g.t.iDiscover with
      | none => rw [hr] at this; cases this
      | some sub => rw [withConst_eq _ _ _ sub rfl]; exact replyCopy_noexc _ _ _ hm
  · apply ifKnown_noexc; intro hk
    obtain ⟨n, hn⟩ := known_some g m.node _ hk
    apply seq_noexc
    · exact smartSleep_noexc g m.node hk hi hd
    · obtain ⟨n', hn'⟩ := smartSleep_known g m.node n hn
      exact handleHeartbeat_noexc _ m n' hn'
  · apply ifKnown_noexc; intro _; rfl
  · apply ifKnown_noexc; intro hk
    obtain ⟨n, hn⟩ := known_some g m.node _ hk
    exact handleHeartbeat_noexc g m n hn
  · apply ifKnown_noexc; intro hk
    exact smartSleep_noexc g m.node hk hi hd
  · rename_i h1 h2 h3 h4 h5 h6 h7 h8 h9 h10 h11 h12 h13
    exfalso
    simp only [internalHandlerOk, Bool.or_eq_true, decide_eq_true_eq] at hok
    rcases hok with ((((((((((((e | e) | e) | e) | e) | e) | e) | e) | e) | e) | e) | e) | e)
    · exact h1 e
    · exact h2 e
    · exact h3 e
    · exact h4 e
    · exact h5 e
    · exact h6 e
    · exact h7 e
    · exact h8 e
    · exact h9 e
    · exact h10 e
    · exact h11 e
    · exact h12 e
    · exact h13 e

end MySensors

namespace MySensors

/-! ### stream handlers -/

theorem hexVal_lt (c : Char) (v : Nat) (h : hexVal c = some v) : v < 16 := by
  unfold hexVal at h
  simp only at h
  split at h
  · cases h; omega
  · split at h
    · cases h; omega
    · split at h
      · cases h; omega
      · cases h

theorem unhexlify_lt : ∀ (s : Str) (bs : List Nat), unhexlify s = some bs → ∀ b ∈ bs, b < 256
  | [], bs, h => by simp [unhexlify] at h; subst h; simp
  | [_], bs, h => by simp [unhexlify] at h
  | a :: b :: rest, bs, h => by
    unfold unhexlify at h
    cases ha : hexVal a with
    | none => simp [ha] at h
    | some x =>
      cases hb : hexVal b with
      | none => simp [ha, hb] at h
      | some y =>
        cases hr : unhexlify rest with
        | none => simp [ha, hb, hr] at h
        | some tl =>
          simp only [ha, hb, hr, Option.some.injEq] at h
          subst h
          intro z hz
          simp only [List.mem_cons] at hz
          rcases hz with rfl | hz
          · have := hexVal_lt a x ha; have := hexVal_lt b y hb; omega
          · exact unhexlify_lt rest tl hr z hz

theorem bytesToWords_lt : ∀ (bs : List Nat), (∀ b ∈ bs, b < 256) → ∀ w ∈ bytesToWords bs, w < 65536
  | [], _, w, hw => by simp [bytesToWords] at hw
  | [_], _, w, hw => by simp [bytesToWords] at hw
  | lo :: hi :: rest, h, w, hw => by
    unfold bytesToWords at hw
    simp only [List.mem_cons] at hw
    rcases hw with rfl | hw
    · have := h lo (by simp); have := h hi (by simp); omega
    · exact bytesToWords_lt rest (fun b hb => h b (by simp [hb])) w hw

theorem fwHexToInt_lt (p : Str) (n : Nat) (ws : List Nat) (h : fwHexToInt p n = some ws) :
    ∀ w ∈ ws, w < 65536 := by
  unfold fwHexToInt at h
  cases hu : unhexlify p with
  | none => simp [hu] at h
  | some bs =>
    simp only [hu] at h
    split at h
    · cases h; exact bytesToWords_lt bs (unhexlify_lt p bs hu)
    · cases h

theorem fwIntToHex_some (ws : List Nat) (h : ∀ w ∈ ws, w < 65536) : ∃ p, fwIntToHex ws = some p := by
  unfold fwIntToHex
  have : ws.all (· < 65536) = true := by simpa using h
  simp [this]

theorem configReply_noexc (g : GW) (m : Msg) (fid : Int × Int) (fw : Fw) (sub : Int) (hm : Decoded m)
    (hr : (0 ≤ fid.1 ∧ fid.1 ≤ 65535 ∧ 0 ≤ fid.2 ∧ fid.2 ≤ 65535) ∧ fw.blocks ≤ 65535 ∧ fw.crc < 65536) :
    (configReply g m fid fw sub).exc = none := by
  obtain ⟨l, hl⟩ := hm
  unfold configReply
  rw [C02.copy_decoded l m _ hl]
  simp only
  obtain ⟨p, hp⟩ := fwIntToHex_some [fid.1.toNat, fid.2.toNat, fw.blocks, fw.crc] (by
    intro w hw
    simp only [List.mem_cons, List.mem_nil_iff, or_false] at hw
    rcases hw with rfl | rfl | rfl | rfl <;> omega)
  rw [hp]

theorem blockReply_noexc (g : GW) (m : Msg) (rt rv blk : Nat) (fw : Fw) (sub : Int) (hm : Decoded m)
    (hr : rt < 65536 ∧ rv < 65536 ∧ blk < 65536) : (blockReply g m rt rv blk fw sub).exc = none := by
  obtain ⟨l, hl⟩ := hm
  unfold blockReply
  rw [C02.copy_decoded l m _ hl]
  simp only
  obtain ⟨p, hp⟩ := fwIntToHex_some [rt, rv, blk] (by
    intro w hw
    simp only [List.mem_cons, List.mem_nil_iff, or_false] at hw
    rcases hw with rfl | rfl | rfl <;> omega)
  rw [hp]

theorem otaConfigResponse_noexc (g : GW) (m : Msg) (hm : Decoded m) (ho : OtaOk g) :
    (otaConfigResponse g m).exc = none := by
  unfold otaConfigResponse
  split
  · rfl
  · split
    · rfl
    · rename_i fid o' hp
      split
      · rename_i fw sub hl _
        apply configReply_noexc _ _ _ _ _ hm
        rw [pickConfig_firmware _ _ _ _ hp] at hl
        exact ho fid fw hl
      · rfl

theorem otaBlockResponse_noexc (g : GW) (m : Msg) (hm : Decoded m) : (otaBlockResponse g m).exc = none := by
  unfold otaBlockResponse
  split
  · rename_i rt rv blk hw
    split
    · rfl
    · split
      · apply blockReply_noexc _ _ _ _ _ _ _ hm
        have := fwHexToInt_lt _ _ _ hw
        exact ⟨this rt (by simp), this rv (by simp), this blk (by simp)⟩
      · rfl
  · rfl

theorem finishStream_noexc (r : StreamRes) (m : Msg) (h : r.exc = none) : (finishStream r m).2.exc = none := by
  unfold finishStream
  rw [h]
  simp only
  apply seq_noexc
  · rfl
  · split
    · rfl
    · exact route_noexc _ _

theorem handleStream_noexc (g : GW) (m : Msg) (hm : Decoded m) (ho : OtaOk g) : (handleStream g m).2.exc = none := by
  unfold handleStream
  apply ifKnown_noexc
  intro _
  split
  · rfl
  · rename_i h hh
    apply finishStream_noexc
    have ht := tables_total g.const
    simp only [tablesTotal, Bool.and_eq_true, List.all_eq_true] at ht
    have hok := ht.1.1.1.2 (m.sub, h) (lookup_mem _ _ _ hh)
    unfold streamResBy
    simp only [streamHandlerOk, Bool.or_eq_true, decide_eq_true_eq] at hok
    rcases hok with e | e
    · subst e; exact otaConfigResponse_noexc g m hm ho
    · subst e; exact otaBlockResponse_noexc g m hm

theorem handleInternal_noexc (g : GW) (m : Msg) (hm : Decoded m) (hi : NodeInv g) (hd : DesiredOk g) :
    (handleInternal g m).2.exc = none := by
  unfold handleInternal
  split
  · rfl
  · split
    · rfl
    · rename_i h hh
      have ht := tables_total g.const
      simp only [tablesTotal, Bool.and_eq_true, List.all_eq_true] at ht
      have hmem := lookup_mem _ _ _ hh
      apply handleInternalBy_noexc h g m hm hi hd (ht.1.1.1.1.2 (m.sub, h) hmem)
      intro e
      have := ht.2
      simp only [Bool.or_eq_true, Bool.not_eq_true', List.any_eq_false] at this
      rcases this with h1 | h1
      · exact absurd (by simp [e]) (h1 (m.sub, h) hmem)
      · exact h1

theorem validate_type_mem (c : ConstId) (m : Msg) (h : validate c m = true) :
    m.type ∈ (Tables.tables c).messageTypes ++
      [(Tables.tables c).mtPresentation, (Tables.tables c).mtInternal, (Tables.tables c).mtStream] := by
  simp only [validate, headerOk, Bool.and_eq_true] at h
  have ht := h.1.1.1.2
  unfold typeOk at ht
  split at ht
  · simp only [decide_eq_true_eq] at ht
    simp only [List.mem_append, List.mem_cons, List.mem_nil_iff, or_false]
    exact Or.inr ht
  · simp only [List.contains_eq_mem, decide_eq_true_eq] at ht
    exact List.mem_append_left _ ht

theorem dispatch_noexc (g : GW) (m : Msg) (hm : Decoded m) (hv : validate g.const m = true) (hi : NodeInv g)
    (hd : DesiredOk g) (ho : OtaOk g) : (dispatch g m).2.exc = none := by
  have ht := tables_total g.const
  simp only [tablesTotal, Bool.and_eq_true, List.all_eq_true] at ht
  have hty := ht.1.1.1.1.1 m.type (validate_type_mem g.const m hv)
  unfold dispatch
  cases hl : lookup m.type g.t.typeHandlers with
  | none =>
    have : lookup m.type (Tables.tables g.const).typeHandlers = none := hl
    rw [this] at hty; cases hty
  | some h =>
    have hl' : lookup m.type (Tables.tables g.const).typeHandlers = some h := hl
    rw [hl'] at hty
    simp only [typeHandlerOk, Bool.or_eq_true, decide_eq_true_eq] at hty
    simp only
    unfold dispatchBy
    rcases hty with (((e | e) | e) | e) | e <;> subst e <;> simp only
    · split
      · show (Out.append (handlePresentation g m).2 _).exc = none
        simp [Out.append, handlePresentation_noexc g m]
      · exact handlePresentation_noexc g m
    · exact handleSet_noexc g m hm
    · exact handleReq_noexc g m hm
    · exact handleInternal_noexc g m hm hi hd
    · exact handleStream_noexc g m hm ho

/-- **totality of the dispatcher** under the invariant -/
theorem logic_noexc (g : GW) (line : Str) (hi : NodeInv g) (hd : DesiredOk g) (ho : OtaOk g) :
    (logic g line).2.exc = none := by
  unfold logic
  cases hdm : decode line with
  | none => rfl
  | some m =>
    simp only
    split
    · rename_i hv; exact dispatch_noexc g m ⟨line, hdm⟩ hv hi hd ho
    · rfl

end MySensors
