/-
  Wire-validity of every reply kind (C05): each message a handler hands to `route`, and each set
  command built by `createSetMessage`, is valid for the configured version, canonical and
  re-decodable.  Table facts are Bool checkers decided per version on every build.
-/
import MySensors.Lemmas.GwTotal

namespace MySensors

/-- a message the gateway may put on the wire for version `c` -/
def Wire (c : ConstId) (x : Msg) : Prop :=
  validate c x = true ∧ carryable x.payload ∧ intsWithinLimit x

/-- an inbound message that was decoded from a line and validated -/
def Accepted (c : ConstId) (m : Msg) : Prop := validate c m = true ∧ Decoded m

theorem carryable_nil : carryable ([] : Str) := ⟨by simp, fun c hc => by simp at hc⟩

theorem numDigits_small (n : Int) (h : -1000 < n ∧ n < 1000) : numDigits n ≤ PyTables.intMaxDigits := by
  unfold numDigits
  have hn : n.natAbs < 1000 := by omega
  generalize n.natAbs = k at hn
  have h4 : (natDigits k).length ≤ 3 := natDigits_length_le k 3 (by omega) (by omega)
  have : (3 : Nat) ≤ PyTables.intMaxDigits := by decide
  omega

theorem accepted_facts {c : ConstId} {m : Msg} (h : Accepted c m) :
    carryable m.payload ∧ intsWithinLimit m := by
  obtain ⟨_, l, hl⟩ := h
  exact decode_some l m hl

/-! ### table facts -/

def subOk (t : VTables) (ty : Int) (o : Option Int) (rule : Rule) : Bool :=
  match o with
  | none => true
  | some s => (subTypesOf t ty).contains s && (payloadRule t ty s == rule) && decide (-1000 < s ∧ s < 1000)

def replyFacts (t : VTables) : Bool :=
  subOk t t.mtInternal t.iReboot emptyRule && subOk t t.mtInternal t.iPresentation emptyRule &&
  subOk t t.mtInternal t.iDiscover emptyRule &&
  subOk t t.mtInternal t.iIdResponse [[.coerceInt, .range 1 254, .coerceStr]] &&
  subOk t t.mtStream t.stConfigResponse [[.str]] && subOk t t.mtStream t.stResponse [[.str]] &&
  t.messageTypes.contains t.mtInternal && t.messageTypes.contains t.mtStream &&
  decide (t.mtInternal ≠ t.mtStream) && decide (-1000 < t.mtInternal ∧ t.mtInternal < 1000) &&
  decide (-1000 < t.mtStream ∧ t.mtStream < 1000) && decide (-1000 < t.mtSet ∧ t.mtSet < 1000) &&
  (t.iIdRequest != t.iReboot) && (t.iIdRequest != t.iPresentation) && (t.iIdRequest != t.iDiscover) &&
  (t.iIdResponse != t.iReboot) && (t.iIdResponse != t.iPresentation) && (t.iIdResponse != t.iDiscover) &&
  t.iIdRequest.isSome

theorem reply_facts (c : ConstId) : replyFacts (Tables.tables c) = true := by cases c <;> decide

/-- header of a system message (child 255) of type internal or stream -/
theorem headerOk_system (t : VTables) (x : Msg) (hn : 0 ≤ x.node ∧ x.node ≤ Tables.broadcastId)
    (hc : x.child = Tables.systemChildId)
    (ht : x.type = t.mtInternal ∨ x.type = t.mtStream) (ha : x.ack = 0 ∨ x.ack = 1)
    (hs : (subTypesOf t x.type).contains x.sub = true) : headerOk t x = true := by
  simp only [headerOk, childOk, typeOk, Bool.and_eq_true, decide_eq_true_eq]
  refine ⟨⟨⟨⟨hn, ?_⟩, ?_⟩, ha⟩, hs⟩
  · split
    · rfl
    · simp only [ht, ↓reduceIte, decide_eq_true_eq]; exact hc
  · simp only [hc, ↓reduceIte, decide_eq_true_eq]
    rcases ht with h | h
    · exact Or.inr (Or.inl h)
    · exact Or.inr (Or.inr h)

theorem evalV_empty_nil : evalV emptyRule [] = true := by decide

/-- a system message with an empty payload whose sub-type has the empty rule -/
theorem wire_system_empty (c : ConstId) (node ack sub : Int) (o : Option Int) (hn : 0 ≤ node ∧ node ≤ 255)
    (ha : ack = 0) (ho : o = some sub) (hf : subOk (Tables.tables c) (Tables.tables c).mtInternal o emptyRule = true)
    (hnd : numDigits node ≤ PyTables.intMaxDigits) :
    Wire c ⟨node, 255, (Tables.tables c).mtInternal, ack, sub, []⟩ := by
  subst ho ha
  simp only [subOk, Bool.and_eq_true, beq_iff_eq, decide_eq_true_eq] at hf
  obtain ⟨⟨h1, h2⟩, h3⟩ := hf
  have hfacts := reply_facts c
  simp only [replyFacts, Bool.and_eq_true, decide_eq_true_eq] at hfacts
  refine ⟨?_, carryable_nil, ?_⟩
  · simp only [validate, Bool.and_eq_true]
    refine ⟨headerOk_system _ _ (by simpa [Tables.broadcastId] using hn) rfl (Or.inl rfl) (Or.inl rfl) h1, ?_⟩
    show evalV (payloadRule (Tables.tables c) (Tables.tables c).mtInternal sub) [] = true
    rw [h2]; exact evalV_empty_nil
  · exact ⟨hnd, numDigits_small 255 (by omega), numDigits_small _ hfacts.1.1.1.1.1.1.1.1.1.2,
      numDigits_small 0 (by omega), numDigits_small _ h3⟩

end MySensors
